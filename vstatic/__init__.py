"""vstatic - repository-specific static analysis for pykdebugparser.

Everything in this package works on the *source text* of the repository under
analysis (parsed with ``ast``) plus the data file ``trace.codes``.  No module of
the analysed repository is ever imported or executed.
"""

__all__ = ["model", "sym", "report"]
