"""Command line: ``python -m vstatic check C09 --tier quick [--repo /repo]``."""
from __future__ import annotations

import argparse
import importlib
import json
import os
import sys
import traceback

from .model import AnalysisError, Repo
from .report import Run

PROPS = [f"C{i:02d}" for i in range(1, 21)]


def run_check(prop: str, tier: str, repo_root: str) -> int:
    seed = int(os.environ.get("VERIF_SEED", "0") or 0)
    try:
        mod = importlib.import_module(f"vstatic.rules.{prop.lower()}")
    except ModuleNotFoundError:
        print(f"ANALYSIS-ERROR property={prop}: no rule module")
        return 2
    except Exception:
        print(f"ANALYSIS-ERROR property={prop}: the rule module does not load")
        traceback.print_exc()
        return 2
    run = None
    # a rule that does not come back (a term that grows without bound on some unforeseen form of code) must not hang the
    # caller: the rules proper run under a wall-clock limit and end as an analysis error when it is hit
    import signal

    class _Timeout(AnalysisError):
        pass

    def _on_alarm(signum, frame):
        raise _Timeout(f"the analysis did not finish within {limit} s")
    limit = int(os.environ.get("VSTATIC_RULE_TIMEOUT", "300") or 300)
    try:
        signal.signal(signal.SIGALRM, _on_alarm)
        signal.alarm(limit)
    except (ValueError, AttributeError):
        pass
    try:
        repo = Repo(repo_root)
        run = Run(prop, tier, repo.root, getattr(mod, "EXPLANATION", ""))
        run.analysed = dict(repo.units())
        mod.check(repo, run)
        try:
            signal.alarm(0)
        except (ValueError, AttributeError):
            pass
        if tier == "thorough":
            if hasattr(mod, "thorough"):
                mod.thorough(repo, run)
            from . import selftest
            if selftest.load(prop):
                selftest.attach(run, repo)
        return run.finish(seed)
    except AnalysisError as e:
        # a violation established before the analysis had to stop is still a violation (it takes precedence, like it does
        # over a vacuity floor); without one the run is an analysis error
        if run is not None and run.has_unlisted():
            run.note(f"the analysis stopped early: {e}")
            run.floor_failures = []
            try:
                return run.finish(seed)
            except AnalysisError:
                pass
        print(f"ANALYSIS-ERROR property={prop}: {e}")
        return 2
    except Exception:
        print(f"ANALYSIS-ERROR property={prop}: internal error")
        traceback.print_exc()
        return 2


def main(argv=None) -> int:
    ap = argparse.ArgumentParser(prog="vstatic")
    sub = ap.add_subparsers(dest="cmd", required=True)
    c = sub.add_parser("check")
    c.add_argument("prop")
    c.add_argument("--tier", default=os.environ.get("VERIF_TIER", "quick"), choices=["quick", "thorough"])
    c.add_argument("--repo", default="/repo")
    r = sub.add_parser("replay")
    r.add_argument("path")
    r.add_argument("--repo", default=None)
    sub.add_parser("selfcheck")
    a = sub.add_parser("all")
    a.add_argument("--tier", default="quick")
    a.add_argument("--repo", default="/repo")
    ns = ap.parse_args(argv)
    if ns.cmd == "check":
        return run_check(ns.prop.upper(), ns.tier, ns.repo)
    if ns.cmd == "replay":
        with open(ns.path) as fd:
            data = json.load(fd)
        print(json.dumps(data["violations"], indent=1))
        print("--- re-deriving on the current tree ---")
        return run_check(data["property"], data.get("tier", "quick"), ns.repo or data.get("repo", "/repo"))
    if ns.cmd == "selfcheck":
        from . import selfcheck
        return selfcheck.main()
    if ns.cmd == "all":
        worst = 0
        for p in PROPS:
            if os.path.isfile(os.path.join(os.path.dirname(__file__), "rules", f"{p.lower()}.py")):
                worst = max(worst, run_check(p, ns.tier, ns.repo))
        return worst
    return 2


if __name__ == "__main__":
    try:
        code = main()
    except SystemExit:
        raise
    except BrokenPipeError:
        code = 0
    except BaseException:          # a crash of the analyser is never a verdict
        print("ANALYSIS-ERROR: internal error of the analyser")
        traceback.print_exc()
        code = 2
    sys.exit(code)
