"""Constant folding over the analysed source.

``evaluate`` folds literals, module constants (followed through package
imports), enum member ``.value``s, arithmetic / bit operators, tuples, lists,
dict literals, ``len(<bytes or str literal>)`` and ``struct.calcsize(<literal>)``.
Anything else evaluates to ``UNKNOWN``.  ``struct.calcsize`` is the stdlib
function applied to a literal that was *read from the source*: that is constant
folding, not execution of the analysed repository.
"""
from __future__ import annotations

import ast
import operator
import struct as _struct


class _Unknown:
    def __repr__(self):
        return "UNKNOWN"

    def __bool__(self):
        return False


UNKNOWN = _Unknown()

_BIN = {
    ast.Add: operator.add, ast.Sub: operator.sub, ast.Mult: operator.mul, ast.FloorDiv: operator.floordiv,
    ast.Mod: operator.mod, ast.BitOr: operator.or_, ast.BitAnd: operator.and_, ast.BitXor: operator.xor,
    ast.LShift: operator.lshift, ast.RShift: operator.rshift, ast.Pow: operator.pow, ast.Div: operator.truediv,
}
_UN = {ast.USub: operator.neg, ast.UAdd: operator.pos, ast.Invert: operator.invert, ast.Not: operator.not_}


def evaluate(repo, mod, node, local_names=None, _depth=0):
    if _depth > 20 or node is None:
        return UNKNOWN
    ev = lambda n: evaluate(repo, mod, n, local_names, _depth + 1)
    if isinstance(node, ast.Constant):
        return node.value
    if isinstance(node, ast.Name):
        if local_names and node.id in local_names:
            return local_names[node.id]
        if node.id in mod.constants:
            return ev(mod.constants[node.id])
        if node.id in mod.imports:
            found = repo.lookup(mod.imports[node.id])
            if found and found[0] == "const":
                return evaluate(repo, found[1], found[2], None, _depth + 1)
        return UNKNOWN
    if isinstance(node, ast.JoinedStr):
        # f'<{COUNT * WORD.size}s' over constants: the text it evaluates to (plain {value} fields only)
        parts = []
        for v_ in node.values:
            if isinstance(v_, ast.Constant) and isinstance(v_.value, str):
                parts.append(v_.value)
            elif isinstance(v_, ast.FormattedValue) and v_.conversion == -1 and v_.format_spec is None:
                x_ = ev(v_.value)
                if x_ is UNKNOWN or not isinstance(x_, (int, str)) or isinstance(x_, bool):
                    return UNKNOWN
                parts.append(str(x_))
            else:
                return UNKNOWN
        return "".join(parts)
    if isinstance(node, ast.Attribute) and node.attr == "size":
        # struct.Struct(fmt).size / NAME.size with NAME = struct.Struct(fmt)
        inner = node.value
        if isinstance(inner, ast.Name) and inner.id in mod.constants:
            inner = mod.constants[inner.id]
        if isinstance(inner, ast.Call) and repo.dotted(mod, inner.func) == "struct.Struct" and len(inner.args) == 1:
            v = ev(inner.args[0])
            if isinstance(v, (str, bytes)):
                try:
                    return _struct.calcsize(v)
                except _struct.error:
                    return UNKNOWN
    if isinstance(node, ast.Attribute):
        # Enum.MEMBER.value / Enum.MEMBER
        if node.attr == "value" and isinstance(node.value, ast.Attribute):
            cls = _resolve_class(repo, mod, node.value.value)
            if cls is not None and cls.enum_kind:
                return cls.member_dict().get(node.value.attr, UNKNOWN)
        cls = _resolve_class(repo, mod, node.value)
        if cls is not None and cls.enum_kind in ("IntEnum", "IntFlag") and node.attr in cls.member_dict():
            return cls.member_dict()[node.attr]         # a member of an integer enumeration is the integer
        dn = repo.dotted(mod, node)
        if dn:
            found = repo.lookup(dn)
            if found and found[0] == "const":
                return evaluate(repo, found[1], found[2], None, _depth + 1)
        return UNKNOWN
    if isinstance(node, ast.BinOp) and type(node.op) in _BIN:
        l, r = ev(node.left), ev(node.right)
        if l is UNKNOWN or r is UNKNOWN:
            return UNKNOWN
        try:
            return _BIN[type(node.op)](l, r)
        except Exception:
            return UNKNOWN
    if isinstance(node, ast.UnaryOp) and type(node.op) in _UN:
        v = ev(node.operand)
        if v is UNKNOWN:
            return UNKNOWN
        try:
            return _UN[type(node.op)](v)
        except Exception:
            return UNKNOWN
    if isinstance(node, (ast.Tuple, ast.List)):
        vals = [ev(e) for e in node.elts]
        if any(v is UNKNOWN for v in vals):
            return UNKNOWN
        return tuple(vals) if isinstance(node, ast.Tuple) else list(vals)
    if isinstance(node, ast.Dict):
        out = {}
        for k, v in zip(node.keys, node.values):
            if k is None:
                return UNKNOWN
            kv, vv = ev(k), ev(v)
            if kv is UNKNOWN:
                return UNKNOWN
            try:
                out[kv] = vv
            except TypeError:
                return UNKNOWN
        return out
    if isinstance(node, (ast.GeneratorExp, ast.ListComp)) and len(node.generators) == 1:
        # [f(a, b) for a, b in ROWS if p(a)] over a constant sequence: the list of its items
        g = node.generators[0]
        seq = ev(g.iter)
        names = [g.target.id] if isinstance(g.target, ast.Name) else (
            [e.id for e in g.target.elts] if isinstance(g.target, ast.Tuple) and all(isinstance(e, ast.Name) for e in g.target.elts) else None)
        if isinstance(seq, (tuple, list)) and len(seq) <= 256 and names is not None and not g.is_async:
            out = []
            for item in seq:
                ln = dict(local_names or {})
                if isinstance(g.target, ast.Name):
                    ln[names[0]] = item
                else:
                    if not isinstance(item, (tuple, list)) or len(item) != len(names):
                        return UNKNOWN
                    ln.update(zip(names, item))
                keep = True
                for c_ in g.ifs:
                    cv = evaluate(repo, mod, c_, ln, _depth + 1)
                    if cv is UNKNOWN:
                        return UNKNOWN
                    if not cv:
                        keep = False
                        break
                if not keep:
                    continue
                v = evaluate(repo, mod, node.elt, ln, _depth + 1)
                if v is UNKNOWN:
                    return UNKNOWN
                out.append(v)
            return out
        return UNKNOWN
    if isinstance(node, ast.Call) and isinstance(node.func, ast.Attribute) and node.func.attr == "join" and len(node.args) == 1 \
            and not node.keywords:
        sep, items = ev(node.func.value), ev(node.args[0])
        if isinstance(sep, str) and isinstance(items, (list, tuple)) and all(isinstance(x, str) for x in items):
            return sep.join(items)
        return UNKNOWN
    if isinstance(node, ast.Call):
        fn = repo.dotted(mod, node.func)
        if fn == "len" and len(node.args) == 1:
            v = ev(node.args[0])
            if isinstance(v, (bytes, str, tuple, list, dict)):
                return len(v)
        if fn in ("tuple", "list") and len(node.args) == 1 and isinstance(node.args[0], (ast.GeneratorExp, ast.ListComp)) \
                and len(node.args[0].generators) == 1 and not node.args[0].generators[0].ifs \
                and isinstance(node.args[0].generators[0].target, ast.Name):
            # tuple(f(i) for i in range(n)) / over a constant sequence, with a constant-foldable element
            g = node.args[0].generators[0]
            seq = ev(g.iter)
            if isinstance(g.iter, ast.Call) and repo.dotted(mod, g.iter.func) == "range":
                ra = [ev(a) for a in g.iter.args]
                seq = list(range(*ra)) if all(isinstance(a, int) and not isinstance(a, bool) for a in ra) and 1 <= len(ra) <= 3 else UNKNOWN
            if isinstance(seq, (tuple, list)) and len(seq) <= 64:
                out = []
                for item in seq:
                    ln = dict(local_names or {})
                    ln[g.target.id] = item
                    v = evaluate(repo, mod, node.args[0].elt, ln, _depth + 1)
                    if v is UNKNOWN:
                        return UNKNOWN
                    out.append(v)
                return tuple(out) if fn == "tuple" else out
        if fn in ("tuple", "list") and len(node.args) == 1 and not isinstance(node.args[0], (ast.GeneratorExp, ast.ListComp)):
            v = ev(node.args[0])
            if isinstance(v, (tuple, list)):
                return tuple(v) if fn == "tuple" else list(v)
        if fn == "range" and 1 <= len(node.args) <= 3:
            ra = [ev(a) for a in node.args]
            if all(isinstance(a, int) and not isinstance(a, bool) for a in ra):
                r = range(*ra)
                if len(r) <= 64:
                    return tuple(r)
        if fn == "struct.calcsize" and len(node.args) == 1:
            v = ev(node.args[0])
            if isinstance(v, str):
                try:
                    return _struct.calcsize(v)
                except _struct.error:
                    return UNKNOWN
        return UNKNOWN
    return UNKNOWN


def _resolve_class(repo, mod, node):
    dn = repo.dotted(mod, node)
    if not dn:
        return None
    found = repo.lookup(dn)
    if found and found[0] == "class":
        return found[2]
    return None
