"""Evaluator for the ``construct`` declarations used by the repository (layout only; nothing is parsed).

A declaration such as ``Struct('a' / Int32ul, Padding(8), 'm' / Array(lambda ctx: ctx.a, sub))`` is read from
the AST and turned into a layout tree.  Each node has a *size class*:

* ``("fixed", n)``           - always n bytes
* ``("field", desc)``        - determined by previously parsed fields / a length prefix (not by the content that follows)
* ``("content", why)``       - determined by the bytes themselves (greedy repetition, delimiter search)

and, when known, ``mod``: the node's size modulo 8.
"""
from __future__ import annotations

import ast
from dataclasses import dataclass, field
from typing import List, Optional, Tuple

from . import consteval
from .model import AnalysisError, ModuleInfo, Repo

INTS = {}
for _n, _s in (("Int8", 1), ("Int16", 2), ("Int24", 3), ("Int32", 4), ("Int64", 8)):
    for _sign in "us":
        for _e in "lbn":
            INTS[f"{_n}{_sign}{_e}"] = (_s, _e, _sign == "s")
INTS["Byte"] = (1, "b", False)
INTS["Short"] = (2, "b", False)
INTS["Int"] = (4, "b", False)
INTS["Long"] = (8, "b", False)


@dataclass
class Node:
    kind: str
    name: Optional[str] = None
    size: Tuple = ("fixed", 0)
    children: List["Node"] = field(default_factory=list)
    info: dict = field(default_factory=dict)
    line: int = 0

    def find(self, name: str) -> Optional["Node"]:
        for c in self.children:
            if c.name == name:
                return c
        return None

    def describe(self) -> str:
        return f"{self.name + ': ' if self.name else ''}{self.kind}{self.size}"


class CEval:
    def __init__(self, repo: Repo, mod: ModuleInfo):
        self.repo = repo
        self.mod = mod

    def ev(self, node: ast.expr, depth=0) -> Node:
        if depth > 30:
            raise AnalysisError("construct declaration too deep")
        # 'name' / subcon
        if isinstance(node, ast.BinOp) and isinstance(node.op, ast.Div) and isinstance(node.left, ast.Constant) \
                and isinstance(node.left.value, str):
            n = self.ev(node.right, depth + 1)
            n.name = node.left.value
            return n
        if isinstance(node, ast.Name):
            dn = self.repo.dotted(self.mod, node)
            short = dn.split(".")[-1] if dn else node.id
            if dn and dn.startswith("construct."):
                return self.atom(short, node)
            if node.id in self.mod.constants:
                n = self.ev(self.mod.constants[node.id], depth + 1)
                n.info.setdefault("defined_as", node.id)
                return n
            found = self.repo.lookup(dn) if dn else None
            if found and found[0] == "const":
                return CEval(self.repo, found[1]).ev(found[2], depth + 1)
            raise AnalysisError(f"construct: cannot resolve {node.id}")
        if isinstance(node, ast.Attribute):
            dn = self.repo.dotted(self.mod, node)
            if dn and dn.startswith("construct."):
                return self.atom(dn.split(".")[-1], node)
            raise AnalysisError(f"construct: cannot resolve {ast.unparse(node)}")
        if isinstance(node, ast.Call):
            dn = self.repo.dotted(self.mod, node.func) or ast.unparse(node.func)
            short = dn.split(".")[-1]
            if dn.startswith("construct."):
                return self.call(short, node, depth)
            found = self.repo.lookup(dn)
            if found and found[0] == "class":
                ci = found[2]
                if any(b.endswith("construct.Adapter") or b.endswith("Adapter") for b in ci.bases):
                    sub = self.ev(node.args[0], depth + 1)
                    return Node("Adapter", None, sub.size, [sub], {"adapter": ci.name, "mod": sub.info.get("mod")}, node.lineno)
            raise AnalysisError(f"construct: unsupported call {dn}")
        if isinstance(node, ast.Subscript) and not isinstance(node.slice, ast.Slice):
            # subcon[count] is construct's spelling of Array(count, subcon)
            fake = ast.Call(func=ast.Attribute(value=ast.Name(id="construct", ctx=ast.Load()), attr="Array", ctx=ast.Load()),
                            args=[node.slice, node.value], keywords=[])
            ast.copy_location(fake, node)
            ast.fix_missing_locations(fake)
            return self.call("Array", fake, depth)
        raise AnalysisError(f"construct: unsupported expression {ast.unparse(node)[:60]}")

    def atom(self, short: str, node) -> Node:
        ln = getattr(node, "lineno", 0)
        if short in INTS:
            size, endian, signed = INTS[short]
            return Node("Int", None, ("fixed", size), [], {"endian": endian, "signed": signed, "mod": size % 8}, ln)
        if short == "GreedyBytes":
            return Node("GreedyBytes", None, ("content", "consumes everything to the end of its stream"), [], {}, ln)
        if short == "Flag":
            return Node("Flag", None, ("bits", 1), [], {}, ln)
        if short == "Pass":
            return Node("Pass", None, ("fixed", 0), [], {"mod": 0}, ln)
        raise AnalysisError(f"construct: unsupported atom {short}")

    def const_int(self, node) -> Optional[int]:
        v = consteval.evaluate(self.repo, self.mod, node)
        return v if isinstance(v, int) and not isinstance(v, bool) else None

    def call(self, short: str, node: ast.Call, depth: int) -> Node:
        ln = node.lineno
        a = node.args
        if short in ("Struct", "BitStruct"):
            # Struct(*FIELDS) with FIELDS a module-level tuple / list of subcons; Struct(name=subcon, ...) keyword fields
            flat = []
            for x in a:
                if isinstance(x, ast.Starred):
                    src = x.value
                    if isinstance(src, ast.Name) and src.id in self.mod.constants:
                        src = self.mod.constants[src.id]
                    if not isinstance(src, (ast.Tuple, ast.List)):
                        raise AnalysisError(f"construct: unsupported expression {ast.unparse(x)[:60]}")
                    flat.extend(src.elts)
                else:
                    flat.append(x)
            for k in node.keywords:
                if k.arg is None:
                    raise AnalysisError("construct: **fields are not followed")
                named = ast.BinOp(left=ast.Constant(k.arg), op=ast.Div(), right=k.value)
                flat.append(ast.copy_location(named, k.value))
            a = flat
        if short == "Struct":
            kids = [self.ev(x, depth + 1) for x in a]
            return Node("Struct", None, _seq_size(kids), kids, {"mod": _seq_mod(kids)}, ln)
        if short == "BitStruct":
            kids = [self.ev(x, depth + 1) for x in a]
            bits = 0
            for k in kids:
                if k.kind == "Padding" and k.size[0] == "fixed":
                    k.size = ("bits", k.size[1])      # inside a BitStruct, Padding counts bits
                if k.size[0] != "bits":
                    raise AnalysisError(f"construct: BitStruct member {k.kind} is not bit-sized")
                bits += k.size[1]
            if bits % 8:
                raise AnalysisError("construct: BitStruct is not a whole number of bytes")
            return Node("BitStruct", None, ("fixed", bits // 8), kids, {"bits": bits, "mod": (bits // 8) % 8}, ln)
        if short in ("Padding", "Bytes"):
            n = self.const_int(a[0])
            if n is None:
                return Node(short, None, ("field", ast.unparse(a[0])), [], {}, ln)
            return Node(short, None, ("fixed", n), [], {"mod": n % 8}, ln)
        if short == "BitsInteger":
            n = self.const_int(a[0])
            if n is None:
                raise AnalysisError("construct: BitsInteger with non-constant width")
            return Node("BitsInteger", None, ("bits", n), [], {}, ln)
        if short == "Const":
            if len(a) == 2:
                sub = self.ev(a[1], depth + 1)
                val = consteval.evaluate(self.repo, self.mod, a[0])
                return Node("Const", None, sub.size, [sub], {"value": val, "mod": sub.info.get("mod")}, ln)
            val = consteval.evaluate(self.repo, self.mod, a[0])
            if isinstance(val, bytes):
                return Node("Const", None, ("fixed", len(val)), [], {"value": val, "mod": len(val) % 8}, ln)
            raise AnalysisError("construct: Const form not understood")
        if short == "LazyArray":
            # parses nothing while the enclosing struct is read: the items are read from the stream when they are asked for,
            # moving it again - not the same field as an Array
            inner = self.call("Array", node, depth)
            return Node("LazyArray", None, inner.size, inner.children, dict(inner.info), ln)
        if short == "Array":
            sub = self.ev(a[1], depth + 1)
            cnt = self.const_int(a[0])
            info = {"count": ast.unparse(a[0])}
            if isinstance(a[0], ast.Lambda):
                info["count_field"] = _ctx_field(a[0])
            elif isinstance(a[0], ast.Attribute) and self.repo.dotted(self.mod, a[0].value) == "construct.this":
                info["count_field"] = a[0].attr          # this.<field>
            elif isinstance(a[0], ast.Name) and a[0].id in self.mod.functions:
                info["count_field"] = _ctx_field(self.mod.functions[a[0].id])     # def count(ctx): return ctx.<field>
            if cnt is not None and sub.size[0] == "fixed":
                return Node("Array", None, ("fixed", cnt * sub.size[1]), [sub], dict(info, mod=(cnt * sub.size[1]) % 8), ln)
            if sub.size[0] == "fixed":
                m = 0 if sub.size[1] % 8 == 0 else None
                return Node("Array", None, ("field", f"{info['count']} x {sub.size[1]} bytes"), [sub], dict(info, mod=m), ln)
            return Node("Array", None, sub.size, [sub], info, ln)
        if short == "GreedyRange":
            sub = self.ev(a[0], depth + 1)
            m = 0 if sub.size[0] == "fixed" and sub.size[1] % 8 == 0 else None
            return Node("GreedyRange", None, ("content", f"repeats {sub.kind} until it fails to parse"), [sub], {"mod": m}, ln)
        if short == "FixedSized":
            n = self.const_int(a[0])
            sub = self.ev(a[1], depth + 1)
            if n is None:
                return Node("FixedSized", None, ("field", ast.unparse(a[0])), [sub], {}, ln)
            return Node("FixedSized", None, ("fixed", n), [sub], {"mod": n % 8}, ln)
        if short == "PaddedString":
            # exactly n bytes; the value is what remains after the trailing NUL (pad) bytes are stripped - NOT the text up to
            # the first NUL
            n = self.const_int(a[0])
            size = ("fixed", n) if n is not None else ("field", ast.unparse(a[0]))
            return Node("PaddedString", None, size, [], {"mod": (n % 8) if n is not None else None,
                                                          "encoding": consteval.evaluate(self.repo, self.mod, a[1]) if len(a) > 1 else None}, ln)
        if short in ("CString", "PascalString"):
            return Node(short, None, ("content", "terminated by a NUL byte found in the data"), [],
                        {"encoding": consteval.evaluate(self.repo, self.mod, a[0]) if a else None}, ln)
        if short == "NullTerminated" and len(a) == 1 and not getattr(node, "keywords", None) and isinstance(a[0], ast.Call) \
                and isinstance(a[0].func, (ast.Name, ast.Attribute)) \
                and (a[0].func.id if isinstance(a[0].func, ast.Name) else a[0].func.attr) == "GreedyString" and not a[0].keywords:
            # construct defines CString(enc) as StringEncoded(NullTerminated(GreedyBytes), enc); the terminator is cut before the
            # bytes are decoded either way, so NullTerminated(GreedyString(enc)) is the same field
            return Node("CString", None, ("content", "terminated by a NUL byte found in the data"), [],
                        {"encoding": consteval.evaluate(self.repo, self.mod, a[0].args[0]) if a[0].args else None}, ln)
        if short == "Prefixed":
            length = self.ev(a[0], depth + 1)
            sub = self.ev(a[1], depth + 1)
            return Node("Prefixed", None, ("field", "its own length prefix"), [length, sub], {"mod": None}, ln)
        if short == "Aligned":
            m = self.const_int(a[0])
            sub = self.ev(a[1], depth + 1)
            size = sub.size
            if sub.size[0] == "fixed" and m:
                n = sub.size[1]
                size = ("fixed", n + (-n) % m)
            return Node("Aligned", None, size if size[0] != "content" else sub.size, [sub],
                        {"modulus": m, "mod": 0 if m and m % 8 == 0 else None}, ln)
        if short == "Select":
            kids = [self.ev(x, depth + 1) for x in a]
            sizes = {k.size for k in kids}
            size = kids[0].size if len(sizes) == 1 else ("field", "first alternative that parses")
            if any(k.size[0] == "content" for k in kids):
                size = ("content", "alternative chosen by trying to parse the data")
            return Node("Select", None, size, kids, {}, ln)
        if short in ("Optional", "Peek", "Pointer", "Computed", "Tell", "Rebuild", "Default", "Check"):
            raise AnalysisError(f"construct: {short} is outside the supported set")
        raise AnalysisError(f"construct: unsupported combinator {short}")


def _ctx_field(lam) -> Optional[str]:
    """lambda ctx: ctx.field / ctx['field'], or a one-statement function returning that  ->  'field' (None when the count is
    a more complex expression)."""
    body = lam.body
    if isinstance(lam, ast.FunctionDef):
        stmts = [s_ for s_ in lam.body if not (isinstance(s_, ast.Expr) and isinstance(s_.value, ast.Constant))]   # docstring
        if len(stmts) != 1 or not isinstance(stmts[0], ast.Return):
            return None
        body = stmts[0].value
    if len(lam.args.args) != 1:
        return None
    ctx = lam.args.args[0].arg
    if isinstance(body, ast.Attribute) and isinstance(body.value, ast.Name) and body.value.id == ctx:
        return body.attr
    if isinstance(body, ast.Subscript) and isinstance(body.value, ast.Name) and body.value.id == ctx \
            and isinstance(body.slice, ast.Constant) and isinstance(body.slice.value, str):
        return body.slice.value
    return None


def _seq_size(kids: List[Node]):
    total = 0
    cls = "fixed"
    why = []
    for k in kids:
        if k.size[0] == "fixed":
            total += k.size[1]
        elif k.size[0] == "field":
            if cls == "fixed":
                cls = "field"
            why.append(f"{k.name or k.kind}: {k.size[1]}")
        elif k.size[0] == "content":
            cls = "content"
            why.append(f"{k.name or k.kind}: {k.size[1]}")
        else:
            raise AnalysisError(f"construct: bit-sized member {k.kind} directly inside a byte Struct")
    if cls == "fixed":
        return ("fixed", total)
    return (cls, "; ".join(why))


def _seq_mod(kids: List[Node]) -> Optional[int]:
    m = 0
    for k in kids:
        if k.size[0] == "fixed":
            m = (m + k.size[1]) % 8
        else:
            km = k.info.get("mod")
            if km is None:
                return None
            m = (m + km) % 8
    return m


def field_offsets(struct: Node) -> List[Tuple[Node, Optional[int]]]:
    """(child, byte offset) for the leading run of children whose offset is fixed."""
    out = []
    off: Optional[int] = 0
    for k in struct.children:
        out.append((k, off))
        if off is not None and k.size[0] == "fixed":
            off += k.size[1]
        else:
            off = None
    return out


def bit_positions_le64(struct: Node) -> dict:
    """For a fixed 8-byte Struct parsed from the little-endian encoding of a 64-bit integer: the integer's bit
    positions (lsb..msb inclusive) occupied by every named leaf, keyed by dotted path."""
    out = {}
    for k, off in field_offsets(struct):
        if off is None:
            raise AnalysisError("construct: field offset not fixed")
        if k.kind == "Int":
            if k.info["endian"] not in ("l",) and k.size[1] != 1:
                out[k.name] = ("non-little-endian", off * 8, (off + k.size[1]) * 8 - 1)
            else:
                out[k.name] = (off * 8, (off + k.size[1]) * 8 - 1)
        elif k.kind == "BitStruct":
            if k.size[1] != 1:
                raise AnalysisError("construct: multi-byte BitStruct bit numbering is outside the supported set")
            pos = 0       # from the most significant bit
            for b in k.children:
                w = b.size[1]
                hi = 7 - pos
                lo = hi - w + 1
                if b.name:
                    out[f"{k.name}.{b.name}"] = (off * 8 + lo, off * 8 + hi)
                pos += w
        elif k.kind in ("Padding", "Bytes"):
            if k.name:
                out[k.name] = (off * 8, (off + k.size[1]) * 8 - 1)
        else:
            raise AnalysisError(f"construct: {k.kind} inside a bit-position query")
    return out
