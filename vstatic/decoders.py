"""Per-registry-entry facts: handler result object, its class, the rendered template, atom classification."""
from __future__ import annotations

from dataclasses import dataclass, field
from typing import Dict, List, Optional, Set, Tuple

from . import registry, render, sym
from .model import AnalysisError, ClassInfo, Repo
from .sym import T, const, param

EVENTS = param("events")
PARSER = param("parser")


@dataclass
class Decoded:
    entry: registry.Entry
    rec: sym.Record
    ret: T
    cls: Optional[ClassInfo] = None
    str_term: Optional[T] = None
    str_rec: Optional[sym.Record] = None
    segs: Optional[list] = None
    problems: List[str] = field(default_factory=list)


class Decoders:
    """Cache of symbolic results for all registry entries."""

    def __init__(self, repo: Repo):
        self.repo = repo
        self.interp = sym.Interp(repo)
        self.reg = registry.load_all(repo)
        self._cache: Dict[Tuple[str, str], Decoded] = {}
        LOOKUP_METHODS.clear()
        LOOKUP_METHODS.update(lookup_derived_methods(repo))

    def entries(self, family: Optional[str] = None):
        for fam, es in self.reg.items():
            if family is None or fam == family:
                yield from es

    def _bases(self, ci):
        out = []
        for b in ci.bases:
            f = self.repo.lookup(b)
            if f and f[0] == "class":
                out.append(f[2])
                out.extend(self._bases(f[2]))
        return out

    def decode(self, entry: registry.Entry) -> Decoded:
        k = (entry.family, entry.key)
        if k in self._cache:
            return self._cache[k]
        rec = registry.run_handler(self.interp, entry)
        ret = rec.return_term()
        d = Decoded(entry, rec, ret)
        if rec.notes:
            d.problems.extend(rec.notes)
        obj = ret
        if obj.op == "new":
            found = self.repo.lookup(obj.a[0])
            ci: ClassInfo = found[2]
            d.cls = ci
            import ast as _ast
            wrappers = [_ast.unparse(x) for x in ci.node.decorator_list
                        if (self.repo.dotted(ci.module, x.func if isinstance(x, _ast.Call) else x) or "")
                        not in ("dataclasses.dataclass", "dataclass", "functools.total_ordering")]
            if wrappers:
                # a class decorator of the package may replace methods (a wrapped __str__): what the class renders is then not
                # what its own __str__ says
                d.problems.append(f"class {ci.qualname} is passed through the decorator {wrappers[0]}: its rendering may be "
                                  f"replaced by it")
            elif "__post_init__" in ci.methods or any("__post_init__" in b.methods for b in self._bases(ci)):
                # fields computed after construction (__post_init__, InitVar): the object the handler builds is not the one
                # __str__ renders - not followed
                d.problems.append(f"class {ci.qualname} computes fields in __post_init__: its rendering is not derived")
            elif "__str__" in ci.methods:
                srec = self.interp.run(ci.module, ci.methods["__str__"], {"self": obj}, self_cls=ci)
                d.str_rec = srec
                d.str_term = srec.return_term()
                if srec.notes:
                    d.problems.extend(srec.notes)
                try:
                    d.segs = render.flatten(d.str_term)
                except Exception as e:  # pragma: no cover - defensive
                    d.problems.append(f"flatten failed: {e}")
            else:
                d.problems.append(f"class {ci.qualname} has no __str__")
        else:
            d.problems.append(f"handler result is not a constructed package class: {sym.pretty(ret)[:120]}")
        self._cache[k] = d
        return d


# ----------------------------------------------------------------------- atoms
def _event_ref(t: T) -> Optional[Tuple[str, T]]:
    """If t is events[<i>] return ('START'|'END'|'EV', index term)."""
    if t.op == "sub" and t.a[0] == EVENTS:
        idx = t.a[1]
        if idx == const(0):
            return ("START", idx)
        if idx == const(-1):
            return ("END", idx)
        return ("EV", idx)
    if t.op == "elem" and t.a[0].op == "slice" and t.a[0].a[0] == EVENTS and len(t.a[0].a) == 3:
        lo, hi = t.a[0].a[1], t.a[0].a[2]
        if lo in (const(None), const(0)) and hi == const(1):
            return ("START", const(0))          # the element of events[:1] is the first record
        if lo == const(-1) and hi == const(None):
            return ("END", const(-1))
    return None


LOOKUP_METHODS = {"parse_vnode", "parse_vnodes"}
_LOOKUP_BASE = {"parse_vnode", "parse_vnodes", "vnode_generator"}


def lookup_derived_methods(repo: Repo) -> Set[str]:
    """Methods of TracesParser whose result is made of nothing but the nested lookups of the records they are given: the two
    basic ones and every helper built on them (`parse_vnode_pair`, `parse_paths` ...) - a method qualifies when everything it
    touches on `self` is such a method, the code table or a name predicate, and it stores nothing."""
    import ast as _ast
    try:
        tp = repo.cls("traces_parser", "TracesParser")
    except Exception:
        return {"parse_vnode", "parse_vnodes"}
    derived = set(_LOOKUP_BASE) & set(tp.methods)
    neutral = {"trace_codes"}
    # predicates on a record's name: methods whose body only reads self.trace_codes
    for name, fn in tp.methods.items():
        attrs = {n.attr for n in _ast.walk(fn) if isinstance(n, _ast.Attribute) and isinstance(n.value, _ast.Name) and n.value.id == "self"}
        stores = any(isinstance(n, (_ast.Attribute, _ast.Subscript)) and isinstance(n.ctx, (_ast.Store, _ast.Del)) for n in _ast.walk(fn))
        if attrs and attrs <= {"trace_codes"} and not stores and len(fn.args.args) == 2:
            neutral.add(name)
    changed = True
    while changed:
        changed = False
        for name, fn in tp.methods.items():
            if name in derived or name in neutral or name.startswith("__"):
                continue
            attrs = {n.attr for n in _ast.walk(fn) if isinstance(n, _ast.Attribute) and isinstance(n.value, _ast.Name)
                     and n.value.id in ("self", "cls", "TracesParser")}
            stores = any(isinstance(n, (_ast.Attribute, _ast.Subscript)) and isinstance(n.ctx, (_ast.Store, _ast.Del))
                         for n in _ast.walk(fn))
            if attrs and attrs <= (derived | neutral) and (attrs & derived) and not stores:
                derived.add(name)
                changed = True
    return derived - {"vnode_generator"}


def strip_conditions(t: T) -> T:
    """The term with every ``ite`` condition replaced by a constant (value dependence only, no control dependence)."""
    def go(x):
        if isinstance(x, T):
            if x.op == "ite":
                return T("ite", (const(True), go(x.a[1]), go(x.a[2])))
            if x.op == "widen":
                return x          # what a loop accumulates depends on its conditions: that is data dependence
            return T(x.op, go(x.a))
        if isinstance(x, tuple):
            return tuple(go(e) for e in x)
        return x
    return go(t)


def classify(t: T) -> Set[tuple]:
    """Set of provenance atoms of a term.

    ('START', i) / ('END', i) / ('EV', '*')  a word of the first / last / another window record
    ('START.f',) etc.                       another field of such a record
    ('LOOKUP',)                             a path produced by the nested-lookup parser
    ('TABLE', name)                         parser state
    ('NESTED',)                             result of decoding nested records
    ('EXT', dotted)                         an object outside the package (errno.errorcode, socket.AddressFamily, ...)
    ('PARAM', name)                         another parameter (no_cancel, addr_type ...)
    ('WINDOW',)                             the whole event list
    """
    out: Set[tuple] = set()
    _classify(t, out)
    return out


def _classify(t, out: Set[tuple]) -> None:
    if not isinstance(t, T):
        if isinstance(t, tuple):
            for e in t:
                _classify(e, out)
        return
    op = t.op
    # events[i].values[k]
    if op == "sub" and t.a[0].op == "attr" and t.a[0].a[1] == "values":
        ev = _event_ref(t.a[0].a[0])
        if ev is not None:
            k = t.a[1].a[0] if t.a[1].op == "const" else "*"
            if t.a[1].op != "const":
                _classify(t.a[1], out)
            out.add((ev[0], k) if ev[0] != "EV" else ("EV", "*"))
            if ev[0] == "EV":
                _classify(ev[1], out)
            return
    if op == "attr":
        ev = _event_ref(t.a[0])
        if ev is not None:
            if t.a[1] == "values":
                out.add((ev[0], "*") if ev[0] != "EV" else ("EV", "*"))
            else:
                out.add((ev[0] + "." + t.a[1],))
            if ev[0] == "EV":
                _classify(ev[1], out)
            return
        if t.a[0] == PARSER:
            out.add(("TABLE", t.a[1]))
            return
    if op == "call":
        f = t.a[0]
        if f.op == "attr" and f.a[0] == PARSER:
            if f.a[1] in LOOKUP_METHODS:
                out.add(("LOOKUP",))
                return
            if f.a[1] == "parse_event_list":
                out.add(("NESTED",))
                return
    if op == "slice" and t.a[0] == EVENTS and len(t.a) == 3 and (
            (t.a[1] in (const(None), const(0)) and t.a[2] == const(1)) or (t.a[1] == const(-1) and t.a[2] == const(None))):
        # events[:1] / events[-1:]: the list holding the first / last record only - not the whole window
        return                  # (what is read from its element is classified where it is read)
    if op == "param":
        if t == EVENTS:
            out.add(("WINDOW",))
        elif t == PARSER:
            out.add(("TABLE", "*"))
        else:
            out.add(("PARAM", t.a[0]))
        return
    if op == "global":
        if t.a[0].split(".")[0] in ("itertools", "operator", "functools", "builtins", "collections", "typing", "dataclasses"):
            return              # pure plumbing of the standard library: what flows through it is classified from its arguments
        out.add(("EXT", t.a[0]))
        return
    if op == "lambda":
        return
    for c in sym.children(t):
        _classify(c, out)
    # tuples inside args (kwargs) are covered by children()


def fmt_atoms(atoms: Set[tuple]) -> List[str]:
    return sorted("".join(f"[{x}]" if isinstance(x, int) else (f".{x}" if i else str(x)) for i, x in enumerate(a))
                  for a in atoms)
