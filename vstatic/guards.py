"""Guard reasoning over the partial operations recorded by the symbolic interpreter.

A partial operation (subscript / attribute load) is *discharged* when the path condition, the enclosing loops or an
enclosing ``try`` make it safe.  Truthiness of a key is **not** membership.
"""
from __future__ import annotations

from typing import Dict, List, Optional, Tuple

from . import render, sym
from .sym import T, const, POp

LOOKUP_EXC = {"KeyError", "LookupError", "Exception", "BaseException"}
INDEX_EXC = {"IndexError", "LookupError", "Exception", "BaseException"}
ATTR_EXC = {"AttributeError", "Exception", "BaseException", "TypeError"}


def assumptions(pc) -> Dict[T, bool]:
    a: Dict[T, bool] = {}
    for c, pol in pc:
        a = render.with_assumption(a, c, pol)
    return a


def in_try(p: POp, names) -> bool:
    return any(any(n.split(".")[-1] in names for n in level) for level in p.trys)


def member_guarded(p: POp, rec: sym.Record) -> Optional[str]:
    """Why a dict lookup base[key] is safe, or None."""
    if in_try(p, LOOKUP_EXC):
        return "enclosing try/except for a lookup error"
    a = assumptions(p.pc)
    for table in {p.base, p.path} - {None}:
        if render.assume_lookup(a, T("cmp", ("in", p.key, table))) is True:
            return "membership tested on the path"
        for call_keys in (T("call", (T("attr", (table, "keys")), (), ())),):
            if render.assume_lookup(a, T("cmp", ("in", p.key, call_keys))) is True:
                return "membership tested on the path"
        # `table.get(key)` was found not to be None on the path: the key is there
        for got in (T("call", (T("attr", (table, "get")), (p.key,), ())),
                    T("call", (T("attr", (table, "get")), (p.key, T("const", (None,))), ()))):
            if render.assume_lookup(a, T("cmp", ("is", got, T("const", (None,))))) is False or \
                    render.assume_lookup(a, T("cmp", ("is not", got, T("const", (None,))))) is True:
                return "table.get(key) is not None on the path"
    # a dominating store / setdefault of the same key into the same table
    for e in rec.effects:
        if e.seq < p.seq and e.kind in ("mut-call", "sub-store") and (e.path in (p.base, p.path) or e.base in (p.base, p.path)):
            same_key = (e.kind == "sub-store" and e.key == p.key) or \
                       (e.kind == "mut-call" and e.key == "setdefault" and e.args and e.args[0] == p.key)
            if same_key and tuple(p.loops[:len(e.loops)]) == tuple(e.loops):
                extra = [c for c in e.pc if c not in p.pc]
                # stored unconditionally, or stored exactly on the paths where the key was missing
                tables = {p.base, p.path} - {None}
                def absent(c, pol):
                    atom, apol = render.norm_bool(c)
                    eff = pol if apol else not pol
                    return atom.op == "cmp" and atom.a[0] == "in" and atom.a[1] == p.key and atom.a[2] in tables and eff is False
                if all(absent(c, pol) for c, pol in extra):
                    return "the key was stored into the table earlier on every path where it was missing"
    # iteration facts
    if p.key.op == "elem":
        it = p.key.a[0]
        for table in {p.base, p.path} - {None}:
            if it == table or it == T("call", (T("attr", (table, "keys")), (), ())) \
                    or (it.op == "call" and it.a[0].op == "builtin" and it.a[0].a[0] in ("list", "sorted", "tuple")
                        and it.a[1] and it.a[1][0] == table):
                return "key comes from iterating the same table"
            # for k in Q.get(k0, {}):  Q[k0][k]
            if table.op == "sub" and it.op == "call" and it.a[0] == T("attr", (table.a[0], "get")) and it.a[1] \
                    and it.a[1][0] == table.a[1]:
                return "key comes from iterating the same inner table obtained with .get"
    for lid in p.loops:
        lr = rec.loops.get(lid)
        if lr is None or lr.iter is None:
            continue
        if lr.target is not None and p.key == lr.target and lr.iter_path is not None and lr.iter_path in ({p.base, p.path} - {None}):
            return "key comes from iterating the same table"
        it = lr.iter
        for table in {p.base, p.path} - {None}:
            # inside `for _ in Q.get(k0, {})`: the body only runs when Q has k0 (default is empty)
            if it.op == "call" and it.a[0] == T("attr", (table, "get")) and len(it.a[1]) == 2 and it.a[1][0] == p.key \
                    and sym.truth(it.a[1][1]) is False:
                return "inside a loop over table.get(key, {}): the body runs only when the key is present"
    return None


def min_len(pc, seq: T) -> int:
    """Lower bound on len(seq) implied by the path condition."""
    best = 0
    LEN = T("call", (T("builtin", ("len",)), (seq,), ()))
    a = assumptions(pc)
    if render.assume_lookup(a, seq) is True:
        best = 1
    for c, pol in _atoms(pc):
        if c == LEN and pol:
            best = max(best, 1)         # `if len(seq):`
        if pol and c.op == "slice" and len(c.a) == 3 and c.a[0] == seq:
            # `if seq[k:]:` - the rest after k elements is not empty; `if seq[:k]:` (k != 0) - there is a first element
            lo, hi = c.a[1], c.a[2]
            lo_n = 0 if lo == sym.NONE else lo.a[0] if lo.op == "const" and isinstance(lo.a[0], int) else None
            if lo_n is not None and lo_n >= 0 and hi == sym.NONE:
                best = max(best, lo_n + 1)
            elif lo_n == 0 and hi.op == "const" and isinstance(hi.a[0], int) and hi.a[0] != 0:
                best = max(best, 1)
        if c.op != "cmp":
            continue
        op, l, r = c.a
        if r == LEN and l.op == "const":
            l, r = r, l
            op = {"<": ">", ">": "<", "<=": ">=", ">=": "<=", "==": "==", "!=": "!="}.get(op, op)
        if l != LEN or r.op != "const" or not isinstance(r.a[0], int):
            continue
        n = r.a[0]
        if not pol:
            op = {"<": ">=", ">": "<=", "<=": ">", ">=": "<", "==": "!=", "!=": "=="}.get(op)
        if op == ">":
            best = max(best, n + 1)
        elif op == ">=":
            best = max(best, n)
        elif op == "==":
            best = max(best, n)
        elif op == "!=" and n == 0:
            best = max(best, 1)
    return best


def _atoms(pc):
    """Flatten conjunctions / negated disjunctions of the path condition into (atom, polarity)."""
    out = []

    def add(c, pol):
        if c.op == "not":
            add(c.a[0], not pol)
        elif c.op == "bool" and ((c.a[0] == "and" and pol) or (c.a[0] == "or" and not pol)):
            for x in c.a[1]:
                add(x, pol)
        else:
            out.append((c, pol))
    for c, pol in pc:
        add(c, pol)
    return out


def index_guarded(p: POp) -> Optional[str]:
    if in_try(p, INDEX_EXC):
        return "enclosing try/except IndexError"
    i = p.key.a[0]
    need = i + 1 if i >= 0 else -i
    for seq in {p.base, p.path} - {None}:
        if min_len(p.pc, seq) >= need:
            return f"length >= {need} established on the path"
        # a list that something was just appended to holds at least that many elements
        n, cur = 0, seq
        while cur.op == "mut" and cur.a[1] in ("append", "insert") and len(cur.a) == 3:
            n += 1
            cur = cur.a[0]
        if cur.op == "list":
            n += len([x for x in cur.a[0] if x.op != "star"])
        if n >= need:
            return f"{n} element(s) were appended to the list before"
        # list(group) for a (key, group) pair handed out by itertools.groupby: a group holds at least one element
        g_ = seq
        while True:
            if g_.op == "call" and g_.a[0].op == "builtin" and g_.a[0].a[0] in ("list", "tuple") and len(g_.a[1]) == 1:
                g_ = g_.a[1][0]
            elif g_.op == "comp" and g_.a[0] in ("list", "gen") and len(g_.a[2]) == 1 and not g_.a[2][0][2]:
                g_ = g_.a[2][0][1]          # one item per item of the source
            else:
                break
        if need == 1 and g_ is not seq and g_.op == "sub" and g_.a[1] == const(1) and g_.a[0].op == "elem" \
                and g_.a[0].a[0].op == "call" and g_.a[0].a[0].a[0] == T("global", ("itertools.groupby",)):
            return "a group of itertools.groupby is never empty"
    return None


def possible_none(t: T, pc) -> bool:
    """May t be None under the path condition (only syntactically visible None leaves are considered)?"""
    r = render.resolve(t, assumptions(pc))

    def leaves(x):
        if x.op == "ite":
            yield from leaves(x.a[1])
            yield from leaves(x.a[2])
        elif x.op == "widen":
            for v in x.a[2]:
                yield from leaves(v)
        else:
            yield x
    return any(l == const(None) for l in leaves(r))


def none_guarded(p: POp, base: T) -> Optional[str]:
    if in_try(p, ATTR_EXC):
        return "enclosing try/except"
    a = assumptions(p.pc)
    if render.assume_lookup(a, T("cmp", ("is", base, const(None)))) is False:
        return "`is not None` established on the path"
    if render.assume_lookup(a, base) is True:
        return "truthiness established on the path"
    return None
