"""Generates /verif/MANIFEST.json from the rule modules that exist (keeps it valid at all times).

Run: /venv/bin/python -m vstatic.manifest_gen
"""
from __future__ import annotations

import json
import os

HERE = os.path.dirname(os.path.abspath(__file__))
VERIF = os.path.dirname(HERE)

PY = "/venv/bin/python"

# property id -> (technique, level text, level note, design ref)
CLAIMS = {
    "C01": (
        "abstract interpretation of from_kd_buf over byte ranges of the input + constant evaluation of format/masks; module-level memo tables proved pure (value a function of the key) are read through",
        "Decided in full modulo the trusted base: the struct format is evaluated to a field layout and compared with "
        "XNU's 64-bit kd_buf, every output field of the Kevent constructor is traced to the exact byte range (or masked "
        "range) it may depend on, the two masks are evaluated and shown to partition 32 bits as 30+2, and the sizes are "
        "shown equal to 64. This is a statement about all 2^512 records at once, which no test vector gives.",
        "Trusts CPython's struct semantics and the analyser; idioms other than struct.unpack/unpack_from/int.from_bytes "
        "yield exit 2 (analysis error), never a verdict.",
        "DESIGN.md §4 C01"),
    "C02": (
        "symbolic interpretation of parse_v2 / set_thread_map (reads, exits, yields, effects with order) + construct layout "
        "evaluation of the header into size classes",
        "Decides structural clauses: the record loop performs exactly one read(64) per iteration whose non-empty result is "
        "yielded unmodified and unconditionally through from_kd_buf and whose emptiness is the only exit (so m records give m "
        "events in order for any record bytes); the thread-map entry layout and count; clear-then-fill of the shared tables "
        "without rebinding, later entry winning; two tables are two objects in both constructors (taken over from C14/R2); that a request without filters lists every event the parser yields is taken over from C12's pipeline rules. The header size-class rule reports the greedy zero skipper `_pad` as a known "
        "finding (genuine: it eats leading zero bytes of the first record).",
        "The absolute layout of the 0x11c header bytes before the thread map is not decided; construct's documented sizes are "
        "trusted.",
        "DESIGN.md §4 C02"),
    "C03": (
        "symbolic interpretation of parse_v3: loop structure, exit conditions, yield order, tag-dispatch effects mapped to "
        "module constants, accumulate-vs-overwrite classification; the tag scanner reduced to a machine and decided by a "
        "sliding-window theorem or by product exploration with the tag's Knuth-Morris-Pratt automaton",
        "Decides structural clauses: one unconditional from_kd_buf(read(64)) yield in a loop over chunk_size // 64 inside a "
        "chunk loop left exactly when the next 8 bytes are not MORE_EVENTS; thread map installed before the first event; logs "
        "after all events; every TRACEV3_* constant either used by the scan or dispatched to the state of its name; "
        "list-valued sections accumulate and all are reset per parse; log records decoded in order with the inverted string "
        "index and the guarded table extension; seek_until stops right after the FIRST occurrence of each tag the parser "
        "passes and raises at end of stream (for any stream; a wrong scanner is reported with the shortest witness stream); an "
        "additional-data block is framed as tag[8] + u64 length + payload + filler to 8 bytes (explicit filler functions and "
        "alignment moduli are evaluated for payload lengths 0..63); the fields of a log record that are numbers of the string index "
        "are each replaced by log_strings[number] (taken over from C16/R6).",
        "Scanners outside the two decided families (block reads, nested loops) give exit 2. Agreement of the tag scan with real stackshot contents, the seek(-8,1) rewind and the Select fallback depend on file "
        "bytes and are not decided.",
        "DESIGN.md §4 C03"),
    "C04": (
        "effect-contract analysis of the pairing state machine: symbolic effects with path conditions, loop membership and "
        "statement order, return-term matching against re-derived parse_event_list terms",
        "Decides necessary structural conditions K1-K11 of the three-method state machine (thread keying, only the event or a "
        "fresh container stored, unconditional window reset before the append-to-all loop on START, guarded "
        "append-then-pop-then-decode on END, append-and-decode on NONE/ALL, the append loop of each action entered for every record the action gets, domain selection by the trace-family registry, "
        "totality of the qualifier table, the generator yielding exactly the non-None results in order, and - as an ownership "
        "rule over all registered decoders and the parser's other methods - nothing else writes the window tables, and every decoder "
        "returns a trace on every path that does not test the record's own qualifier; K9: whether parse_event_list decodes a list depends on the list only through its first record's code; K6 the pairing domain is chosen by the trace-family registry and nothing else; K13 every handle_* function of a family module is named by a table row or used by another function; K12: the record list a trace carries is the window itself or an unconditional record-by-record copy of it). The window contents "
        "as a function of an arbitrary history are not decided: each K is such that breaking it changes the traces of some "
        "history, which the seeded-fault self-test demonstrates.",
        "Histories themselves are not enumerated (that would be a different technique).",
        "DESIGN.md §4 C04"),
    "C05": (
        "effect enumeration over all registered decoders and parser methods (aliases resolved), classification of every "
        "write/read of parser state by its first key",
        "Decides the necessary condition for schedule independence: the only state that outlives one decoder invocation is "
        "either keyed first by the emitting thread's id or one of the frozen by-design global tables; no scalar slot is "
        "written by one invocation and read by another; no module/class-level object is mutated; a name record files its text "
        "under the pid of the emitting thread's own pending data record, and no decoder does anything else to the name table (both taken over from C14/R4); no constructor keeps a mutable default argument; a one-entry cache kept in parser slots is right only when every input the remembered value is computed from is compared before reuse; tables proved to be pure memos and bookkeeping attributes nobody reads are not state; a write to what a comprehension over the whole table collected, without a test of the emitting thread's id, is reported. Equality of per-thread "
        "results across interleavings is argued from this, not checked.",
        "The by-design tables (threads_pids, pids_names, global_strings, tids_names, dyld_*) are excluded by the property's own "
        "quantifier; they are frozen in the rule with reasons.",
        "DESIGN.md §4 C05"),
    "C06": (
        "loop-exit classification for every stream-reading loop (E1 empty-read test, E2 comparison against a non-empty "
        "constant, E3 strict-size decoder / EOF-raising callee), raw-read provenance of from_kd_buf arguments, laziness of the "
        "pipeline stages",
        "Decides termination (every loop that reads the stream leaves it when read() returns b''; reads consume constant "
        "positive sizes), no fabrication (from_kd_buf only ever receives the raw 64-byte read) and laziness (generator "
        "functions and filter/map/generator-expression stages only, no materialisation - a list comprehension over the stream "
        "counts as one; the premise that from_kd_buf rejects a buffer that is not a whole record (whole-buffer struct.unpack of "
        "KEVENT_SIZE bytes, or an explicit length check) is an obligation of its own; a list comprehension over the stream "
        "counts as one - or reordering; print_with_count tests "
        "the count before printing); the framing rules of a version-2 dump (one read(64) per iteration, no seek that moves the stream) are taken over from C02/R1, that traces() builds a trace decoder of its own per request from C13/R5. Prefix equality itself follows from laziness + determinism and is argued, not checked.",
        "Read cost inside construct is trusted to be linear.",
        "DESIGN.md §4 C06"),
    "C07": (
        "enumeration of partial operations (table lookups, constant indexes into possibly-short lists, dereferences of "
        "possibly-None values) from symbolic interpretation, each discharged by guard reasoning over its path condition",
        "Decided for the enumerated classes of partial access over all decoders, their renderings and the parser's methods: "
        "each access is shown to be covered on every path by a membership test of the same key, a length fact, a None test, "
        "iteration over the same table, .get, a dominating store or a matching try/except. This quantifies over all "
        "histories because the facts do not depend on which records were seen. Truthiness of a key is not accepted as "
        "membership. An index that is a conditional expression is judged per alternative. Tuple unpacking is tracked when the length of the unpacked sequence follows from how it is built (the decoder's window holds any number of records; a list padded up to a length but never cut has no upper bound); what parse_vnode gives back when there is no lookup has the shape of a lookup. The facade's line builders index the shared thread / process tables only under a membership test or "
        "through .get.",
        "Enum(x) for undeclared x and .decode() of invalid text are outside the property's premise; windows are non-empty by "
        "C04 so events[0]/events[-1]/ktraces[0] are not tracked; non-constant indexes (bisect results) are C15's.",
        "DESIGN.md §4 C07"),
    "C08": (
        "pattern matching on the symbolic value of the reassembled text (header-word / slice-offset agreement), dispatcher vs "
        "decoder None-path analysis for continuation records, lookup-ordinal ordering over all rendered path arguments",
        "Decides four structural clauses: the START record contributes data[8 x header words:], continuation records their "
        "whole data, left to right, NULs removed, ids from the START record; continuation records cannot avoid becoming traces "
        "(reported as four known findings - genuine); in all 66 path-taking decoders the looked-up paths appear in lookup "
        "order, the second path computed from the records not consumed by the first; a decoder that joins the payloads of its "
        "window may select records only by their code, not by a field that differs between START / continuation / END; that the lookup decoder returns a trace for every record it is given is taken over from C04/K11; for calls whose first path argument the kernel never resolves (a table of Darwin facts) a window with one lookup shows it as the last path argument; no decoder locates part of its window by counting another lookup's records; no branch of the text accumulation hands a record carrying the START bit its whole data. Byte-exact text for each length is not "
        "decided.",
        "Chunk boundary arithmetic (24 + 32k) is the kernel's and is not modelled.",
        "DESIGN.md §4 C08"),
    "C09": (
        "symbolic interpretation of handler + dataclass __str__ into output templates; per-position provenance of every hole",
        "Decided in full for the call part: for each of the ~400 BSC_/MSC_ registry keys the rendered text is derived as "
        "a template whose holes are symbolic expressions over the START/END words; every hole at call position p is shown "
        "to depend on START word p only (value dependence), on no END/other record/table, and numeric holes are shown to "
        "be the full 64-bit word itself in decimal/hex/signed form (any spelling of a two's-complement view is recognised; "
        "a view of fewer than 64 bits, or a conditional between the word and arithmetic on it, is a violation unless it is the one frozen exception). One fact covers all four-argument tuples and all END records of a "
        "decoder, which sampling cannot.",
        "Trusts the symbolic interpreter's model of the Python subset used (f-strings, conditional expressions, tuple "
        "unpacking, starred slices of the 4-word values tuple, inlined helper functions); symbolic decoders "
        "(enum lookups, flag joins) are treated as opaque functions of their argument (their correctness is C11's).",
        "DESIGN.md §4 C09"),
    "C10": (
        "symbolic interpretation (result serializer inlined) + case analysis of the rendered template on the END error word",
        "Decided structurally for all START x END tuples: every non-exempt BSC_ decoder's text is shown to branch on "
        "events[-1].values[0] on every path; on the non-zero side the tail reads 'errno: ' with holes that are exactly the "
        "code or a name looked up by exactly the code and no other END word; on the zero side there is no errno text, no "
        "dependence on the error word and the only END-derived holes are renderings of events[-1].values[1]; the call part "
        "never depends on the END record. The exempt set is the property's own list frozen by registry key.",
        "Trusts the interpreter as for C09; string truthiness is decided from literal content (an f-string with a non-empty "
        "literal part is truthy).",
        "DESIGN.md §4 C10"),
    "C11": (
        "enum value table vs Darwin reference + partial evaluation of every member-selection condition over the finite member "
        "set + shift/mask extraction of the ioctl split",
        "Decided for every flag family: because the member sets are finite, substituting each member into the selection "
        "condition leaves a residual test on the word (bit test or masked-field equality) that is judged for all word values "
        "at once - shown names have all their bits set, every declared value of a masked field is enumerated (taking into "
        "account what iterating an enum.Flag class yields on the interpreter in use), every declared single bit is tested. "
        "The ioctl split is shown to be the exact inverse of _IOC with disjoint fields covering 32 bits; the fields a "
        "decoder cuts out of one record word by shifts and masks are shown pairwise disjoint; a zero-valued member named "
        "explicitly is shown exactly when the word is zero; a member looked up in a table by a loop-narrowed rest of the word is shown "
        "to miss for words with undeclared bits. A member whose value is imported from outside the package is reported (the host's value is not Darwin's on every host); one that cannot be evaluated is exit 2. A word cut to a width before a member selection keeps every bit of every declared member. Taken over (R0): C09/R1 for every position shown through enumeration members (the names are those of the bits of the argument at that position) and C20/R1 (the protections of a page fault are shown whenever the nested record gave them, decided by comparisons with None).",
        "Reference values are transcriptions of XNU headers (vstatic/oracles/darwin.py). The access-mode selection loop of "
        "serialize_open_flags (first match wins + for/else) is not decided for the undefined value 3.",
        "DESIGN.md §4 C11"),
    "C12": (
        "pipeline recovery from the symbolic return term + normal-form comparison of predicates and applied-iff conditions",
        "Decided: the listing iterators are shown to be the container parser's generator wrapped only in filter stages, and "
        "the set of (condition, predicate) pairs is shown equal (modulo commutativity, negation normal form, inlined helpers) "
        "to the specification read off the property. Given that filter() yields exactly the order- and "
        "multiplicity-preserving matching subsequence, this covers all streams x all filter configurations, including "
        "tid 0 and empty lists. No facade method rebinds or updates (in-place `+=` on an alias included) the filter_* "
        "objects the predicates read, so the statement also holds after any history of other requests. A stage written as a "
        "generator method yields the loop element at most once per iteration (two yields whose path conditions can hold "
        "together list an element twice). The filter attributes are not the default objects of constructor parameters (one list for every parser). CLI option wiring is checked as well.",
        "Trusts filter()/generator-expression semantics; predicates outside the small recognised language give exit 2.",
        "DESIGN.md §4 C12"),
    "C13": (
        "effect enumeration over all facade methods (aliases resolved) + pipeline recovery of traces() with pairing of helper "
        "classes and post-filters by normalised condition",
        "Decides the configuration-immutability clause in full (no method other than __init__ rebinds or mutates any "
        "self.filter_* attribute, so repeating a request cannot see different settings) and the pairing clause: each class "
        "the tool adds on its own is consumed but post-filtered under exactly the same condition, which contains 'not "
        "requested by the caller'; helper conditions equal the specification; process filter predicate equals the "
        "specification; request isolation (the shared tables are cleared unconditionally when a dump's thread map is installed) "
        "is taken over from C02/R4, the reviewed set of writers of the thread tables from C14/R4, that no decoder counts records of other classes from C08/R6; none of the pipeline classes keeps a mutable default argument. Textual equality with an unfiltered run is not decided.",
        "Trusts filter() semantics and the interpreter; equality of filtered and unfiltered trace text is argued from "
        "C04/C05-style locality, not checked.",
        "DESIGN.md §4 C13"),
    "C14": (
        "template flattening of the line builders into column alternatives; identity/sharing analysis of the two tables "
        "(constructor arguments, stores without copy, no rebinding anywhere); sentinel analysis of _format_process; frozen "
        "who-may-write set",
        "Decides column independence for all 2^6 configurations at once (each column is an alternative on exactly one switch "
        "with an empty 'off' side, no other dependence on switches, fixed order), the one-pair-of-tables clause, the "
        "unknown-thread clause and the writer set (including that a log record's declaration is stored in the iteration that "
        "yields it, and that a declaration waits for nothing but the pending record it names). That colouring leaves the text unchanged is not decided.",
        "The reviewed writer set is frozen from the reviewed tree with one line of reason per writer.",
        "DESIGN.md §4 C14"),
    "C15": (
        "effect and term matching on insert_image / feed_generator (same-index inserts, bisect form, guard, offset) and on the "
        "sampler decoder's cs_frames term",
        "Decides structural clauses: only insert_image writes the parallel lists, at one bisect index, after the duplicate "
        "test; lookup is bisect_right - 1 guarded by >= 0 with identity and base read at the same index; frames are the chained "
        "four words of all nested stack-data records truncated to the first header's count, gated on the flag and the header; "
        "one callstack per qualifying trace stamped from the START record; no decoder of another record kind returns a subclass of a class feed_generator tests with isinstance; the constructor keeps the image tables it is given as they are. Order independence follows from sortedness "
        "(argued).",
        "bisect semantics trusted.",
        "DESIGN.md §4 C15"),
    "C16": (
        "symbolic unfolding of the constructor's keyword dictionary into (field, value, condition) stores; construct layout "
        "evaluated to bit positions; enum-kind check of byte registries",
        "Decided for the top-level record and the trace-id layout: all 41 stores are enumerated with their guards, so the "
        "claim 'any subset of the 31 optional keys constructs' follows from (every keyword is a declared field) + (mandatory "
        "fields unconditional, optional fields defaulted) + (guard key == consumed key, each key once) - 2^31 combinations "
        "decided by 41 facts; every optional field's default is shown to be an empty value (absence stays visible). The firehose "
        "bit packing is compared with the construct declaration evaluated to bit ranges; the timeval conversion is brought to a linear "
        "form over (sec, usec) that must be epoch + sec + usec/10**6 as an aware UTC datetime. The type / flag registries are subscripted only under a membership test or a KeyError handler (R13). A decoded field is stored when its raw key is present, not when the raw value is truthy (R12); that each decoded record is yielded is taken over from C03/R6.",
        "Nested decomposed-message shapes are not decided at value level. The raw-key table is the "
        "one confirmed on the reviewed tree; the firehose bit layout is transcribed from libdispatch's tracepoint header.",
        "DESIGN.md §4 C16"),
    "C18": (
        "forbidden-source scan over resolved names (imports and aliases resolved per module) + reference-graph reachability "
        "from every registry decoder; findings keyed by (decoder, host table)",
        "Decided as a who-may-use rule: every expression in the decoding/formatting modules that resolves to the running "
        "interpreter's errno/signal/socket/platform tables is enumerated and attributed to the registry decoders that can reach "
        "it (through helpers, result classes, their methods, module constants). The existing dependences (347 decoders on "
        "errno.errorcode, 3 on the socket enums, 2 on SOL_SOCKET, 1 on signal.Signals) are genuine defects recorded as known "
        "findings (repair needs Darwin tables); a decoder that newly depends on a host table, or a new table, is a violation, "
        "while moving a use into a helper changes nothing. The host's time zone is treated the same way: every astimezone / "
        "fromtimestamp call must be given a zone that is not None on any path (a setting that starts as None only under an "
        "established not-None guard). The ctypes types whose width is the host's data model (c_long, c_size_t, ...) and struct formats in native mode count as host sources. Quantifies over all hosts because it removes the dependence rather "
        "than sampling hosts.",
        "Dynamic access (getattr/importlib) is not modelled - the package uses none; an embedded fixture must be flagged on "
        "every run.",
        "DESIGN.md §4 C18"),
    "C19": (
        "symbolic normal form of the table parser (comprehension / map-lambda / loop forms) + call-site guard and flow analysis "
        "of the default table + return-term matching of the dispatcher",
        "Decided: the text parser is shown to be 'for each element of splitlines(): table[int(line.split()[0],16)] = "
        "line.split()[1]' with an unconditional store (dict(pairs) included, provided nothing reorders the pairs), which by dict semantics is exactly the pairs with last occurrence "
        "winning for all texts; every use of the bundled table is shown to be guarded by 'caller's table is None' and the "
        "chosen table is what reaches the consumers; absent ids are shown to render as bare hex and to yield no trace; the "
        "decoder is shown to be selected by the table's name for the id, and nested lookup records to be recognised through "
        "the supplied table's name for their id (taken over from C08/R1).",
        "Trusts str.split/splitlines/int semantics and dict semantics.",
        "DESIGN.md §4 C19"),
    "C17": (
        "registry/code-table resolution (dict literals through functools.partial vs trace.codes) + symbolic template "
        "comparison of twin renderings",
        "Decided in full: all registry keys x all code-table lines are enumerated (finite, exhaustive); for each "
        "X_nocancel twin the handler is interpreted symbolically with no_cancel bound both ways and the two rendered "
        "templates are compared for every alternative, which covers all START/END tuples at once. No code outside a family's "
        "module writes into that family's registry (a merge that accumulates into the first family's table makes it claim "
        "every other family's names).",
        "Trusts dict-literal/`update` semantics (last wins), functools.partial, and the analyser's symbolic "
        "interpretation of handler bodies and __str__ methods.",
        "DESIGN.md §4 C17"),
}

CLAIMS["C20"] = (
    "term matching on the symbolic value of the objects returned by the three composite decoders (gates, selections by "
    "table name, sort key, END-word provenance)",
    "Decides structural clauses for all windows: page-fault result/type from END words 2/3, pid/protection from the decode of "
    "the first real-fault record among the inner records (the decoder of those records reads the first record it is handed), taken only when present and decodable and rendered whenever they are not None (a truth-value test that hides pid 0 is reported) - the condition that picks "
    "those records is evaluated for every id of the bundled code table: every RealFaultAddress* code with a registered decoder "
    "is picked and no code outside that group; launch image list = sorted by "
    "load address over every nested image-map and shared-cache-map record; sampler thread info / user stack present exactly "
    "when the flag is set and the record exists, None otherwise. That parse_event_list decodes the nested list whatever its later records are is taken over from C04/K9, that the user stack is made of the words of the nested stack records from C15/R3.",
    "Behaviour under unrelated interleaved records beyond the selection predicates is not decided; the real-fault selection "
    "is by id (judged against the bundled table, not a supplied one).",
    "DESIGN.md §4 C20")

NOT_YET = "check under construction in this session (design in DESIGN.md §4); not claimed until the rule module exists"


def build() -> dict:
    checks = []
    na = []
    for i in range(1, 21):
        pid = f"C{i:02d}"
        have = os.path.isfile(os.path.join(HERE, "rules", f"{pid.lower()}.py"))
        if have and pid in CLAIMS:
            tech, text, note, ref = CLAIMS[pid]
            checks.append({
                "property_id": pid,
                "quick_cmd": f"{PY} -m vstatic check {pid} --tier quick",
                "thorough_cmd": f"{PY} -m vstatic check {pid} --tier thorough",
                "evidence_file": f"/verif/evidence/{pid}.json",
                "replay_cmd_template": f"{PY} -m vstatic replay {{path}}",
                "engine": "vstatic",
                "level_claimed": {"category": "other", "text": text, "design_ref": ref},
                "level_note": note,
                "technique": "static analysis: " + tech,
            })
        else:
            na.append({"property_id": pid, "reason": NA_REASONS.get(pid, NOT_YET)})
    return {
        "version": 1,
        "setup_cmd": f"{PY} -m vstatic selfcheck",
        "hooks": {
            "guard": "PYKDEBUGPARSER_VERIF",
            "enable": "no hooks: the checks read /repo's source with ast and never import or run it; the guard name is "
                      "reserved and unused",
            "baseline_off_cmd": "cd /repo && /venv/bin/python -m pytest -ra -q -p no:cacheprovider --timeout=900 "
                                "--continue-on-collection-errors",
            "source_commits": [],
            "add_only": True,
        },
        "engines": [{
            "name": "vstatic",
            "path": "/verif/vstatic",
            "serves_properties": [c["property_id"] for c in checks],
            "kind_free_text": "repository-specific static analyser (pure stdlib, ast only): repository model, constant "
                              "evaluation, registry resolution, symbolic abstract interpreter with path conditions / "
                              "effects / partial operations, template renderer, construct-layout evaluator",
        }],
        "checks": checks,
        "notes": "All checks are static: they parse /repo's current working tree on every run and never execute it. "
                 "Exit 0 = holds (known findings printed as KNOWN-FINDING lines), 1 = VIOLATION, 2 = ANALYSIS-ERROR "
                 "(analyser could not decide; never a verdict). Known findings: /verif/known_findings.json.",
        "not_applicable": na,
    }


NA_REASONS: dict = {}


def main() -> None:
    m = build()
    with open(os.path.join(VERIF, "MANIFEST.json"), "w") as fd:
        json.dump(m, fd, indent=1)
        fd.write("\n")
    print(f"MANIFEST.json: {len(m['checks'])} checks, {len(m['not_applicable'])} not claimed")


if __name__ == "__main__":
    main()
