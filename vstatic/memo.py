"""Module-level memo tables: `D = {}` filled by ONE function as `D[K] = V` and read back with the same key.

Such a table is invisible (the function behaves as if it computed V every time) exactly when V is a function of K: every input
V depends on is contained in K in a way that lets it be recovered (the input itself, an injective packing of it, or - bit by
bit - the part of it that V looks at).  `judge` decides that from the symbolic terms of the function; the interpreter then
evaluates the function as if every lookup missed, and its stores into the table are recorded as `memo-...` effects which the
rules do not take for state.  A table that is not proved to be such a memo keeps the ordinary reading (shared mutable state)."""
from __future__ import annotations

import ast
from typing import Optional

from . import sym
from .sym import T, const

FULL = (1 << 64) - 1


def _ci(t: T):
    return t.a[0] if t.op == "const" and isinstance(t.a[0], int) and not isinstance(t.a[0], bool) else None


def _is_input(t: T) -> bool:
    """Terms taken as the inputs a value is computed from: parameters, their attributes / constant items, and the items of a
    struct.unpack of such."""
    if t.op == "param":
        return True
    if t.op == "attr" and isinstance(t.a[0], T):
        return _is_input(t.a[0])
    if t.op == "sub" and t.a[1].op == "const":
        b = t.a[0]
        if b.op == "call" and b.a[0].op == "global" and b.a[0].a[0] in ("struct.unpack", "struct.unpack_from"):
            return True
        return _is_input(b)
    return False


def _inputs(t: T):
    """Maximal input sub-terms of t."""
    out, stack = [], [t]
    while stack:
        x = stack.pop()
        if x.op == "call" and x.a[0].op == "attr" and isinstance(x.a[0].a[0], T):
            # a method call reads its receiver and its arguments (the bound method is not an input of its own)
            stack.append(x.a[0].a[0])
            stack.extend(x.a[1])
            stack.extend(v for _, v in x.a[2])
            continue
        if _is_input(x):
            out.append(x)
            continue
        stack.extend(sym.children(x))
    return out


def _reach(t: T, base: T):
    """mask such that t depends on base only through base & mask, for chains of `& c`, `>> k` over base; None otherwise."""
    if t == base:
        return FULL, 0
    if t.op == "bin" and t.a[0] == ">>" and _ci(t.a[2]) is not None and _ci(t.a[2]) >= 0:
        r = _reach(t.a[1], base)
        if r is not None:
            m, sh = r
            k = _ci(t.a[2])
            return m & ~((1 << min(sh + k, 64)) - 1) & FULL, sh + k
    if t.op == "bin" and t.a[0] == "&":
        for x, c in ((t.a[1], t.a[2]), (t.a[2], t.a[1])):
            if _ci(c) is not None and _ci(c) >= 0:
                r = _reach(x, base)
                if r is not None:
                    m, sh = r
                    return m & ((_ci(c) << sh) & FULL), sh
    return None


def _fixed_len(t: T) -> bool:
    if t.op == "const" and isinstance(t.a[0], (bytes, str)):
        return True
    return t.op == "call" and t.a[0].op == "attr" and t.a[0].a[1] == "to_bytes" and t.a[1] and _ci(t.a[1][0]) is not None


def _keeps(key: T, a: T):
    """None when the key does not let input `a` be recovered; FULL when it does in full; a bit mask when only `a & mask`."""
    if key == a:
        return FULL
    r = _reach(key, a)
    if r is not None and r[1] == 0:
        return r[0]
    if key.op == "tuple":
        best = None
        for x in key.a[0]:
            k = _keeps(x, a)
            if k is not None:
                best = k if best is None else best | k
        return best
    if key.op == "call" and not key.a[2]:
        f = key.a[0]
        if f.op == "builtin" and f.a[0] in ("bytes", "str", "hex", "tuple", "repr", "int") and len(key.a[1]) == 1 and f.a[0] != "int":
            return _keeps(key.a[1][0], a)
        if f.op == "attr" and f.a[1] == "to_bytes" and key.a[1] and _ci(key.a[1][0]) is not None:
            k = _keeps(f.a[0], a)
            return None if k is None else k & ((1 << (8 * _ci(key.a[1][0]))) - 1 if _ci(key.a[1][0]) < 8 else FULL)
    if key.op == "bin" and key.a[0] == "+":
        parts, stack = [], [key]
        while stack:
            x = stack.pop()
            if x.op == "bin" and x.a[0] == "+":
                stack.extend((x.a[2], x.a[1]))
            else:
                parts.append(x)
        if sum(1 for p in parts if not _fixed_len(p)) <= 1:       # pieces of known length can be cut off again: injective
            best = None
            for x in parts:
                k = _keeps(x, a)
                if k is not None:
                    best = k if best is None else best | k
            return best
    return None


def _uses_only(v: T, a: T, mask: int) -> bool:
    """Every occurrence of input a inside v sits under a shift/mask chain that looks at bits of `mask` only."""
    if mask == FULL:
        return True

    def go(t) -> bool:
        r = _reach(t, a)
        if r is not None:
            return r[0] & ~mask == 0
        if t == a:
            return False
        return all(go(x) for x in sym.children(t))
    return go(v)


def value_is_function_of_key(key: T, value: T) -> bool:
    for a in set(_inputs(value)):
        k = _keeps(key, a)
        if k is None or not _uses_only(value, a, k):
            return False
    return not any(x.op in ("unknown", "global") and x.op == "unknown" for x in sym.walk(value))


def judge(interp, gname: str) -> bool:
    """Is the module-level object `gname` a memo table in the sense above?  (Called with the table still read as plain state.)"""
    repo = interp.repo
    found = repo.lookup(gname)
    if not found or found[0] != "const":
        return False
    node = found[2]
    if not ((isinstance(node, ast.Dict) and not node.keys) or
            (isinstance(node, ast.Call) and isinstance(node.func, ast.Name) and node.func.id == "dict" and not node.args and not node.keywords)):
        return False
    mod = found[1]
    local = gname.rsplit(".", 1)[1]
    G = T("global", (gname,))
    users = []
    for fn in ast.walk(mod.tree):
        if isinstance(fn, (ast.FunctionDef, ast.AsyncFunctionDef)) and any(isinstance(x, ast.Name) and x.id == local for x in ast.walk(fn)):
            users.append(fn)
    if len(users) != 1 or users[0].name not in mod.functions or mod.functions[users[0].name] is not users[0]:
        return False                    # one module-level function owns the table (methods / several users: not followed)
    for other in repo.modules.values():
        if other is not mod and any(v == gname for v in other.imports.values()):
            return False                # handed out to another module
    fn = users[0]
    rec = interp.run(mod, fn)
    if rec.notes:
        return False
    stores = [e for e in rec.effects if e.kind == "sub-store" and (e.base == G or e.path == G)]
    muts = [e for e in rec.effects if e.kind in ("mut-call", "del-sub", "attr-store") and sym.root_of(e.path if e.path is not None else e.base) == G]
    if len(stores) != 1 or any(e.kind != "mut-call" or e.key not in ("clear", "pop", "popitem") for e in muts):
        return False
    key, value = stores[0].key, stores[0].value
    if value is None or stores[0].loops:
        return False
    reads = [c for c in rec.calls if c.func == T("attr", (G, "get"))]
    read_keys = {c.args[0] for c in reads if c.args} | {p.key for p in rec.pops if p.kind == "sub" and p.base == G}
    for t in [r.value for r in rec.returns] + [c for r in rec.returns for c, _ in r.pc] + [c for e in rec.effects for c, _ in e.pc]:
        for x in sym.walk(t):
            if x.op == "cmp" and x.a[0] in ("in", "not in") and x.a[2] == G:
                read_keys.add(x.a[1])
    if read_keys != {key}:
        return False
    if not value_is_function_of_key(key, value):
        return False
    # the function hands back on a hit what it would compute on a miss: evaluate it both ways and compare
    interp._memo_mode[gname] = ("hit", key, value)
    try:
        hit = interp.run(mod, fn)
    finally:
        interp._memo_mode[gname] = ("miss",)
    miss = interp.run(mod, fn)
    del interp._memo_mode[gname]
    if hit.notes or miss.notes:
        return False
    return sym.canon(hit.return_term()) == sym.canon(miss.return_term())
