"""Repository model: every module of the analysed package parsed with ``ast``.

Nothing here imports the analysed code.  The model resolves, per module:

* imports (``import x``, ``import x as y``, ``from a import b as c``) to dotted
  names; names inside the package are resolved to the defining module,
* module level constants (simple ``NAME = <expr>`` assignments),
* functions, classes (bases, decorators, dataclass fields in order with their
  defaults, methods), enum classes (kind + ordered members with evaluated
  integer values).
"""
from __future__ import annotations

import ast
import os
from dataclasses import dataclass, field
from typing import Dict, List, Optional, Tuple

PACKAGE = "pykdebugparser"


class AnalysisError(Exception):
    """The analyser cannot do its job (vanished anchor, unsupported idiom)."""


@dataclass
class ClassInfo:
    name: str
    module: "ModuleInfo"
    node: ast.ClassDef
    bases: List[str]                      # resolved dotted names
    is_dataclass: bool
    fields: List[Tuple[str, Optional[ast.expr]]]   # (name, default expr or None)
    methods: Dict[str, ast.FunctionDef]
    enum_kind: Optional[str] = None       # Enum / IntEnum / Flag / IntFlag
    members: List[Tuple[str, object]] = field(default_factory=list)  # ordered (name, value)

    @property
    def qualname(self) -> str:
        return f"{self.module.name}.{self.name}"

    def field_names(self) -> List[str]:
        return [f for f, _ in self.fields]

    def member_dict(self) -> Dict[str, object]:
        return dict(self.members)


@dataclass
class ModuleInfo:
    name: str                             # dotted
    path: str
    source: str
    tree: ast.Module
    imports: Dict[str, str] = field(default_factory=dict)       # local name -> dotted target
    functions: Dict[str, ast.FunctionDef] = field(default_factory=dict)
    classes: Dict[str, ClassInfo] = field(default_factory=dict)
    constants: Dict[str, ast.expr] = field(default_factory=dict)
    const_lines: Dict[str, int] = field(default_factory=dict)

    def relpath(self, root: str) -> str:
        return os.path.relpath(self.path, root)


ENUM_BASES = {
    "enum.Enum": "Enum", "enum.IntEnum": "IntEnum", "enum.Flag": "Flag", "enum.IntFlag": "IntFlag",
}


class Repo:
    def __init__(self, root: str = "/repo"):
        self.root = os.path.abspath(root)
        self.pkg_dir = os.path.join(self.root, PACKAGE)
        if not os.path.isdir(self.pkg_dir):
            raise AnalysisError(f"package directory missing: {self.pkg_dir}")
        self.modules: Dict[str, ModuleInfo] = {}
        self._load()
        self._index()

    # ------------------------------------------------------------------ load
    def _load(self) -> None:
        for dirpath, dirnames, filenames in os.walk(self.pkg_dir):
            dirnames[:] = sorted(d for d in dirnames if d != "__pycache__")
            for fn in sorted(filenames):
                if not fn.endswith(".py"):
                    continue
                path = os.path.join(dirpath, fn)
                rel = os.path.relpath(path, self.root)[:-3]
                parts = rel.split(os.sep)
                if parts[-1] == "__init__":
                    parts = parts[:-1]
                name = ".".join(parts)
                with open(path, "r", encoding="utf-8") as fd:
                    src = fd.read()
                try:
                    tree = ast.parse(src, filename=path)
                except SyntaxError as e:  # the tree under analysis must compile
                    raise AnalysisError(f"cannot parse {path}: {e}")
                self.modules[name] = ModuleInfo(name, path, src, tree)

    def _index(self) -> None:
        for mod in self.modules.values():
            self._index_module(mod)
        for mod in self.modules.values():
            for cls in mod.classes.values():
                self._index_enum(cls)
        # methods inherited from package base classes (a mixin, a base in another module); a method is interpreted in the
        # module that defines it (fn_home)
        self.fn_home: Dict[int, ModuleInfo] = {}
        for mod in self.modules.values():
            for fn in mod.functions.values():
                self.fn_home[id(fn)] = mod
            for cls in mod.classes.values():
                for st in cls.node.body:
                    if isinstance(st, ast.FunctionDef):
                        self.fn_home[id(st)] = mod
        done = set()

        def inherit(cls: ClassInfo, depth=0):
            if cls.qualname in done or depth > 6:
                return
            done.add(cls.qualname)
            for b in cls.bases:
                found = self.lookup(b) if b.startswith(PACKAGE + ".") else None
                if found and found[0] == "class":
                    inherit(found[2], depth + 1)
                    for mname, mnode in found[2].methods.items():
                        cls.methods.setdefault(mname, mnode)
        for mod in self.modules.values():
            for cls in mod.classes.values():
                inherit(cls)

    def _index_module(self, mod: ModuleInfo) -> None:
        for node in mod.tree.body:
            if isinstance(node, ast.Import):
                for al in node.names:
                    local = al.asname or al.name.split(".")[0]
                    mod.imports[local] = al.name if al.asname else al.name.split(".")[0]
            elif isinstance(node, ast.ImportFrom):
                base = node.module or ""
                if node.level:
                    pkg_parts = mod.name.split(".")
                    # in a package's __init__ one dot is the package itself
                    drop = node.level - 1 if os.path.basename(mod.path) == "__init__.py" else node.level
                    pkg_parts = pkg_parts[: len(pkg_parts) - drop]
                    base = ".".join(pkg_parts + ([node.module] if node.module else []))
                for al in node.names:
                    mod.imports[al.asname or al.name] = f"{base}.{al.name}"
            elif isinstance(node, ast.FunctionDef):
                mod.functions[node.name] = node
            elif isinstance(node, ast.ClassDef):
                nt = self._namedtuple_class(mod, node)
                if nt is not None:
                    # class X(NamedTuple): a: int ...  is  X = namedtuple('X', ['a', ...]): one form for the analysis
                    mod.constants[node.name] = nt
                    mod.const_lines[node.name] = node.lineno
                else:
                    mod.classes[node.name] = self._class_info(mod, node)
            elif isinstance(node, ast.Assign) and len(node.targets) == 1 and isinstance(node.targets[0], ast.Name):
                value = node.value
                if isinstance(value, ast.Call) and self.dotted(mod, value.func) == "typing.NamedTuple" and value.args:
                    value = self._namedtuple_call(value) or value
                mod.constants[node.targets[0].id] = value
                mod.const_lines[node.targets[0].id] = node.lineno
            elif isinstance(node, ast.AnnAssign) and isinstance(node.target, ast.Name) and node.value is not None:
                mod.constants[node.target.id] = node.value
                mod.const_lines[node.target.id] = node.lineno

    @staticmethod
    def _synthetic_namedtuple(name, fields, defaults, at) -> ast.expr:
        call = ast.Call(func=ast.Attribute(value=ast.Name(id="collections", ctx=ast.Load()), attr="namedtuple", ctx=ast.Load()),
                        args=[name, ast.List(elts=[ast.Constant(f) for f in fields], ctx=ast.Load())],
                        keywords=[ast.keyword(arg="defaults", value=ast.Tuple(elts=list(defaults), ctx=ast.Load()))]
                        if defaults else [])
        ast.copy_location(call, at)
        ast.fix_missing_locations(call)
        return call

    def _namedtuple_class(self, mod: ModuleInfo, node: ast.ClassDef) -> Optional[ast.expr]:
        """The collections.namedtuple(...) call a method-less `class X(typing.NamedTuple)` stands for, else None."""
        if len(node.bases) != 1 or self.dotted(mod, node.bases[0]) != "typing.NamedTuple" or node.decorator_list:
            return None
        fields, defaults = [], []
        for st in node.body:
            if isinstance(st, ast.AnnAssign) and isinstance(st.target, ast.Name):
                fields.append(st.target.id)
                if st.value is not None:
                    defaults.append(st.value)
                elif defaults:
                    return None
            elif isinstance(st, ast.Expr) and isinstance(st.value, ast.Constant) and isinstance(st.value.value, str):
                continue            # docstring
            elif isinstance(st, ast.Pass):
                continue
            else:
                return None         # methods, class attributes: a class of its own
        return self._synthetic_namedtuple(ast.Constant(node.name), fields, defaults, node)

    def _namedtuple_call(self, call: ast.Call) -> Optional[ast.expr]:
        """typing.NamedTuple('X', [('a', int), ...]) / NamedTuple('X', a=int) as the collections.namedtuple call."""
        fields = []
        if len(call.args) == 2 and isinstance(call.args[1], (ast.List, ast.Tuple)) and not call.keywords:
            for e in call.args[1].elts:
                if not (isinstance(e, ast.Tuple) and len(e.elts) == 2 and isinstance(e.elts[0], ast.Constant)
                        and isinstance(e.elts[0].value, str)):
                    return None
                fields.append(e.elts[0].value)
        elif len(call.args) == 1 and call.keywords and all(k.arg for k in call.keywords):
            fields = [k.arg for k in call.keywords]
        else:
            return None
        return self._synthetic_namedtuple(call.args[0], fields, [], call)

    def _class_info(self, mod: ModuleInfo, node: ast.ClassDef) -> ClassInfo:
        bases = [self.dotted(mod, b) or ast.unparse(b) for b in node.bases]
        is_dc = False
        for d in node.decorator_list:
            target = d.func if isinstance(d, ast.Call) else d
            dn = self.dotted(mod, target)
            if dn in ("dataclasses.dataclass", "dataclass"):
                is_dc = True
        fields: List[Tuple[str, Optional[ast.expr]]] = []
        methods: Dict[str, ast.FunctionDef] = {}
        for st in node.body:
            if isinstance(st, ast.AnnAssign) and isinstance(st.target, ast.Name):
                ann = self.dotted(mod, st.annotation.value if isinstance(st.annotation, ast.Subscript) else st.annotation)
                if ann in ("typing.ClassVar", "ClassVar"):
                    continue                      # a class attribute, not a dataclass field
                dflt = st.value
                if isinstance(dflt, ast.Call) and self.dotted(mod, dflt.func) in ("dataclasses.field", "field"):
                    kw = {k.arg: k.value for k in dflt.keywords}
                    if "default" in kw:
                        dflt = kw["default"]
                    elif "default_factory" in kw:
                        dflt = ast.copy_location(ast.Call(func=kw["default_factory"], args=[], keywords=[]), dflt)
                        ast.fix_missing_locations(dflt)
                    else:
                        dflt = None
                fields.append((st.target.id, dflt))
            elif isinstance(st, ast.FunctionDef):
                methods[st.name] = st
        if not is_dc and not fields and "__init__" not in methods and not node.decorator_list:
            # an undecorated subclass of a dataclass of the same module that declares no fields of its own (only class
            # attributes / methods) is constructed by the inherited __init__: the same fields
            for b in node.bases:
                base = mod.classes.get(b.id) if isinstance(b, ast.Name) else None
                if base is not None and base.is_dataclass and not base.enum_kind:
                    is_dc = True
        if is_dc:
            # fields (and methods) of dataclass bases defined earlier in the same module come first
            inherited: List[Tuple[str, Optional[ast.expr]]] = []
            for b in node.bases:
                base = mod.classes.get(b.id) if isinstance(b, ast.Name) else None
                if base is not None and base.is_dataclass:
                    own = {f for f, _ in fields}
                    inherited.extend((f, d) for f, d in base.fields if f not in own and f not in {x for x, _ in inherited})
                    for mname, mnode in base.methods.items():
                        methods.setdefault(mname, mnode)
            fields = inherited + fields
        return ClassInfo(node.name, mod, node, bases, is_dc, fields, methods)

    def _index_enum(self, cls: ClassInfo) -> None:
        kind = None
        for b in cls.bases:
            if b in ENUM_BASES:
                kind = ENUM_BASES[b]
        if kind is None:
            return
        cls.enum_kind = kind
        from . import consteval
        for st in cls.node.body:
            if isinstance(st, ast.Assign) and len(st.targets) == 1 and isinstance(st.targets[0], ast.Name):
                name = st.targets[0].id
                if name.startswith("__"):
                    continue
                val = consteval.evaluate(self, cls.module, st.value, local_names=dict(cls.members))
                if isinstance(st.value, ast.Call) and not st.value.args and not st.value.keywords and \
                        (self.dotted(cls.module, st.value.func) or "") in ("enum.auto", "auto"):
                    # enum.auto(): the next power of two above the highest member of a Flag, last value + 1 otherwise
                    ints = [v for _, v in cls.members if isinstance(v, int) and not isinstance(v, bool)]
                    if kind in ("Flag", "IntFlag"):
                        val = 1 << (max(ints).bit_length()) if ints and max(ints) > 0 else 1
                    else:
                        val = (ints[-1] + 1) if ints else 1
                cls.members.append((name, val))

    # --------------------------------------------------------------- resolve
    def dotted(self, mod: ModuleInfo, node: ast.AST) -> Optional[str]:
        """Resolve a Name/Attribute chain to a dotted name through the module's imports."""
        parts: List[str] = []
        cur = node
        while isinstance(cur, ast.Attribute):
            parts.append(cur.attr)
            cur = cur.value
        if not isinstance(cur, ast.Name):
            return None
        head = cur.id
        if head in mod.imports:
            head = mod.imports[head]
        elif head in mod.classes or head in mod.functions or head in mod.constants:
            head = f"{mod.name}.{head}"
        parts.append(head)
        return ".".join(reversed(parts))

    def lookup(self, dotted: str):
        """Find a definition by dotted name inside the package.

        Returns (kind, module, object) with kind in func/class/const, or None.
        Follows re-exports through ``from x import y``.
        """
        seen = set()
        while dotted not in seen:
            seen.add(dotted)
            modname, _, attr = dotted.rpartition(".")
            mod = self.modules.get(modname)
            if mod is None:
                return None
            if attr in mod.functions:
                return ("func", mod, mod.functions[attr])
            if attr in mod.classes:
                return ("class", mod, mod.classes[attr])
            if attr in mod.constants:
                return ("const", mod, mod.constants[attr])
            if attr in mod.imports:
                dotted = mod.imports[attr]
                continue
            return None
        return None

    def module(self, short: str) -> ModuleInfo:
        name = f"{PACKAGE}.{short}"
        if name not in self.modules and short in self.modules:
            name = short
        if name not in self.modules:
            raise AnalysisError(f"anchor module vanished: {name}")
        return self.modules[name]

    def _through_reexports(self, mod: ModuleInfo, name: str, kind: str):
        """A name a module re-exports (`from ._part import name` in a package __init__) is found where it is defined."""
        if name in mod.imports:
            found = self.lookup(f"{mod.name}.{name}")
            if found and found[0] == kind:
                return found
        return None

    def function(self, short_mod: str, fname: str) -> ast.FunctionDef:
        mod = self.module(short_mod)
        if fname not in mod.functions:
            found = self._through_reexports(mod, fname, "func")
            if found:
                return found[2]
            raise AnalysisError(f"anchor function vanished: {mod.name}.{fname}")
        return mod.functions[fname]

    def home(self, short_mod: str, name: str) -> ModuleInfo:
        """The module in which a name reachable as <short_mod>.<name> is defined."""
        mod = self.module(short_mod)
        if name in mod.functions or name in mod.classes or name in mod.constants:
            return mod
        found = self.lookup(f"{mod.name}.{name}")
        return found[1] if found else mod

    def cls(self, short_mod: str, cname: str) -> ClassInfo:
        mod = self.module(short_mod)
        if cname not in mod.classes:
            found = self._through_reexports(mod, cname, "class")
            if found:
                return found[2]
            raise AnalysisError(f"anchor class vanished: {mod.name}.{cname}")
        return mod.classes[cname]

    def method(self, short_mod: str, cname: str, mname: str) -> ast.FunctionDef:
        c = self.cls(short_mod, cname)
        if mname not in c.methods:
            raise AnalysisError(f"anchor method vanished: {c.qualname}.{mname}")
        return c.methods[mname]

    def constant(self, short_mod: str, cname: str) -> ast.expr:
        mod = self.module(short_mod)
        if cname not in mod.constants:
            found = self._through_reexports(mod, cname, "const")
            if found:
                return found[2]
            raise AnalysisError(f"anchor constant vanished: {mod.name}.{cname}")
        return mod.constants[cname]

    def all_classes(self):
        for mod in self.modules.values():
            for c in mod.classes.values():
                yield c

    def enum_classes(self):
        return [c for c in self.all_classes() if c.enum_kind]

    def units(self) -> Dict[str, int]:
        nfun = sum(len(m.functions) for m in self.modules.values())
        ncls = sum(len(m.classes) for m in self.modules.values())
        nmeth = sum(len(c.methods) for c in self.all_classes())
        nlines = sum(m.source.count("\n") + 1 for m in self.modules.values())
        return {"modules": len(self.modules), "functions": nfun, "classes": ncls, "methods": nmeth, "lines": nlines}

    # ----------------------------------------------------------- trace.codes
    def trace_codes_lines(self) -> List[Tuple[int, str, int]]:
        """(id, name, line number) for every line of the bundled code table.

        Tokenised the way the repository does it (whitespace split, first token
        base 16, second token the name); read as data, nothing executed.
        """
        path = os.path.join(self.pkg_dir, "trace.codes")
        if not os.path.isfile(path):
            raise AnalysisError("anchor data file vanished: trace.codes")
        out = []
        with open(path, "r") as fd:
            for ln, line in enumerate(fd.read().splitlines(), 1):
                toks = line.split()
                if len(toks) < 2:
                    raise AnalysisError(f"trace.codes:{ln}: fewer than two tokens")
                out.append((int(toks[0], 16), toks[1], ln))
        return out
