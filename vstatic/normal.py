"""Normal forms for symbolic terms.

The same value can be written in many ways; the rules compare terms against one canonical spelling.  Every rewrite here
is an equivalence of Python values (given the stated side conditions), so applying them can neither hide a difference in
behaviour nor create one:

  none_last     ite(c, None, X)                       ->  ite(not c, X, None)
  fuse_comps    [f(y) for y in [x for x in S if c(x)] if d(y)]
                                                       ->  [f(x) for x in S if c(x) if d(x)]
  accum_to_comp acc = []; for x in S: acc.extend(F(x)) ->  list(chain.from_iterable([F(x) for x in S]))
                acc = []; for x in S: acc.append(F(x)) ->  [F(x) for x in S]
                acc = acc + F(x) / acc += F(x)            (same as extend)
                only when the loop has no break/continue/return and the update is unconditional
  sorted_form   L.sort(**kw) on a fresh local list      ->  sorted(L, **kw)
"""
from __future__ import annotations

from typing import Callable, Dict, Optional

from . import sym
from .sym import T, const

NONE = const(None)
_FLIP = {"==": "!=", "!=": "==", "is": "is not", "is not": "is", "in": "not in", "not in": "in",
         "<": ">=", ">=": "<", ">": "<=", "<=": ">"}


def rewrite(t, fn: Callable[[T], T]):
    """Bottom-up rewriting of every sub-term (shared sub-terms are rewritten once)."""
    memo: Dict[int, object] = {}

    def go(x):
        if isinstance(x, T):
            k = id(x)
            if k in memo:
                return memo[k]
            na = go(x.a)
            r = x if na is x.a else T(x.op, na)
            r2 = fn(r)
            memo[k] = r2
            return r2
        if isinstance(x, tuple):
            new = tuple(go(e) for e in x)
            if all(n is o for n, o in zip(new, x)):
                return x
            return new
        return x

    return go(t)


def neg(c: T) -> T:
    if c.op == "not":
        return c.a[0]
    if c.op == "cmp" and c.a[0] in _FLIP and c.a[0] not in ("<", ">", "<=", ">="):
        return T("cmp", (_FLIP[c.a[0]], c.a[1], c.a[2]))
    return T("not", (c,))


def _none_last(t: T) -> T:
    if t.op == "ite" and t.a[1] == NONE and t.a[2] != NONE:
        return T("ite", (neg(t.a[0]), t.a[2], NONE))
    return t


def none_last(t: T) -> T:
    return rewrite(t, _none_last)


def _fuse(t: T) -> T:
    if t.op != "comp" or len(t.a[2]) != 1:
        return t
    kind, elt, ((b, it, conds),) = t.a
    if it.op == "comp" and it.a[0] in ("list", "gen") and len(it.a[2]) == 1:
        b2, s2, c2 = it.a[2][0]
        if it.a[1] == b2:
            m = {b: b2}
            return T("comp", (kind, sym.subst(elt, m), ((b2, s2, tuple(c2) + tuple(sym.subst(c, m) for c in conds)),)))
        if it.a[1].op == "new" and kind in ("list", "gen"):
            # [g(y) for y in [Obj(f=F(x)) for x in S if c(x)]]  ->  [g(Obj(f=F(x))) for x in S if c(x)], with field reads of the
            # freshly built object replaced by the field values (y.f -> F(x))
            m = {b: it.a[1]}
            proj = lambda z: rewrite(sym.subst(z, m), _attr_of_new)
            return T("comp", (kind, proj(elt), ((b2, s2, tuple(c2) + tuple(proj(c) for c in conds)),)))
    return t


def _attr_of_new(t: T) -> T:
    if t.op == "attr" and t.a[0].op == "new":
        for k, v in t.a[0].a[1]:
            if k == t.a[1]:
                return v
    return t


def _flatten_comp(t: T) -> T:
    """[y for xs in S for y in xs]  is  list(chain.from_iterable(S))"""
    if t.op == "comp" and t.a[0] in ("list", "gen") and len(t.a[2]) == 2:
        (e1, s1, c1), (e2, s2, c2) = t.a[2]
        if not c1 and not c2 and s2 == e1 and t.a[1] == e2:
            flat = T("call", (CHAIN, (s1,), ()))
            return T("call", (LIST, (flat,), ())) if t.a[0] == "list" else flat
    return t


def fuse_comps(t: T) -> T:
    return rewrite(rewrite(t, _flatten_comp), _fuse)


CHAIN = T("global", ("itertools.chain.from_iterable",))
LIST = T("builtin", ("list",))
SORTED = T("builtin", ("sorted",))


def _is_empty_list(t: T) -> bool:
    return t.op == "list" and t.a[0] == ()


def _accum(rec) -> Callable[[T], T]:
    def fn(t: T) -> T:
        if t.op != "widen" or not isinstance(t.a[1], int) or len(t.a[2]) != 2:
            return t
        name, lid, (init, step) = t.a
        lr = rec.loops.get(lid) if rec is not None else None
        if lr is None or lr.kind != "for" or lr.target is None or lr.iter is None:
            return t
        flag_like = step.op == "ite" and step.a[1] == const(True)
        # (an iteration cut short by `continue` is part of `step`: the value at the continue, under its condition)
        hard_exits = [e for e in lr.exits if e[0] != "continue"]
        if hard_exits and not flag_like:
            return t
        prev = T("widen", (name, lid, (init,)))
        # a monotone flag:  found = I; for x in S: if c(x): found = True [; break]   ==   I or any(c(x) for x in S)
        if step.op == "ite" and step.a[1] == const(True) and step.a[2] == prev and not sym.contains(step.a[0], prev) \
                and lr.kind == "for" and lr.target is not None and lr.iter is not None \
                and all(k == "break" and any(c == step.a[0] and p for c, p in pc) for k, pc, _, _ in lr.exits):
            anyc = T("call", (T("builtin", ("any",)), (T("comp", ("gen", step.a[0], ((rewrite(lr.target, fn), rewrite(lr.iter, fn), ()),))),), ()))
            return anyc if init == const(False) else T("bool", ("or", (init, anyc)))
        if hard_exits:
            return t
        # the update may sit under conditions:  if c(x): acc.append(F(x))   ->   [F(x) for x in S if c(x)]
        conds = ()
        core = step
        while core.op == "ite" and (core.a[2] == prev or core.a[1] == prev) and not sym.contains(core.a[0], prev):
            if core.a[2] == prev:
                conds, core = conds + (core.a[0],), core.a[1]
            else:
                conds, core = conds + (neg(core.a[0]),), core.a[2]
        # the iterated expression may itself be a loop-built list: bring it (and the element variable that embeds it) to
        # normal form too, as was done bottom-up for the occurrences inside the update
        it_n = rewrite(lr.iter, fn)
        tgt_n = rewrite(lr.target, fn)
        gens = ((tgt_n, it_n, conds),)
        if core.op == "mut" and core.a[0] == prev and core.a[1] == "__setitem__" and len(core.a[2]) == 2 \
                and init.op == "dict" and not init.a[0] and not any(sym.contains(v, prev) for v in core.a[2]):
            return T("comp", ("dict", T("tuple", (tuple(core.a[2]),)), gens))
        x = None
        how = None
        if core.op == "mut" and core.a[0] == prev and core.a[1] in ("extend", "append") and len(core.a[2]) == 1 and len(core.a) == 3:
            x, how = core.a[2][0], core.a[1]
        elif core.op == "bin" and core.a[0] == "+" and core.a[1] == prev:
            x, how = core.a[2], "extend"
        if x is None or sym.contains(x, prev):
            return t
        comp = T("comp", ("list", x, gens))
        out = comp if how == "append" else T("call", (LIST, (T("call", (CHAIN, (comp,), ())),), ()))
        if _is_empty_list(init):
            return out
        if init.op in ("list", "comp", "bin", "call", "mut"):
            return T("bin", ("+", init, out))          # the variable is used as a list: what it held before comes first
        return t
    return fn


def accum_to_comp(rec, t: T) -> T:
    return rewrite(t, _accum(rec))


def _sorted(t: T) -> T:
    if t.op == "mut" and t.a[1] == "sort" and t.a[2] == ():
        kw = t.a[3] if len(t.a) > 3 else ()
        return T("call", (SORTED, (t.a[0],), tuple(kw)))
    return t


def sorted_form(t: T) -> T:
    return rewrite(t, _sorted)


_CONSUMERS = {"list", "sorted", "tuple", "set", "frozenset", "any", "all", "sum", "min", "max"}
CHAIN_PLAIN = T("global", ("itertools.chain",))


def _as_list(x: T) -> T:
    if x.op == "comp" and x.a[0] == "gen":
        return T("comp", ("list",) + tuple(x.a[1:]))
    return x


def _consumed(t: T) -> T:
    """A generator expression handed directly to something that consumes it completely is the list of its items;
    itertools.chain(a, b) consumed that way is a + b."""
    if t.op != "call":
        return t
    f = t.a[0]
    whole = (f.op == "builtin" and f.a[0] in _CONSUMERS) or f == CHAIN or \
        (f.op == "attr" and f.a[1] == "join" and f.a[0].op == "const")
    if f == CHAIN_PLAIN and t.a[1] and not t.a[2]:
        parts = [_as_list(x) for x in t.a[1]]
        if all(p.op in ("comp", "list") for p in parts):
            acc = parts[0]
            for p_ in parts[1:]:
                acc = T("bin", ("+", acc, p_))
            return acc
        return t
    if whole and t.a[1]:
        first = _as_list(t.a[1][0])
        if f == LIST and len(t.a[1]) == 1 and not t.a[2] and first.op == "comp" and first.a[0] == "list":
            return first                    # list(<the items of a comprehension>) is the list comprehension
        if first is not t.a[1][0]:
            return T("call", (f, (first,) + tuple(t.a[1][1:]), t.a[2]))
    return t


def consumed_generators(t: T) -> T:
    return rewrite(t, _consumed)


def _gate_split(t: T) -> T:
    """ite(c1 and c2, X, None)  ->  ite(c1, ite(c2, X, None), None)"""
    if t.op == "ite" and t.a[2] == NONE and t.a[0].op == "bool" and t.a[0].a[0] == "and" and len(t.a[0].a[1]) >= 2:
        cs = t.a[0].a[1]
        inner = t.a[1]
        for c in reversed(cs):
            inner = T("ite", (c, inner, NONE))
        return inner
    return t


def _list_update(t: T) -> T:
    """A fresh list updated in place and then used as a value:  L.extend(M) -> L + M,  L.append(x) -> L + [x]."""
    if t.op == "mut" and len(t.a) == 3 and len(t.a[2]) == 1 and t.a[0].op in ("comp", "list", "bin", "call") \
            and (t.a[0].op != "comp" or t.a[0].a[0] == "list"):
        if t.a[1] == "extend" and t.a[2][0].op in ("comp", "list", "bin"):
            return T("bin", ("+", t.a[0], _as_list(t.a[2][0])))
        if t.a[1] == "append":
            return T("bin", ("+", t.a[0], T("list", ((t.a[2][0],),))))
    return t


def _is_none_test(c: T):
    """(operand, True) for `x is None`, (operand, False) for `x is not None`; else None."""
    if c.op == "cmp" and c.a[0] in ("is", "is not") and c.a[2] == NONE:
        return c.a[1], c.a[0] == "is"
    return None


def simplify(t: T, assume: Optional[dict] = None, depth: int = 0) -> T:
    """Context-aware simplification: inside the branch of a conditional its condition is known, so nested conditions and
    conditionals that repeat (or contradict) it collapse.  Also: `(a if c else None) is not None` becomes `c and a is not
    None`, a conditional used as a condition becomes and/or, attribute access distributes over a conditional object."""
    from .render import assume_lookup, with_assumption
    assume = assume or {}
    if depth > 60:
        return t

    def cond(c: T) -> T:
        tv = assume_lookup(assume, c)
        if tv is not None:
            return const(tv)
        if c.op == "not":
            i = cond(c.a[0])
            if i.op == "const":
                return const(not i.a[0])
            return i.a[0] if i.op == "not" else T("not", (i,))
        if c.op == "bool":
            items = [cond(x) for x in c.a[1]]
            unit = c.a[0] == "and"
            if any(i.op == "const" and bool(i.a[0]) != unit for i in items):
                return const(not unit)
            items = [i for i in items if i.op != "const"]
            if not items:
                return const(unit)
            return items[0] if len(items) == 1 else T("bool", (c.a[0], tuple(items)))
        nt = _is_none_test(c)
        if nt is not None and nt[0].op == "ite":
            x, is_none = nt
            a_ = cond(T("cmp", (c.a[0], x.a[1], NONE)))
            b_ = cond(T("cmp", (c.a[0], x.a[2], NONE)))
            return cond(T("ite", (x.a[0], a_, b_)))
        if nt is not None and nt[0] == NONE:
            return const(nt[1])
        if nt is not None and nt[0].op == "bin" and nt[0].a[0] in ("+", "-", "*", "//", "%", "<<", ">>", "&", "|", "^"):
            return const(not nt[1])          # the result of arithmetic is never None
        if nt is not None and nt[0].op in ("new", "list", "tuple", "dict", "comp", "fstr", "const"):
            return const(not nt[1]) if nt[0] != NONE else const(nt[1])
        if c.op == "ite":
            k = cond(c.a[0])
            if k.op == "const":
                return cond(c.a[1] if k.a[0] else c.a[2])
            a_ = simplify(c.a[1], with_assumption(assume, k, True), depth + 1)
            b_ = simplify(c.a[2], with_assumption(assume, k, False), depth + 1)
            a_ = simplify_cond(a_, with_assumption(assume, k, True))
            b_ = simplify_cond(b_, with_assumption(assume, k, False))
            if a_.op == "const" and b_.op == "const":
                if bool(a_.a[0]) and not bool(b_.a[0]):
                    return k
                if not bool(a_.a[0]) and bool(b_.a[0]):
                    return neg(k)
                return const(bool(a_.a[0]))
            if b_.op == "const" and not b_.a[0]:
                return T("bool", ("and", (k, a_)))
            if a_.op == "const" and a_.a[0]:
                return T("bool", ("or", (k, b_)))
            if a_.op == "const" and not a_.a[0]:
                return T("bool", ("and", (neg(k), b_)))
            if b_.op == "const" and b_.a[0]:
                return T("bool", ("or", (neg(k), a_)))
            return T("ite", (k, a_, b_))
        return c

    if t.op == "ite":
        k = cond(t.a[0])
        if k.op == "const":
            return simplify(t.a[1] if k.a[0] else t.a[2], assume, depth + 1)
        a_ = simplify(t.a[1], with_assumption(assume, k, True), depth + 1)
        b_ = simplify(t.a[2], with_assumption(assume, k, False), depth + 1)
        return a_ if a_ == b_ else T("ite", (k, a_, b_))
    if t.op == "attr" and t.a[0].op == "ite":
        x = t.a[0]
        return simplify(T("ite", (x.a[0], T("attr", (x.a[1], t.a[1])), T("attr", (x.a[2], t.a[1])))), assume, depth + 1)
    if t.op in ("cmp", "bool", "not"):
        return cond(t)

    def go(x):
        if isinstance(x, T):
            return simplify(x, assume, depth + 1)
        if isinstance(x, tuple):
            new = tuple(go(e) for e in x)
            return x if all(n is o for n, o in zip(new, x)) else new
        return x
    if t.op in ("comp", "lambda", "widen"):
        return t                       # binders: their bodies have their own scopes
    na = go(t.a)
    return t if na is t.a else T(t.op, na)


def simplify_cond(c: T, assume: dict) -> T:
    if c.op in ("cmp", "bool", "not", "ite", "const"):
        return simplify(c, assume) if c.op != "const" else c
    return c


def _first_or_none(t: T) -> T:
    """`h = next((x for x in xs if p(x)), None)` ... `None if h is None else f(h)`  is  `f(S[0]) if S else None` with
    S = [x for x in xs if p(x)]: one form for "the first selected record, if there is one" (records are never None)."""
    if t.op != "ite":
        return t
    c, a, b = t.a
    pol = True
    while c.op == "not":
        c, pol = c.a[0], not pol
    if not (c.op == "cmp" and c.a[0] in ("is", "is not") and const(None) in (c.a[1], c.a[2])):
        return t
    nx = c.a[2] if c.a[1] == const(None) else c.a[1]
    if not (nx.op == "call" and nx.a[0] == T("builtin", ("next",)) and len(nx.a[1]) == 2 and nx.a[1][1] == const(None)
            and not nx.a[2]):
        return t
    src = nx.a[1][0]
    while src.op == "call" and src.a[0].op == "builtin" and src.a[0].a[0] in ("iter", "list") and len(src.a[1]) == 1:
        src = src.a[1][0]
    if src.op != "comp" or src.a[0] not in ("list", "gen"):
        return t
    sel = T("comp", ("list",) + tuple(src.a[1:]))
    absent_is_then = (c.a[0] == "is") == pol          # the `a` branch is taken when nothing was selected
    present_v, absent_v = (b, a) if absent_is_then else (a, b)
    first = T("sub", (sel, const(0)))
    return T("ite", (sel, sym.subst(present_v, {nx: first}), absent_v))


def normalise(rec, t: Optional[T]) -> Optional[T]:
    if t is None:
        return None
    t = rewrite(t, _first_or_none)
    t = accum_to_comp(rec, t)
    t = consumed_generators(t)
    t = rewrite(t, _list_update)
    t = fuse_comps(t)
    t = sorted_form(t)
    t = simplify(t)
    t = none_last(t)
    t = rewrite(t, _gate_split)
    return simplify(t)


# ------------------------------------------------------------------ signed / narrowed views of a machine word
_CT = {"ctypes.c_int8": (8, True), "ctypes.c_int16": (16, True), "ctypes.c_int32": (32, True), "ctypes.c_int64": (64, True),
       "ctypes.c_uint8": (8, False), "ctypes.c_uint16": (16, False), "ctypes.c_uint32": (32, False),
       "ctypes.c_uint64": (64, False), "ctypes.c_long": (64, True), "ctypes.c_ulong": (64, False),
       "ctypes.c_longlong": (64, True), "ctypes.c_ulonglong": (64, False), "ctypes.c_int": (32, True),
       "ctypes.c_uint": (32, False), "ctypes.c_short": (16, True), "ctypes.c_ushort": (16, False),
       "ctypes.c_byte": (8, True), "ctypes.c_ubyte": (8, False), "ctypes.c_ssize_t": (64, True), "ctypes.c_size_t": (64, False)}


def _ci(t: T):
    return t.a[0] if t.op == "const" and isinstance(t.a[0], int) and not isinstance(t.a[0], bool) else None


def _masked(t: T):
    """x & (2**w - 1)  ->  (x, w);  anything else -> (t, 64)  (the record's words are unsigned 64-bit integers)."""
    if t.op == "bin" and t.a[0] == "&":
        for x, m in ((t.a[1], t.a[2]), (t.a[2], t.a[1])):
            c = _ci(m)
            if c is not None and c > 0 and (c & (c + 1)) == 0:
                return x, c.bit_length()
    return t, 64


def view_of_word(t: T):
    """If ``t`` is a fixed-width reinterpretation of an integer x, return (x, width, signed); else None.

    Recognised spellings: ctypes.c_(u)intNN(x).value;  x & (2**w-1);  the two's-complement idioms
    ``A - 2**w if <sign bit of A> else A`` (any orientation, sign test by shift, mask or comparison),
    ``(A ^ 2**(w-1)) - 2**(w-1)``, ``(A + 2**(w-1)) % 2**w - 2**(w-1)`` with A = x & (2**w-1) (A = x when w = 64);
    ``int.from_bytes(x.to_bytes(n, o), o, signed=True)``."""
    if t.op == "attr" and t.a[1] == "value" and t.a[0].op == "call" and t.a[0].a[0].op == "global" \
            and t.a[0].a[0].a[0] in _CT and len(t.a[0].a[1]) == 1 and not t.a[0].a[2]:
        w, s = _CT[t.a[0].a[0].a[0]]
        return t.a[0].a[1][0], w, s
    if t.op == "ite":
        c, a, b = t.a
        # orient so that `a` is the negative branch (A - 2**w) and `b` is A
        for cond, neg_b, pos_b, pol in ((c, a, b, True), (c, b, a, False)):
            if neg_b.op == "bin" and neg_b.a[0] == "-" and neg_b.a[1] == pos_b:
                k = _ci(neg_b.a[2])
                x, w = _masked(pos_b)
                if k is None or k != 1 << w:
                    continue
                if _sign_test(cond, pos_b, w) is pol:
                    return x, w, True
    if t.op == "bin" and t.a[0] == "-":
        k = _ci(t.a[2])
        l = t.a[1]
        if k is not None and k > 0 and (k & (k - 1)) == 0:
            w = k.bit_length()           # k = 2**(w-1)
            if l.op == "bin" and l.a[0] == "^" and _ci(l.a[2]) == k:
                x, mw = _masked(l.a[1])
                if mw == w:
                    return x, w, True
            if l.op == "bin" and l.a[0] == "%" and _ci(l.a[2]) == 1 << w and l.a[1].op == "bin" and l.a[1].a[0] == "+" \
                    and _ci(l.a[1].a[2]) == k:
                x, mw = _masked(l.a[1].a[1])
                if mw >= w:
                    return x, w, True
    if t.op == "call" and t.a[0].op == "attr" and t.a[0].a[1] == "from_bytes" and t.a[0].a[0] == T("builtin", ("int",)) \
            and len(t.a[1]) >= 2 and dict(t.a[2]).get("signed") == const(True):
        src = t.a[1][0]
        if src.op == "call" and src.a[0].op == "attr" and src.a[0].a[1] == "to_bytes" and len(src.a[1]) >= 2 \
                and src.a[1][1] == t.a[1][1]:
            n = _ci(src.a[1][0])
            if n:
                return src.a[0].a[0], 8 * n, True
    x, w = _masked(t)
    if w < 64:
        return x, w, False
    return None


def _sign_test(cond: T, A: T, w: int):
    """True if cond <=> (bit w-1 of A is set), False if cond <=> it is clear, None otherwise."""
    pol = True
    while cond.op == "not":
        cond, pol = cond.a[0], not pol
    if cond.op == "bin" and cond.a[0] == ">>" and cond.a[1] == A and _ci(cond.a[2]) == w - 1:
        return pol
    if cond.op == "bin" and cond.a[0] == "&":
        for x, m in ((cond.a[1], cond.a[2]), (cond.a[2], cond.a[1])):
            if x == A and _ci(m) == 1 << (w - 1):
                return pol
    if cond.op == "cmp" and cond.a[1] == A:
        k = _ci(cond.a[2])
        if k is not None:
            if (cond.a[0], k) in ((">=", 1 << (w - 1)), (">", (1 << (w - 1)) - 1)):
                return pol
            if (cond.a[0], k) in (("<", 1 << (w - 1)), ("<=", (1 << (w - 1)) - 1)):
                return not pol
    return None


# ------------------------------------------------------------------ propositional equivalence of conditions
def _atoms_of(c: T, out: list) -> None:
    if c.op == "not":
        _atoms_of(c.a[0], out)
    elif c.op == "bool":
        for x in c.a[1]:
            _atoms_of(x, out)
    elif c.op == "ite":
        for x in c.a:
            _atoms_of(x, out)
    elif c.op == "cmp" and c.a[0] in ("!=", "not in", "is not"):
        _atoms_of(T("cmp", (_FLIP[c.a[0]], c.a[1], c.a[2])), out)
    elif c.op == "const":
        pass
    elif c not in out:
        out.append(c)


def _truth(c: T, val: Dict[T, bool]) -> bool:
    if c.op == "const":
        return bool(c.a[0])
    if c.op == "not":
        return not _truth(c.a[0], val)
    if c.op == "bool":
        vs = [_truth(x, val) for x in c.a[1]]
        return all(vs) if c.a[0] == "and" else any(vs)
    if c.op == "ite":
        return _truth(c.a[1], val) if _truth(c.a[0], val) else _truth(c.a[2], val)
    if c.op == "cmp" and c.a[0] in ("!=", "not in", "is not"):
        return not val[T("cmp", (_FLIP[c.a[0]], c.a[1], c.a[2]))]
    return val[c]


def bool_equiv(a: T, b: T, max_atoms: int = 10) -> Optional[bool]:
    """Are two conditions equal as truth values for every assignment of their atoms (maximal non-boolean sub-terms)?
    None when there are too many atoms.  Atoms are treated as independent, so True is sound ("equivalent") while False
    may only mean "not shown equivalent"."""
    atoms: list = []
    _atoms_of(a, atoms)
    _atoms_of(b, atoms)
    if len(atoms) > max_atoms:
        return None
    for bits in range(1 << len(atoms)):
        val = {x: bool(bits >> i & 1) for i, x in enumerate(atoms)}
        if _truth(a, val) != _truth(b, val):
            return False
    return True


def guarded_leaves(t: T, pc: tuple = ()):
    """Flatten nested conditionals: [(conditions ((term, polarity), ...), leaf term)]."""
    if t.op == "ite":
        return guarded_leaves(t.a[1], pc + ((t.a[0], True),)) + guarded_leaves(t.a[2], pc + ((t.a[0], False),))
    return [(pc, t)]


def split_returns(returns):
    """`return a if c else b` is `if c: return a` / `else: return b`: one record per leaf of a conditional return value."""
    import copy
    out = []
    for r in returns:
        leaves = guarded_leaves(r.value) if r.value is not None and r.value.op == "ite" else None
        if not leaves or len(leaves) == 1:
            out.append(r)
            continue
        for pc, leaf in leaves:
            x = copy.copy(r)
            x.value = leaf
            x.pc = tuple(r.pc) + tuple(pc)
            out.append(x)
    return out


def pc_term(pc: tuple) -> T:
    parts = tuple(c if p else T("not", (c,)) for c, p in pc)
    if not parts:
        return const(True)
    return parts[0] if len(parts) == 1 else T("bool", ("and", parts))


def any_of(terms) -> T:
    terms = tuple(terms)
    if not terms:
        return const(False)
    return terms[0] if len(terms) == 1 else T("bool", ("or", terms))


# ------------------------------------------------------------------ membership in sets that are built, not written
def _ieval(t: T, env: Dict[T, int]):
    """Integer value of a small arithmetic term with the given variables bound; None if it is anything else."""
    if t in env:
        return env[t]
    if t.op == "const" and isinstance(t.a[0], int) and not isinstance(t.a[0], bool):
        return t.a[0]
    if t.op == "bin" and t.a[0] in ("<<", ">>", "|", "&", "+", "-", "*", "^"):
        l, r = _ieval(t.a[1], env), _ieval(t.a[2], env)
        if l is None or r is None:
            return None
        try:
            return {"<<": lambda: l << r, ">>": lambda: l >> r, "|": lambda: l | r, "&": lambda: l & r, "+": lambda: l + r,
                    "-": lambda: l - r, "*": lambda: l * r, "^": lambda: l ^ r}[t.a[0]]()
        except (ValueError, OverflowError):
            return None
    return None


def _shr(v: T, k: int) -> T:
    """v >> k, with (a >> m) >> k written a >> (m + k)."""
    if k == 0:
        return v
    if v.op == "bin" and v.a[0] == ">>" and v.a[2].op == "const" and isinstance(v.a[2].a[0], int):
        return T("bin", (">>", v.a[1], const(v.a[2].a[0] + k)))
    return T("bin", (">>", v, const(k)))


def _interval_as_field(lo: T, hi: T, var: T):
    """If, for every c in 0..255, [lo(c), hi(c)) == [c * 2**k + a, c * 2**k + b) with 0 <= a < b <= 2**k: (k, a, b).
    Then `lo(c) <= v < hi(c)` says: the field v >> k equals c, and the low k bits of v lie in [a, b)."""
    for k in range(1, 33):
        a0 = b0 = None
        ok = True
        for c in range(256):
            l, h = _ieval(lo, {var: c}), _ieval(hi, {var: c})
            if l is None or h is None:
                return None
            a, b = l - (c << k), h - (c << k)
            if a0 is None:
                a0, b0 = a, b
            if (a, b) != (a0, b0) or not (0 <= a < b <= (1 << k)):
                ok = False
                break
        if ok:
            return k, a0, b0
    return None


def expand_membership(rec, t: T) -> T:
    """`v in S` for a set S that is computed - set(L), A | B, S.update(...), S.add(e), range(a, b), and such a set
    accumulated over a for loop - is the condition on v that it abbreviates:

        v in set(L)                         ->  v in L
        v in A | B / A.union(B) / after A.update(B)   ->  v in A or v in B
        v in range(a, b)                    ->  a <= v and v < b                       (v an integer)
        v in S built by `for c in P: S.update(range(lo(c), hi(c)))`
                                            ->  v in S0 or (v >> k) in P [and a <= v & (2**k - 1) < b]
    the last one when the ranges are the aligned blocks [c * 2**k + a, c * 2**k + b) for every c in 0..255 (evaluated).
    Anything else is left as it is."""
    def parts_of(it: T):
        """collections an iteration runs over, in order: (*A, *B) / A + B / [*A] / A"""
        if it.op in ("tuple", "list") and it.a[0] and all(x.op == "star" for x in it.a[0]):
            return [x.a[0] for x in it.a[0]]
        if it.op == "bin" and it.a[0] == "+":
            l, r = parts_of(it.a[1]), parts_of(it.a[2])
            return None if l is None or r is None else l + r
        if it.op == "call" and it.a[0] == T("global", ("itertools.chain",)) and not it.a[2]:
            out = []
            for x in it.a[1]:
                p = parts_of(x)
                if p is None:
                    return None
                out += p
            return out
        if it.op in ("attr", "param", "sub", "global") or (it.op == "call" and it.a[0].op == "builtin"
                                                              and it.a[0].a[0] in ("list", "tuple", "set", "sorted")
                                                              and len(it.a[1]) == 1):
            return [it.a[1][0] if it.op == "call" else it]
        return None

    def member(v: T, s: T, depth: int = 0) -> Optional[T]:
        if depth > 12:
            return None
        if s.op == "call" and s.a[0].op == "builtin" and s.a[0].a[0] in ("set", "frozenset", "list", "tuple") and not s.a[2]:
            if not s.a[1]:
                return const(False)
            if len(s.a[1]) == 1:
                inner = member(v, s.a[1][0], depth + 1)
                return inner if inner is not None else T("cmp", ("in", v, s.a[1][0]))
        if s.op in ("set", "list", "tuple"):
            return T("cmp", ("in", v, s)) if s.a[0] else const(False)
        if s.op == "bin" and s.a[0] == "|":
            l, r = member(v, s.a[1], depth + 1), member(v, s.a[2], depth + 1)
            return None if l is None or r is None else any_of([l, r])
        if s.op == "call" and s.a[0].op == "attr" and s.a[0].a[1] == "union" and not s.a[2]:
            ms = [member(v, x, depth + 1) for x in (s.a[0].a[0],) + tuple(s.a[1])]
            return None if any(m is None for m in ms) else any_of(ms)
        if s.op == "mut" and s.a[1] in ("update", "add") and len(s.a[2]) == 1:
            base = member(v, s.a[0], depth + 1)
            if base is None:
                return None
            if s.a[1] == "add":
                return any_of([base, T("cmp", ("==", v, s.a[2][0]))])
            more = member(v, s.a[2][0], depth + 1)
            return None if more is None else any_of([base, more])
        if s.op == "call" and s.a[0] == T("builtin", ("range",)) and len(s.a[1]) in (1, 2) and not s.a[2]:
            lo, hi = (const(0), s.a[1][0]) if len(s.a[1]) == 1 else s.a[1]
            return T("bool", ("and", (T("cmp", ("<=", lo, v)), T("cmp", ("<", v, hi)))))
        if s.op == "widen" and isinstance(s.a[1], int) and rec is not None:
            lr = rec.loops.get(s.a[1])
            full = sym.final_widen(rec, s)
            if lr is None or lr.kind != "for" or lr.target is None or full.op != "widen" or len(full.a[2]) != 2:
                return None
            init, step = full.a[2]
            inside = T("widen", (s.a[0], s.a[1], (init,)))
            HOLE = T("bound", ("__already_in__",))
            added = member(v, sym.subst(step, {inside: T("set", ((HOLE,),))}), depth + 1) if sym.contains(step, inside) else None
            base = member(v, init, depth + 1)
            parts = parts_of(lr.iter) if lr.iter is not None else None
            if added is None or base is None or parts is None:
                return None
            # `added` is: (v in {HOLE}) or <what one iteration adds>; the first disjunct stands for "was in already"
            per_iter = [d for d in (added.a[1] if added.op == "bool" and added.a[0] == "or" else (added,))
                        if not sym.contains(d, HOLE)]
            if len(per_iter) != 1:
                return None
            d = per_iter[0]
            if not (d.op == "bool" and d.a[0] == "and" and len(d.a[1]) == 2 and all(x.op == "cmp" for x in d.a[1])
                    and d.a[1][0].a[0] == "<=" and d.a[1][0].a[2] == v and d.a[1][1].a[0] == "<" and d.a[1][1].a[1] == v):
                return None
            fld = _interval_as_field(d.a[1][0].a[1], d.a[1][1].a[2], lr.target)
            if fld is None:
                return None
            k, a, b = fld
            low = T("bin", ("&", v, const((1 << k) - 1)))
            extra = []
            if a > 0:
                extra.append(T("cmp", ("<=", const(a), low)))
            if b < (1 << k):
                extra.append(T("cmp", ("<", low, const(b))))
            hits = any_of([T("cmp", ("in", _shr(v, k), p)) for p in parts])
            if extra:
                hits = T("bool", ("and", (hits,) + tuple(extra)))
            return any_of([base, hits])
        if s.op in ("attr", "param", "sub"):
            return T("cmp", ("in", v, s))
        return None

    def rule(x: T) -> T:
        if x.op == "cmp" and x.a[0] in ("in", "not in") and x.a[2].op in ("call", "bin", "mut", "widen"):
            m = member(x.a[1], x.a[2])
            if m is not None:
                return m if x.a[0] == "in" else T("not", (m,))
        return x
    return rewrite(t, rule)


def value_bool_to_ite(t: T) -> T:
    """`a and b` used as a value is `b if a else a`; `a or b` is `a if a else b`."""
    if t.op == "bool" and len(t.a[1]) >= 2:
        first, rest = t.a[1][0], t.a[1][1:]
        tail = value_bool_to_ite(rest[0] if len(rest) == 1 else T("bool", (t.a[0], rest)))
        return T("ite", (first, tail, first)) if t.a[0] == "and" else T("ite", (first, first, tail))
    if t.op == "ite":
        return T("ite", (t.a[0], value_bool_to_ite(t.a[1]), value_bool_to_ite(t.a[2])))
    return t
