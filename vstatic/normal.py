"""Normal forms for symbolic terms.

The same value can be written in many ways; the rules compare terms against one canonical spelling.  Every rewrite here
is an equivalence of Python values (given the stated side conditions), so applying them can neither hide a difference in
behaviour nor create one:

  none_last     ite(c, None, X)                       ->  ite(not c, X, None)
  fuse_comps    [f(y) for y in [x for x in S if c(x)] if d(y)]
                                                       ->  [f(x) for x in S if c(x) if d(x)]
  accum_to_comp acc = []; for x in S: acc.extend(F(x)) ->  list(chain.from_iterable([F(x) for x in S]))
                acc = []; for x in S: acc.append(F(x)) ->  [F(x) for x in S]
                acc = acc + F(x) / acc += F(x)            (same as extend)
                only when the loop has no break/continue/return and the update is unconditional
  sorted_form   L.sort(**kw) on a fresh local list      ->  sorted(L, **kw)
"""
from __future__ import annotations

from typing import Callable, Dict, Optional

from . import sym
from .sym import T, const

NONE = const(None)
_FLIP = {"==": "!=", "!=": "==", "is": "is not", "is not": "is", "in": "not in", "not in": "in",
         "<": ">=", ">=": "<", ">": "<=", "<=": ">"}


def rewrite(t, fn: Callable[[T], T]):
    """Bottom-up rewriting of every sub-term (shared sub-terms are rewritten once)."""
    memo: Dict[int, object] = {}

    def go(x):
        if isinstance(x, T):
            k = id(x)
            if k in memo:
                return memo[k]
            na = go(x.a)
            r = x if na is x.a else T(x.op, na)
            r2 = fn(r)
            memo[k] = r2
            return r2
        if isinstance(x, tuple):
            new = tuple(go(e) for e in x)
            if all(n is o for n, o in zip(new, x)):
                return x
            return new
        return x

    return go(t)


def neg(c: T) -> T:
    if c.op == "not":
        return c.a[0]
    if c.op == "cmp" and c.a[0] in _FLIP and c.a[0] not in ("<", ">", "<=", ">="):
        return T("cmp", (_FLIP[c.a[0]], c.a[1], c.a[2]))
    return T("not", (c,))


def _none_last(t: T) -> T:
    if t.op == "ite" and t.a[1] == NONE and t.a[2] != NONE:
        return T("ite", (neg(t.a[0]), t.a[2], NONE))
    return t


def none_last(t: T) -> T:
    return rewrite(t, _none_last)


def _fuse(t: T) -> T:
    if t.op != "comp" or len(t.a[2]) != 1:
        return t
    kind, elt, ((b, it, conds),) = t.a
    if it.op == "comp" and it.a[0] in ("list", "gen") and len(it.a[2]) == 1:
        b2, s2, c2 = it.a[2][0]
        if it.a[1] == b2:
            m = {b: b2}
            return T("comp", (kind, sym.subst(elt, m), ((b2, s2, tuple(c2) + tuple(sym.subst(c, m) for c in conds)),)))
    return t


def fuse_comps(t: T) -> T:
    return rewrite(t, _fuse)


CHAIN = T("global", ("itertools.chain.from_iterable",))
LIST = T("builtin", ("list",))
SORTED = T("builtin", ("sorted",))


def _is_empty_list(t: T) -> bool:
    return t.op == "list" and t.a[0] == ()


def _accum(rec) -> Callable[[T], T]:
    def fn(t: T) -> T:
        if t.op != "widen" or not isinstance(t.a[1], int) or len(t.a[2]) != 2:
            return t
        name, lid, (init, step) = t.a
        lr = rec.loops.get(lid) if rec is not None else None
        if lr is None or lr.kind != "for" or lr.exits or lr.target is None or lr.iter is None:
            return t
        if not _is_empty_list(init):
            return t
        prev = T("widen", (name, lid, (init,)))
        x = None
        how = None
        if step.op == "mut" and step.a[0] == prev and step.a[1] in ("extend", "append") and len(step.a[2]) == 1 and len(step.a) == 3:
            x, how = step.a[2][0], step.a[1]
        elif step.op == "bin" and step.a[0] == "+" and step.a[1] == prev:
            x, how = step.a[2], "extend"
        if x is None or sym.contains(x, prev):
            return t
        comp = T("comp", ("list", x, ((lr.target, lr.iter, ()),)))
        if how == "append":
            return comp
        return T("call", (LIST, (T("call", (CHAIN, (comp,), ())),), ()))
    return fn


def accum_to_comp(rec, t: T) -> T:
    return rewrite(t, _accum(rec))


def _sorted(t: T) -> T:
    if t.op == "mut" and t.a[1] == "sort" and t.a[2] == ():
        kw = t.a[3] if len(t.a) > 3 else ()
        return T("call", (SORTED, (t.a[0],), tuple(kw)))
    return t


def sorted_form(t: T) -> T:
    return rewrite(t, _sorted)


def normalise(rec, t: Optional[T]) -> Optional[T]:
    if t is None:
        return None
    t = accum_to_comp(rec, t)
    t = fuse_comps(t)
    t = sorted_form(t)
    return none_last(t)
