"""Normal forms for symbolic terms.

The same value can be written in many ways; the rules compare terms against one canonical spelling.  Every rewrite here
is an equivalence of Python values (given the stated side conditions), so applying them can neither hide a difference in
behaviour nor create one:

  none_last     ite(c, None, X)                       ->  ite(not c, X, None)
  fuse_comps    [f(y) for y in [x for x in S if c(x)] if d(y)]
                                                       ->  [f(x) for x in S if c(x) if d(x)]
  accum_to_comp acc = []; for x in S: acc.extend(F(x)) ->  list(chain.from_iterable([F(x) for x in S]))
                acc = []; for x in S: acc.append(F(x)) ->  [F(x) for x in S]
                acc = acc + F(x) / acc += F(x)            (same as extend)
                only when the loop has no break/continue/return and the update is unconditional
  sorted_form   L.sort(**kw) on a fresh local list      ->  sorted(L, **kw)
"""
from __future__ import annotations

from typing import Callable, Dict, Optional

from . import sym
from .sym import T, const

NONE = const(None)
_FLIP = {"==": "!=", "!=": "==", "is": "is not", "is not": "is", "in": "not in", "not in": "in",
         "<": ">=", ">=": "<", ">": "<=", "<=": ">"}


def rewrite(t, fn: Callable[[T], T]):
    """Bottom-up rewriting of every sub-term (shared sub-terms are rewritten once)."""
    memo: Dict[int, object] = {}

    def go(x):
        if isinstance(x, T):
            k = id(x)
            if k in memo:
                return memo[k]
            na = go(x.a)
            r = x if na is x.a else T(x.op, na)
            r2 = fn(r)
            memo[k] = r2
            return r2
        if isinstance(x, tuple):
            new = tuple(go(e) for e in x)
            if all(n is o for n, o in zip(new, x)):
                return x
            return new
        return x

    return go(t)


def neg(c: T) -> T:
    if c.op == "not":
        return c.a[0]
    if c.op == "cmp" and c.a[0] in _FLIP and c.a[0] not in ("<", ">", "<=", ">="):
        return T("cmp", (_FLIP[c.a[0]], c.a[1], c.a[2]))
    return T("not", (c,))


def _none_last(t: T) -> T:
    if t.op == "ite" and t.a[1] == NONE and t.a[2] != NONE:
        return T("ite", (neg(t.a[0]), t.a[2], NONE))
    return t


def none_last(t: T) -> T:
    return rewrite(t, _none_last)


def _fuse(t: T) -> T:
    if t.op != "comp" or len(t.a[2]) != 1:
        return t
    kind, elt, ((b, it, conds),) = t.a
    if it.op == "comp" and it.a[0] in ("list", "gen") and len(it.a[2]) == 1:
        b2, s2, c2 = it.a[2][0]
        if it.a[1] == b2:
            m = {b: b2}
            return T("comp", (kind, sym.subst(elt, m), ((b2, s2, tuple(c2) + tuple(sym.subst(c, m) for c in conds)),)))
    return t


def fuse_comps(t: T) -> T:
    return rewrite(t, _fuse)


CHAIN = T("global", ("itertools.chain.from_iterable",))
LIST = T("builtin", ("list",))
SORTED = T("builtin", ("sorted",))


def _is_empty_list(t: T) -> bool:
    return t.op == "list" and t.a[0] == ()


def _accum(rec) -> Callable[[T], T]:
    def fn(t: T) -> T:
        if t.op != "widen" or not isinstance(t.a[1], int) or len(t.a[2]) != 2:
            return t
        name, lid, (init, step) = t.a
        lr = rec.loops.get(lid) if rec is not None else None
        if lr is None or lr.kind != "for" or lr.exits or lr.target is None or lr.iter is None:
            return t
        if not _is_empty_list(init):
            return t
        prev = T("widen", (name, lid, (init,)))
        x = None
        how = None
        if step.op == "mut" and step.a[0] == prev and step.a[1] in ("extend", "append") and len(step.a[2]) == 1 and len(step.a) == 3:
            x, how = step.a[2][0], step.a[1]
        elif step.op == "bin" and step.a[0] == "+" and step.a[1] == prev:
            x, how = step.a[2], "extend"
        if x is None or sym.contains(x, prev):
            return t
        comp = T("comp", ("list", x, ((lr.target, lr.iter, ()),)))
        if how == "append":
            return comp
        return T("call", (LIST, (T("call", (CHAIN, (comp,), ())),), ()))
    return fn


def accum_to_comp(rec, t: T) -> T:
    return rewrite(t, _accum(rec))


def _sorted(t: T) -> T:
    if t.op == "mut" and t.a[1] == "sort" and t.a[2] == ():
        kw = t.a[3] if len(t.a) > 3 else ()
        return T("call", (SORTED, (t.a[0],), tuple(kw)))
    return t


def sorted_form(t: T) -> T:
    return rewrite(t, _sorted)


_CONSUMERS = {"list", "sorted", "tuple", "set", "frozenset", "any", "all", "sum", "min", "max"}
CHAIN_PLAIN = T("global", ("itertools.chain",))


def _as_list(x: T) -> T:
    if x.op == "comp" and x.a[0] == "gen":
        return T("comp", ("list",) + tuple(x.a[1:]))
    return x


def _consumed(t: T) -> T:
    """A generator expression handed directly to something that consumes it completely is the list of its items;
    itertools.chain(a, b) consumed that way is a + b."""
    if t.op != "call":
        return t
    f = t.a[0]
    whole = (f.op == "builtin" and f.a[0] in _CONSUMERS) or f == CHAIN or \
        (f.op == "attr" and f.a[1] == "join" and f.a[0].op == "const")
    if f == CHAIN_PLAIN and t.a[1] and not t.a[2]:
        parts = [_as_list(x) for x in t.a[1]]
        if all(p.op in ("comp", "list") for p in parts):
            acc = parts[0]
            for p_ in parts[1:]:
                acc = T("bin", ("+", acc, p_))
            return acc
        return t
    if whole and t.a[1]:
        first = _as_list(t.a[1][0])
        if first is not t.a[1][0]:
            return T("call", (f, (first,) + tuple(t.a[1][1:]), t.a[2]))
    return t


def consumed_generators(t: T) -> T:
    return rewrite(t, _consumed)


def _gate_split(t: T) -> T:
    """ite(c1 and c2, X, None)  ->  ite(c1, ite(c2, X, None), None)"""
    if t.op == "ite" and t.a[2] == NONE and t.a[0].op == "bool" and t.a[0].a[0] == "and" and len(t.a[0].a[1]) >= 2:
        cs = t.a[0].a[1]
        inner = t.a[1]
        for c in reversed(cs):
            inner = T("ite", (c, inner, NONE))
        return inner
    return t


def normalise(rec, t: Optional[T]) -> Optional[T]:
    if t is None:
        return None
    t = accum_to_comp(rec, t)
    t = consumed_generators(t)
    t = fuse_comps(t)
    t = sorted_form(t)
    t = none_last(t)
    return rewrite(t, _gate_split)


# ------------------------------------------------------------------ signed / narrowed views of a machine word
_CT = {"ctypes.c_int8": (8, True), "ctypes.c_int16": (16, True), "ctypes.c_int32": (32, True), "ctypes.c_int64": (64, True),
       "ctypes.c_uint8": (8, False), "ctypes.c_uint16": (16, False), "ctypes.c_uint32": (32, False),
       "ctypes.c_uint64": (64, False), "ctypes.c_long": (64, True), "ctypes.c_ulong": (64, False),
       "ctypes.c_longlong": (64, True), "ctypes.c_ulonglong": (64, False), "ctypes.c_int": (32, True),
       "ctypes.c_uint": (32, False), "ctypes.c_short": (16, True), "ctypes.c_ushort": (16, False),
       "ctypes.c_byte": (8, True), "ctypes.c_ubyte": (8, False), "ctypes.c_ssize_t": (64, True), "ctypes.c_size_t": (64, False)}


def _ci(t: T):
    return t.a[0] if t.op == "const" and isinstance(t.a[0], int) and not isinstance(t.a[0], bool) else None


def _masked(t: T):
    """x & (2**w - 1)  ->  (x, w);  anything else -> (t, 64)  (the record's words are unsigned 64-bit integers)."""
    if t.op == "bin" and t.a[0] == "&":
        for x, m in ((t.a[1], t.a[2]), (t.a[2], t.a[1])):
            c = _ci(m)
            if c is not None and c > 0 and (c & (c + 1)) == 0:
                return x, c.bit_length()
    return t, 64


def view_of_word(t: T):
    """If ``t`` is a fixed-width reinterpretation of an integer x, return (x, width, signed); else None.

    Recognised spellings: ctypes.c_(u)intNN(x).value;  x & (2**w-1);  the two's-complement idioms
    ``A - 2**w if <sign bit of A> else A`` (any orientation, sign test by shift, mask or comparison),
    ``(A ^ 2**(w-1)) - 2**(w-1)``, ``(A + 2**(w-1)) % 2**w - 2**(w-1)`` with A = x & (2**w-1) (A = x when w = 64);
    ``int.from_bytes(x.to_bytes(n, o), o, signed=True)``."""
    if t.op == "attr" and t.a[1] == "value" and t.a[0].op == "call" and t.a[0].a[0].op == "global" \
            and t.a[0].a[0].a[0] in _CT and len(t.a[0].a[1]) == 1 and not t.a[0].a[2]:
        w, s = _CT[t.a[0].a[0].a[0]]
        return t.a[0].a[1][0], w, s
    if t.op == "ite":
        c, a, b = t.a
        # orient so that `a` is the negative branch (A - 2**w) and `b` is A
        for cond, neg_b, pos_b, pol in ((c, a, b, True), (c, b, a, False)):
            if neg_b.op == "bin" and neg_b.a[0] == "-" and neg_b.a[1] == pos_b:
                k = _ci(neg_b.a[2])
                x, w = _masked(pos_b)
                if k is None or k != 1 << w:
                    continue
                if _sign_test(cond, pos_b, w) is pol:
                    return x, w, True
    if t.op == "bin" and t.a[0] == "-":
        k = _ci(t.a[2])
        l = t.a[1]
        if k is not None and k > 0 and (k & (k - 1)) == 0:
            w = k.bit_length()           # k = 2**(w-1)
            if l.op == "bin" and l.a[0] == "^" and _ci(l.a[2]) == k:
                x, mw = _masked(l.a[1])
                if mw == w:
                    return x, w, True
            if l.op == "bin" and l.a[0] == "%" and _ci(l.a[2]) == 1 << w and l.a[1].op == "bin" and l.a[1].a[0] == "+" \
                    and _ci(l.a[1].a[2]) == k:
                x, mw = _masked(l.a[1].a[1])
                if mw >= w:
                    return x, w, True
    if t.op == "call" and t.a[0].op == "attr" and t.a[0].a[1] == "from_bytes" and t.a[0].a[0] == T("builtin", ("int",)) \
            and len(t.a[1]) >= 2 and dict(t.a[2]).get("signed") == const(True):
        src = t.a[1][0]
        if src.op == "call" and src.a[0].op == "attr" and src.a[0].a[1] == "to_bytes" and len(src.a[1]) >= 2 \
                and src.a[1][1] == t.a[1][1]:
            n = _ci(src.a[1][0])
            if n:
                return src.a[0].a[0], 8 * n, True
    x, w = _masked(t)
    if w < 64:
        return x, w, False
    return None


def _sign_test(cond: T, A: T, w: int):
    """True if cond <=> (bit w-1 of A is set), False if cond <=> it is clear, None otherwise."""
    pol = True
    while cond.op == "not":
        cond, pol = cond.a[0], not pol
    if cond.op == "bin" and cond.a[0] == ">>" and cond.a[1] == A and _ci(cond.a[2]) == w - 1:
        return pol
    if cond.op == "bin" and cond.a[0] == "&":
        for x, m in ((cond.a[1], cond.a[2]), (cond.a[2], cond.a[1])):
            if x == A and _ci(m) == 1 << (w - 1):
                return pol
    if cond.op == "cmp" and cond.a[1] == A:
        k = _ci(cond.a[2])
        if k is not None:
            if (cond.a[0], k) in ((">=", 1 << (w - 1)), (">", (1 << (w - 1)) - 1)):
                return pol
            if (cond.a[0], k) in (("<", 1 << (w - 1)), ("<=", (1 << (w - 1)) - 1)):
                return not pol
    return None


# ------------------------------------------------------------------ propositional equivalence of conditions
def _atoms_of(c: T, out: list) -> None:
    if c.op == "not":
        _atoms_of(c.a[0], out)
    elif c.op == "bool":
        for x in c.a[1]:
            _atoms_of(x, out)
    elif c.op == "ite":
        for x in c.a:
            _atoms_of(x, out)
    elif c.op == "cmp" and c.a[0] in ("!=", "not in", "is not"):
        _atoms_of(T("cmp", (_FLIP[c.a[0]], c.a[1], c.a[2])), out)
    elif c.op == "const":
        pass
    elif c not in out:
        out.append(c)


def _truth(c: T, val: Dict[T, bool]) -> bool:
    if c.op == "const":
        return bool(c.a[0])
    if c.op == "not":
        return not _truth(c.a[0], val)
    if c.op == "bool":
        vs = [_truth(x, val) for x in c.a[1]]
        return all(vs) if c.a[0] == "and" else any(vs)
    if c.op == "ite":
        return _truth(c.a[1], val) if _truth(c.a[0], val) else _truth(c.a[2], val)
    if c.op == "cmp" and c.a[0] in ("!=", "not in", "is not"):
        return not val[T("cmp", (_FLIP[c.a[0]], c.a[1], c.a[2]))]
    return val[c]


def bool_equiv(a: T, b: T, max_atoms: int = 10) -> Optional[bool]:
    """Are two conditions equal as truth values for every assignment of their atoms (maximal non-boolean sub-terms)?
    None when there are too many atoms.  Atoms are treated as independent, so True is sound ("equivalent") while False
    may only mean "not shown equivalent"."""
    atoms: list = []
    _atoms_of(a, atoms)
    _atoms_of(b, atoms)
    if len(atoms) > max_atoms:
        return None
    for bits in range(1 << len(atoms)):
        val = {x: bool(bits >> i & 1) for i, x in enumerate(atoms)}
        if _truth(a, val) != _truth(b, val):
            return False
    return True


def guarded_leaves(t: T, pc: tuple = ()):
    """Flatten nested conditionals: [(conditions ((term, polarity), ...), leaf term)]."""
    if t.op == "ite":
        return guarded_leaves(t.a[1], pc + ((t.a[0], True),)) + guarded_leaves(t.a[2], pc + ((t.a[0], False),))
    return [(pc, t)]


def pc_term(pc: tuple) -> T:
    parts = tuple(c if p else T("not", (c,)) for c, p in pc)
    if not parts:
        return const(True)
    return parts[0] if len(parts) == 1 else T("bool", ("and", parts))


def any_of(terms) -> T:
    terms = tuple(terms)
    if not terms:
        return const(False)
    return terms[0] if len(terms) == 1 else T("bool", ("or", terms))
