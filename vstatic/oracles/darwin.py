"""Reference values transcribed from XNU / Darwin headers (name -> value).

Each block names the header it was transcribed from.  Names are unique across blocks.  These tables are part
of the trusted base: a wrong entry would show up as a disagreement with the reviewed tree, and all families
agreed with the tree when the table was written.
"""

# bsd/sys/fcntl.h
O_FLAGS = {
    "O_RDONLY": 0x0000, "O_WRONLY": 0x0001, "O_RDWR": 0x0002, "O_ACCMODE": 0x0003, "O_NONBLOCK": 0x0004,
    "O_APPEND": 0x0008, "O_SHLOCK": 0x0010, "O_EXLOCK": 0x0020, "O_ASYNC": 0x0040, "O_FSYNC": 0x0080, "O_SYNC": 0x0080,
    "O_NOFOLLOW": 0x0100, "O_CREAT": 0x0200, "O_TRUNC": 0x0400, "O_EXCL": 0x0800, "O_EVTONLY": 0x8000,
    "O_NOCTTY": 0x20000, "O_DIRECTORY": 0x100000, "O_SYMLINK": 0x200000, "O_DSYNC": 0x400000, "O_CLOEXEC": 0x1000000,
    "O_NOFOLLOW_ANY": 0x20000000,
}
# bsd/sys/_types/_s_ifmt.h, bsd/sys/stat.h
S_FLAGS = {
    "S_IFMT": 0o170000, "S_IFIFO": 0o010000, "S_IFCHR": 0o020000, "S_IFDIR": 0o040000, "S_IFBLK": 0o060000,
    "S_IFREG": 0o100000, "S_IFLNK": 0o120000, "S_IFSOCK": 0o140000, "S_IFWHT": 0o160000,
    "S_ISUID": 0o004000, "S_ISGID": 0o002000, "S_ISVTX": 0o001000, "S_ISTXT": 0o001000,
    "S_IRWXU": 0o000700, "S_IRUSR": 0o000400, "S_IWUSR": 0o000200, "S_IXUSR": 0o000100,
    "S_IRWXG": 0o000070, "S_IRGRP": 0o000040, "S_IWGRP": 0o000020, "S_IXGRP": 0o000010,
    "S_IRWXO": 0o000007, "S_IROTH": 0o000004, "S_IWOTH": 0o000002, "S_IXOTH": 0o000001,
}
# bsd/sys/stat.h (chflags)
FILE_FLAGS = {
    "UF_NODUMP": 0x1, "UF_IMMUTABLE": 0x2, "UF_APPEND": 0x4, "UF_OPAQUE": 0x8, "UF_COMPRESSED": 0x20, "UF_TRACKED": 0x40,
    "UF_DATAVAULT": 0x80, "UF_HIDDEN": 0x8000, "SF_ARCHIVED": 0x10000, "SF_IMMUTABLE": 0x20000, "SF_APPEND": 0x40000,
    "SF_RESTRICTED": 0x80000, "SF_NOUNLINK": 0x100000, "SF_FIRMLINK": 0x800000, "SF_DATALESS": 0x40000000,
}
# bsd/sys/socket.h
MSG_FLAGS = {
    "MSG_OOB": 0x1, "MSG_PEEK": 0x2, "MSG_DONTROUTE": 0x4, "MSG_EOR": 0x8, "MSG_TRUNC": 0x10, "MSG_CTRUNC": 0x20,
    "MSG_WAITALL": 0x40, "MSG_DONTWAIT": 0x80, "MSG_EOF": 0x100, "MSG_WAITSTREAM": 0x200, "MSG_FLUSH": 0x400,
    "MSG_HOLD": 0x800, "MSG_SEND": 0x1000, "MSG_HAVEMORE": 0x2000, "MSG_RCVMORE": 0x4000, "MSG_COMPAT": 0x8000,
    "MSG_NEEDSA": 0x10000, "MSG_NBIO": 0x20000, "MSG_SKIPCFIL": 0x40000, "MSG_NOSIGNAL": 0x80000,
    "MSG_USEUPCALL": 0x80000000,
}
# bsd/sys/unistd.h
ACCESS = {"F_OK": 0, "X_OK": 1, "W_OK": 2, "R_OK": 4}
# bsd/sys/fcntl.h (flock)
LOCK = {"LOCK_SH": 1, "LOCK_EX": 2, "LOCK_NB": 4, "LOCK_UN": 8}
# osfmk/mach/vm_prot.h
VM_PROT = {
    "VM_PROT_NONE": 0x00, "VM_PROT_READ": 0x01, "VM_PROT_WRITE": 0x02, "VM_PROT_EXECUTE": 0x04, "VM_PROT_NO_CHANGE": 0x08,
    "VM_PROT_COPY": 0x10, "VM_PROT_WANTS_COPY": 0x10, "VM_PROT_TRUSTED": 0x20, "VM_PROT_IS_MASK": 0x40,
    "VM_PROT_STRIP_READ": 0x80,
}
# osfmk/kern/ast.h
AST = {
    "AST_NONE": 0x00, "AST_PREEMPT": 0x01, "AST_QUANTUM": 0x02, "AST_URGENT": 0x04, "AST_HANDOFF": 0x08, "AST_YIELD": 0x10,
    "AST_APC": 0x20, "AST_LEDGER": 0x40, "AST_BSD": 0x80, "AST_KPERF": 0x100, "AST_MACF": 0x200, "AST_RESET_PCS": 0x400,
    "AST_ARCADE": 0x800, "AST_GUARD": 0x1000, "AST_TELEMETRY_USER": 0x2000, "AST_TELEMETRY_KERNEL": 0x4000,
    "AST_TELEMETRY_PMI": 0x8000, "AST_SFI": 0x10000, "AST_DTRACE": 0x20000, "AST_TELEMETRY_IO": 0x40000,
    "AST_KEVENT": 0x80000, "AST_REBALANCE": 0x100000, "AST_UNQUIESCE": 0x200000,
}
# osfmk/kern/thread.h
THREAD_STATE = {"TH_WAIT": 0x01, "TH_SUSP": 0x02, "TH_RUN": 0x04, "TH_UNINT": 0x08, "TH_TERMINATE": 0x10,
                "TH_TERMINATE2": 0x20, "TH_WAIT_REPORT": 0x40, "TH_IDLE": 0x80}
# osfmk/kperf/action.h
SAMPLER = {
    "SAMPLER_TH_INFO": 0x01, "SAMPLER_TH_SNAPSHOT": 0x02, "SAMPLER_KSTACK": 0x04, "SAMPLER_USTACK": 0x08,
    "SAMPLER_PMC_THREAD": 0x10, "SAMPLER_PMC_CPU": 0x20, "SAMPLER_PMC_CONFIG": 0x40, "SAMPLER_MEMINFO": 0x80,
    "SAMPLER_TH_SCHEDULING": 0x100, "SAMPLER_TH_DISPATCH": 0x200, "SAMPLER_TK_SNAPSHOT": 0x400, "SAMPLER_SYS_MEM": 0x800,
    "SAMPLER_TH_INSCYC": 0x1000, "SAMPLER_TK_INFO": 0x2000,
}
# osfmk/kperf/callstack.h
CALLSTACK = {"CALLSTACK_VALID": 0x01, "CALLSTACK_DEFERRED": 0x02, "CALLSTACK_64BIT": 0x04, "CALLSTACK_KERNEL": 0x08,
             "CALLSTACK_TRUNCATED": 0x10, "CALLSTACK_CONTINUATION": 0x20, "CALLSTACK_KERNEL_WORDS": 0x40,
             "CALLSTACK_TRANSLATED": 0x80, "CALLSTACK_FIXUP_PC": 0x100}
# osfmk/kperf/thread_samplers.h
KPERF_TI = {"KPERF_TI_RUNNING": 0x01, "KPERF_TI_RUNNABLE": 0x02, "KPERF_TI_WAIT": 0x04, "KPERF_TI_UNINT": 0x08,
            "KPERF_TI_SUSP": 0x10, "KPERF_TI_TERMINATE": 0x20, "KPERF_TI_IDLE": 0x40}
# dyld include/dlfcn.h
RTLD = {"RTLD_LAZY": 0x1, "RTLD_NOW": 0x2, "RTLD_LOCAL": 0x4, "RTLD_GLOBAL": 0x8, "RTLD_NOLOAD": 0x10,
        "RTLD_NODELETE": 0x80, "RTLD_FIRST": 0x100}
# bsd/sys/ioccom.h
IOC = {"IOCPARM_MASK": 0x1fff, "IOC_VOID": 0x20000000, "IOC_OUT": 0x40000000, "IOC_IN": 0x80000000,
       "IOC_INOUT": 0xc0000000, "IOC_DIRMASK": 0xe0000000}

ALL = {}
for _blk in (O_FLAGS, S_FLAGS, FILE_FLAGS, MSG_FLAGS, ACCESS, LOCK, VM_PROT, AST, THREAD_STATE, SAMPLER, CALLSTACK,
             KPERF_TI, RTLD, IOC):
    for _k, _v in _blk.items():
        assert _k not in ALL or ALL[_k] == _v
        ALL[_k] = _v

HEADER_OF = {}
for _hdr, _blk in (("bsd/sys/fcntl.h", O_FLAGS), ("bsd/sys/stat.h", S_FLAGS), ("bsd/sys/stat.h (chflags)", FILE_FLAGS),
                   ("bsd/sys/socket.h", MSG_FLAGS), ("bsd/sys/unistd.h", ACCESS), ("bsd/sys/fcntl.h (flock)", LOCK),
                   ("osfmk/mach/vm_prot.h", VM_PROT), ("osfmk/kern/ast.h", AST), ("osfmk/kern/thread.h", THREAD_STATE),
                   ("osfmk/kperf/action.h", SAMPLER), ("osfmk/kperf/callstack.h", CALLSTACK),
                   ("osfmk/kperf/thread_samplers.h", KPERF_TI), ("dlfcn.h", RTLD), ("bsd/sys/ioccom.h", IOC)):
    for _k in _blk:
        HEADER_OF[_k] = _hdr


# ---------------------------------------------------------------------------------------------------------------------
# firehose tracepoint identifiers (libdispatch: src/firehose/firehose_types_private.h, tracepoint_private.h), transcribed.
# Flag values are those of the 16-bit `_firehose_tracepoint_flags_*` constants shifted down by 8 (the decoder cuts the upper
# byte out of the identifier: firehose_tracepoint_id's `flags` field), as the repository's own tables have them.
FIREHOSE = {
    "FirehoseTracepointNamespace": {"activity": 2, "trace": 3, "log": 4, "metadata": 5, "signpost": 6, "loss": 7},
    "FirehoseTracepointFlagsPcStyle": {"none": 0, "main_exe": 1, "shared_cache": 2, "main_plugin": 3, "absolute": 4,
                                       "uuid_relative": 5, "large_shared_cache": 6},
    "FirehoseTracepointActivityType": {"create": 1, "swap": 2, "useraction": 3},
    "FirehoseTracepointTraceType": {"default": 0, "info": 1, "debug": 2, "error": 0x10, "fault": 0x11},
    "FirehoseTracepointLogType": {"default": 0, "info": 1, "debug": 2, "error": 0x10, "fault": 0x11},
    "FirehoseTracepointLogFlags": {"has_private_data": 1, "has_subsystem": 2, "has_rules": 4, "has_oversize": 8,
                                   "has_context_data": 0x10},
    "FirehoseTracepointMetadataType": {"dyld": 1, "subsystem": 2, "kext": 3},
    "FirehoseTracepointSignpostType": {"event": 0, "interval_begin": 1, "interval_end": 2, "scope_thread": 0x40,
                                       "scope_process": 0x80, "scope_system": 0xc0},
    "FirehoseTracepointSingpostFlags": {"has_private_data": 1, "has_subsystem": 2, "has_rules": 4, "has_oversize": 8,
                                        "has_context_data": 0x10, "has_name": 0x80},
}
