"""Lazy iterator pipelines (filter / map chains with conditional stages) recovered from symbolic terms,
and a normal form for the small predicate language the facade uses."""
from __future__ import annotations

from dataclasses import dataclass
from typing import List, Optional, Tuple

from . import sym
from .model import AnalysisError
from .sym import T, const, param

FILTER = T("builtin", ("filter",))
MAP = T("builtin", ("map",))
MATERIALISERS = {"list", "tuple", "sorted", "reversed", "len", "max", "min", "sum", "set", "frozenset", "dict"}


@dataclass
class Stage:
    kind: str                 # filter | map | call:<name> | comp
    fn: Optional[T]           # predicate / mapping function term
    cond: Tuple[Tuple[T, bool], ...]     # applied iff all of these hold (empty = always)

    def describe(self) -> str:
        c = " and ".join((sym.pretty(x) if v else f"not {sym.pretty(x)}") for x, v in self.cond) or "always"
        return f"{self.kind}({sym.pretty(self.fn) if self.fn is not None else ''}) when {c}"


def parse(t: T, cond=()) -> Tuple[T, List[Stage]]:
    """Return (source term, stages applied to it in order)."""
    if t.op == "call" and t.a[0] == T("global", ("itertools.filterfalse",)) and len(t.a[1]) == 2 and not t.a[2]:
        # filterfalse(p, it) keeps the elements for which p is false: a filter stage with the negated predicate
        base, stages = parse(t.a[1][1], cond)
        stages.append(Stage("filter", T("neg-pred", (t.a[1][0],)), tuple(cond)))
        return base, stages
    if t.op == "call" and t.a[0] in (FILTER, MAP) and len(t.a[1]) == 2 and not t.a[2]:
        base, stages = parse(t.a[1][1], cond)
        stages.append(Stage("filter" if t.a[0] == FILTER else "map", t.a[1][0], tuple(cond)))
        return base, stages
    if t.op == "call" and t.a[0].op == "builtin" and t.a[0].a[0] in MATERIALISERS and t.a[1]:
        base, stages = parse(t.a[1][0], cond)
        stages.append(Stage("call:" + t.a[0].a[0], None, tuple(cond)))
        return base, stages
    if t.op == "comp" and len(t.a[2]) == 1:
        elemvar, it, conds = t.a[2][0]
        base, stages = parse(it, cond)
        if t.a[1] == elemvar and conds:
            for c in conds:
                stages.append(Stage("filter", T("comp-pred", (elemvar, c)), tuple(cond)))
            if t.a[0] != "gen":
                # [x for x in stream if p(x)]: the filter, and the whole stream read before the first element is handed on
                stages.append(Stage("call:" + t.a[0], None, tuple(cond)))
        else:
            stages.append(Stage("genexp" if t.a[0] == "gen" else "comp", t, tuple(cond)))
        return base, stages
    if t.op == "ite":
        c, a, b = t.a
        ba, sa = parse(a, cond + ((c, True),))
        bb, sb = parse(b, cond + ((c, False),))
        if ba != bb:
            raise AnalysisError(f"conditional pipeline with two different sources: {sym.pretty(ba)[:60]} / {sym.pretty(bb)[:60]}")
        # the common prefix is unconditional (w.r.t. c); the rest keeps its branch condition
        n = 0
        while n < len(sa) and n < len(sb) and sa[n].kind == sb[n].kind and sa[n].fn == sb[n].fn \
                and _strip(sa[n].cond, c) == _strip(sb[n].cond, c):
            n += 1
        out = [Stage(s.kind, s.fn, _strip(s.cond, c)) for s in sa[:n]]
        out.extend(sa[n:])
        out.extend(sb[n:])
        return ba, out
    return t, []


def _strip(cond, c):
    return tuple((x, v) for x, v in cond if x != c)


# ------------------------------------------------------------ predicate normal form
COMMUTATIVE_CMP = {"==", "!="}
NEG = {"==": "!=", "!=": "==", "in": "not in", "not in": "in", "is": "is not", "is not": "is", "<": ">=", ">=": "<",
       ">": "<=", "<=": ">"}
LANG_OPS = {"attr", "sub", "const", "param", "bound", "cmp", "bool", "not", "bin", "tuple", "list", "call", "class",
            "builtin", "global", "elem", "exists", "ite", "mut"}
LANG_CALLS = {"isinstance", "str", "int", "any", "all", "filter"}


def normalise(t: T, bound_name: str = "x") -> T:
    """Canonical form of a predicate body: bound variable renamed, negations pushed inward, operands of
    commutative operators sorted."""
    def _boolean(y: T) -> bool:
        return y.op in ("cmp", "bool", "not") or (y.op == "call" and y.a[0] in (T("builtin", ("isinstance",)), T("builtin", ("bool",)),
                                                                               T("builtin", ("any",)), T("builtin", ("all",))))

    def go(x: T, neg: bool) -> T:
        if x.op == "not":
            return go(x.a[0], not neg)
        if x.op == "call" and x.a[0] == T("builtin", ("bool",)) and len(x.a[1]) == 1 and not x.a[2]:
            return go(x.a[1][0], neg)           # bool(x) as a condition is x
        if x.op == "cmp" and x.a[0] in ("==", "!=", "is", "is not"):
            # `isinstance(r, C) == False` is `not isinstance(r, C)` (a truth value compared with a truth value)
            for b_, y_ in ((x.a[1], x.a[2]), (x.a[2], x.a[1])):
                if b_.op == "const" and isinstance(b_.a[0], bool) and _boolean(y_):
                    same = (x.a[0] in ("==", "is")) == b_.a[0]
                    return go(y_, neg if same else not neg)
        if x.op == "bool":
            op = x.a[0]
            items = [go(i, neg) for i in x.a[1]]
            if neg:
                op = "or" if op == "and" else "and"
            flat = []
            for i in items:
                if i.op == "bool" and i.a[0] == op:
                    flat.extend(i.a[1])
                else:
                    flat.append(i)
            flat = sorted(set(flat), key=sym.pretty)
            return flat[0] if len(flat) == 1 else T("bool", (op, tuple(flat)))
        if x.op == "cmp":
            op, l, r = x.a
            if op in ("in", "not in") and r.op == "bool" and r.a[0] == "or" and len(r.a[1]) == 2 and (
                    (r.a[1][1].op in ("tuple", "list") and not r.a[1][1].a[0]) or r.a[1][1] in (sym.const(()), sym.const(""), sym.const(frozenset()))):
                r = r.a[1][0]           # `x in (xs or ())`: a missing / empty collection has no members either way
            l, r = val(l), val(r)
            if neg:
                op = NEG[op]
            if op in COMMUTATIVE_CMP and sym.pretty(l) > sym.pretty(r):
                l, r = r, l
            if op in ("in", "not in") and r.op in ("tuple", "list", "set") and not any(i.op == "star" for i in r.a[0]):
                # membership in a literal does not depend on the order (or kind) of the literal; in a short one it is the
                # disjunction of the equalities (`x in (a, b)` is `x == a or x == b`)
                items_ = sorted(set(r.a[0]), key=sym.pretty)
                if 1 <= len(items_) <= 4:
                    eqs = [go(T("cmp", ("==" if op == "in" else "!=", l, i_)), False) for i_ in items_]
                    return eqs[0] if len(eqs) == 1 else mk("or" if op == "in" else "and", eqs)
                r = T("tuple", (tuple(items_),))
            return T("cmp", (op, l, r))
        v = val(x)
        return T("not", (v,)) if neg else v

    def val(x: T) -> T:
        if x.op == "bound" and len(x.a) == 1:
            return x                      # already canonical (normalise is idempotent)
        if x.op in ("bound", "elem"):
            return T("bound", (bound_name,))
        ex = _exists(x)
        if ex is not None:
            coll, pred = ex
            return T("exists", (val(coll), normalise(pred, bound_name + "'")))
        if x.op in ("cmp", "bool", "not"):
            return go(x, False)
        if x.op == "lambda":
            return T("lambda", (0, val(x.a[1]))) if len(x.a) > 1 else x
        return T(x.op, tuple(_val_any(e) for e in x.a))

    def _val_any(e):
        if isinstance(e, T):
            return val(e)
        if isinstance(e, tuple):
            return tuple(_val_any(i) for i in e)
        return e

    TRUE, FALSE = const(True), const(False)

    def negate(x: T) -> T:
        return go(T("not", (x,)), False)

    def mk(op: str, items) -> T:
        flat = []
        for i in items:
            if i.op == "bool" and i.a[0] == op:
                flat.extend(i.a[1])
            else:
                flat.append(i)
        unit, zero = (TRUE, FALSE) if op == "and" else (FALSE, TRUE)
        if any(i == zero for i in flat):
            return zero
        flat = sorted({i for i in flat if i != unit}, key=sym.pretty)
        if not flat:
            return unit
        return flat[0] if len(flat) == 1 else T("bool", (op, tuple(flat)))

    def boolish(x: T) -> bool:
        return x.op in ("cmp", "bool", "not", "exists") or x in (TRUE, FALSE) or \
            (x.op == "call" and x.a[0].op == "builtin" and x.a[0].a[0] in ("isinstance", "any", "all", "bool", "callable"))

    def tidy(x: T) -> T:
        """Boolean-valued conditionals become and/or; a disjunct is simplified knowing the other disjuncts are false
        (`A or (B and not A)` is `A or B`), a conjunct knowing the others are true."""
        if x.op == "ite":
            c, a, b = x.a
            a, b = tidy(a), tidy(b)
            c = tidy(go(c, False))
            if a == TRUE:
                return tidy(mk("or", [c, b]))
            if a == FALSE:
                return tidy(mk("and", [negate(c), b]))
            if b == TRUE:
                return tidy(mk("or", [negate(c), a]))
            if b == FALSE:
                return tidy(mk("and", [c, a]))
            if boolish(a) and boolish(b):
                # (a if c else b) on truth values  ==  (c and a) or (not c and b)
                return tidy(mk("or", [mk("and", [c, a]), mk("and", [negate(c), b])]))
            return T("ite", (c, a, b))
        if x.op == "not" and x.a[0].op == "ite":
            inner = tidy(x.a[0])
            return x if inner.op == "ite" else negate(inner)
        if x.op == "bool":
            op = x.a[0]
            items = [tidy(i) for i in x.a[1]]
            dual = "and" if op == "or" else "or"
            changed = True
            while changed:
                changed = False
                for i, it in enumerate(items):
                    others = items[:i] + items[i + 1:]
                    if it.op == "bool" and it.a[0] == dual:
                        sub = list(it.a[1])
                        # inside `or`: the other disjuncts are false; inside `and`: the other conjuncts are true
                        # or-context: a conjunct equal to the negation of another disjunct is true (drop it), one equal to
                        # another disjunct is false (the whole conjunction is false).  and-context: a disjunct equal to the
                        # negation of another conjunct is false (drop it), one equal to another conjunct is true.
                        keep = [d for d in sub if not any(d == negate(o) for o in others)]
                        if any(d == o for d in sub for o in others):
                            new = FALSE if op == "or" else TRUE
                        else:
                            new = mk(dual, keep) if len(keep) != len(sub) else it
                        if new != it:
                            items[i] = new
                            changed = True
            return mk(op, items)
        return x

    out = go(t, False)
    if any(y.op == "ite" for y in sym.walk(out)) or out.op == "bool":
        out2 = tidy(out)
        if out2 != out:
            out = go(out2, False)
    return out


def _exists(x: T):
    """any(filter(pred, S)) / any(pred for v in S) / any(v for v in S if pred)  ->  (S, pred body)."""
    if not (x.op == "call" and x.a[0] == T("builtin", ("any",)) and len(x.a[1]) == 1 and not x.a[2]):
        return None
    a = x.a[1][0]
    if a.op == "call" and a.a[0] == FILTER and len(a.a[1]) == 2:
        body = predicate_body(a.a[1][0])
        if body is not None:
            return a.a[1][1], body
    if a.op == "comp" and len(a.a[2]) == 1:
        elemvar, it, conds = a.a[2][0]
        if not conds:
            return it, a.a[1]
        if a.a[1] == elemvar:
            return it, conds[0] if len(conds) == 1 else T("bool", ("and", tuple(conds)))
    return None


def conjuncts(cond) -> frozenset:
    """Normalised conjunct set of a path condition ((term, polarity), ...)."""
    out = set()
    for c, v in cond:
        n = normalise(c if v else T("not", (c,)))
        if n.op == "bool" and n.a[0] == "and":
            out.update(n.a[1])
        elif n != const(True):
            out.add(n)
    return frozenset(out)


def predicate_body(fn: T) -> Optional[T]:
    """Body of a lambda / comprehension predicate with its parameter as ('bound', name)."""
    if fn.op == "lambda" and len(fn.a) > 1:
        return fn.a[1]
    if fn.op == "comp-pred":
        return fn.a[1]
    if fn.op == "neg-pred":
        inner = predicate_body(fn.a[0])
        return None if inner is None else T("not", (inner,))
    return None


def resolve_predicate(repo, interp, ci, fn: T, effects_out: Optional[list] = None) -> Optional[T]:
    """Like predicate_body, but also resolves predicates given by name: a bound method of the facade, a module-level
    function, functools.partial over either (leading arguments fixed), and the negation used by filterfalse.  The element
    is ('bound', 'elem', 0).  Effects of a named predicate's body are appended to effects_out."""
    body = predicate_body(fn)
    if body is not None:
        return body
    X = T("bound", ("elem", 0))
    if fn.op == "neg-pred":
        inner = resolve_predicate(repo, interp, ci, fn.a[0], effects_out)
        return None if inner is None else T("not", (inner,))
    fixed: tuple = ()
    fixed_kw: tuple = ()
    if fn.op == "call" and fn.a[0] == T("global", ("functools.partial",)) and fn.a[1]:
        fixed, fixed_kw, fn = tuple(fn.a[1][1:]), tuple(fn.a[2]), fn.a[1][0]
    SELF = param("self")
    target = None
    if fn.op == "attr" and fn.a[0] == SELF and ci is not None and fn.a[1] in ci.methods:
        target = (ci.module, ci.methods[fn.a[1]], ci, 1)
    elif fn.op == "func":
        found = repo.lookup(fn.a[0])
        if found and found[0] == "func":
            target = (found[1], found[2], None, 0)
    elif fn.op == "lambda" and len(fn.a) == 1:
        return None
    recv_obj = None
    if target is None and fn.op == "attr" and fn.a[0].op == "new":
        # a bound method of a helper object built in the listing (`helpers.is_reported`): its body over that object
        f_ = repo.lookup(fn.a[0].a[0])
        if f_ and f_[0] == "class" and fn.a[1] in f_[2].methods:
            target = (f_[2].module, f_[2].methods[fn.a[1]], f_[2], 1)
            recv_obj = fn.a[0]
    if target is None:
        return None
    mod, fnode, cls, skip = target
    names = [a.arg for a in fnode.args.args][skip:]
    bind = {}
    if recv_obj is not None and fnode.args.args:
        bind[fnode.args.args[0].arg] = recv_obj
    for nme, v in zip(names, fixed):
        bind[nme] = v
    rest = [n for n in names[len(fixed):] if n not in dict(fixed_kw)]
    for k, v in fixed_kw:
        bind[k] = v
    if len(rest) != 1:
        return None
    bind[rest[0]] = X
    rec = interp.run(mod, fnode, bind, self_cls=cls)
    if rec.notes:
        return None
    if effects_out is not None:
        effects_out.extend(rec.effects)
    return rec.return_term()


def in_language(t: T) -> bool:
    for x in sym.walk(t):
        if x.op not in LANG_OPS and x.op != "lambda":
            return False
        if x.op == "call":
            f = x.a[0]
            if not (f.op == "builtin" and f.a[0] in LANG_CALLS):
                return False
    return True


def line_builder(repo, interp, public: str, conventional: str):
    """The private method that renders one line of a `formatted_*` listing, found through the public method's own
    `map(<builder>, ...)` stage (so that renaming the helper does not lose the anchor).  Returns its name."""
    ci = repo.cls("pykdebugparser", "PyKdebugParser")
    SELF = param("self")
    fn = ci.methods.get(public)
    if fn is None:
        raise AnalysisError(f"anchor vanished: PyKdebugParser.{public}")
    rec = interp.run(ci.module, fn, self_cls=ci)
    try:
        _, stages = parse(rec.return_term())
    except AnalysisError:
        stages = []
    maps = [s_ for s_ in stages if s_.kind == "map"]
    if maps:
        f = maps[-1].fn
        if f.op == "attr" and f.a[0] == SELF and f.a[1] in ci.methods:
            return f.a[1]
        # map(lambda x: self.<builder>(x, ...), ...): the call made in the public method's own frame with the bound element
        for c in rec.calls:
            if c.func.op == "attr" and c.func.a[0] == SELF and c.func.a[1] in ci.methods and c.where.endswith("." + public) \
                    and c.args and c.args[0].op in ("bound", "elem"):
                return c.func.a[1]
    if conventional in ci.methods:
        return conventional
    raise AnalysisError(f"anchor vanished: the line builder of PyKdebugParser.{public}")
