"""The decoder registries (``handlers`` dict literals) resolved from source."""
from __future__ import annotations

import ast
from dataclasses import dataclass
from typing import Dict, List, Optional, Tuple

from . import sym
from .model import AnalysisError, ModuleInfo, Repo, PACKAGE

FAMILIES = ["bsd", "dyld", "fsystem", "mach", "perf", "trace", "turnstile"]


@dataclass
class Entry:
    key: str
    family: str
    module: ModuleInfo
    func_name: str
    func: ast.FunctionDef
    bound_pos: Tuple[ast.expr, ...]           # partial(...) positional args (AST)
    bound_kw: Tuple[Tuple[str, ast.expr], ...]
    lineno: int
    value_src: str
    opaque: bool = False       # the value is not `f` / `partial(f, ...)` over a module-level function: it is evaluated symbolically

    @property
    def where(self) -> str:
        return f"{self.module.name}.handlers[{self.key!r}]"


def _wrapper(v: ast.expr, key: str, lineno: int) -> ast.FunctionDef:
    """def <key>(parser, events): return (<registry value>)(parser, events)   - what the dispatcher does with the entry"""
    src = f"def __registry_entry__(parser, events):\n    return (__VALUE__)(parser, events)\n"
    fn = ast.parse(src).body[0]
    import copy

    class _Sub(ast.NodeTransformer):
        def visit_Name(self, n):
            return copy.deepcopy(v) if n.id == "__VALUE__" else n
    fn = _Sub().visit(fn)
    for n in ast.walk(fn):
        if hasattr(n, "lineno") or isinstance(n, (ast.expr, ast.stmt)):
            n.lineno = lineno
            n.col_offset = 0
            n.end_lineno = lineno
            n.end_col_offset = 0
    ast.fix_missing_locations(fn)
    fn.name = "entry_" + "".join(ch if ch.isalnum() else "_" for ch in key)
    return fn


def _resolve_value(repo: Repo, mod: ModuleInfo, key: str, family: str, v: ast.expr, lineno: int) -> Entry:
    try:
        return _resolve_direct(repo, mod, key, family, v, lineno)
    except AnalysisError:
        # a closure made by a factory, a helper call such as nocancel(handle_x), a name bound to either ...: the value
        # is evaluated by the interpreter when the entry is run
        name = v.id if isinstance(v, ast.Name) else (ast.unparse(v.func) if isinstance(v, ast.Call) else ast.unparse(v))[:40]
        return Entry(key, family, mod, name, _wrapper(v, key, lineno), (), (), lineno, ast.unparse(v), True)


def _resolve_direct(repo: Repo, mod: ModuleInfo, key: str, family: str, v: ast.expr, lineno: int) -> Entry:
    pos: Tuple[ast.expr, ...] = ()
    kw: Tuple[Tuple[str, ast.expr], ...] = ()
    fn_node = v
    if isinstance(v, ast.Call):
        dn = repo.dotted(mod, v.func)
        if dn != "functools.partial" or not v.args:
            raise AnalysisError(f"{mod.name}.handlers[{key!r}]: unsupported registry value {ast.unparse(v)}")
        fn_node = v.args[0]
        pos = tuple(v.args[1:])
        kw = tuple((k.arg, k.value) for k in v.keywords)
    dn = repo.dotted(mod, fn_node)
    found = repo.lookup(dn) if dn else None
    if not found or found[0] != "func":
        raise AnalysisError(f"{mod.name}.handlers[{key!r}]: value does not resolve to a function: {ast.unparse(v)}")
    return Entry(key, family, found[1], found[2].name, found[2], pos, kw, lineno, ast.unparse(v))


def load_family(repo: Repo, family: str) -> List[Entry]:
    mod = repo.module(f"trace_handlers.{family}")
    node = mod.constants.get("handlers")
    if node is None and "handlers" in mod.imports:
        # the family is a package: its registry is defined in one of its modules and re-exported
        found = repo.lookup(f"{mod.name}.handlers")
        if found and found[0] == "const":
            mod, node = found[1], found[2]
    if isinstance(node, ast.Call) and isinstance(node.func, ast.Name) and node.func.id == "dict" and not node.args \
            and all(k.arg for k in node.keywords):
        # dict(NAME=f, ...) is {'NAME': f, ...}
        lit = ast.Dict(keys=[ast.copy_location(ast.Constant(k.arg), k.value) for k in node.keywords],
                       values=[k.value for k in node.keywords])
        node = ast.copy_location(lit, node)
    if node is not None and (not isinstance(node, ast.Dict) or any(k is None for k in node.keys)):
        # (a literal with `**{...}` parts is computed as well: the parts are evaluated and spliced in where they stand)
        built = _computed_registry(repo, mod, family, node)
        if built is not None:
            return built
    if node is None or not isinstance(node, ast.Dict):
        raise AnalysisError(f"anchor vanished: {mod.name}.handlers is not a dict literal")
    out = []
    for k, v in zip(node.keys, node.values):
        if not (isinstance(k, ast.Constant) and isinstance(k.value, str)):
            raise AnalysisError(f"{mod.name}.handlers: non-constant key {ast.unparse(k) if k else '**'}")
        out.append(_resolve_value(repo, mod, k.value, family, v, k.lineno))
    out.extend(_decorator_registrations(repo, mod, family))
    return out


def _computed_registry(repo: Repo, mod: ModuleInfo, family: str, node: ast.expr) -> Optional[List[Entry]]:
    """`handlers = build(TABLE, ...)`: the registry is what the call evaluates to.  A value that is a module-level function
    (or a partial over one) is an ordinary entry; a generated closure is an opaque entry that the interpreter reads back
    from the computed table when the entry is run."""
    interp = sym.Interp(repo)
    table = interp.computed_table(mod, "handlers")
    if table is None:
        return None
    out: List[Entry] = []
    lineno = getattr(node, "lineno", 1)
    for k, v in table.a[0]:
        if not isinstance(k.a[0], str):
            raise AnalysisError(f"{mod.name}.handlers: non-string key {k.a[0]!r}")
        key = k.a[0]
        found = repo.lookup(v.a[0]) if v.op == "func" else None
        if found and found[0] == "func":
            out.append(Entry(key, family, found[1], found[2].name, found[2], (), (), lineno, f"{found[2].name} (computed table)"))
            continue
        if v.op == "call" and v.a[0] == sym.T("global", ("functools.partial",)) and v.a[1] and v.a[1][0].op == "func":
            found = repo.lookup(v.a[1][0].a[0])
            if found and found[0] == "func":
                pos = tuple(_term_to_ast(repo, mod, x) for x in v.a[1][1:])
                kw = tuple((k_, _term_to_ast(repo, mod, x)) for k_, x in v.a[2] if k_ != "**")
                for n_ in list(pos) + [x for _, x in kw]:
                    for sub in ast.walk(n_):
                        sub.lineno = sub.end_lineno = lineno
                        sub.col_offset = sub.end_col_offset = 0
                out.append(Entry(key, family, found[1], found[2].name, found[2], pos, kw, lineno,
                                 f"partial({found[2].name}, ...) (computed table)"))
                continue
        if v.op not in ("lambda", "call", "func"):
            raise AnalysisError(f"{mod.name}.handlers[{key!r}] is computed to something that is not callable: {sym.pretty(v)[:80]}")
        read_back = ast.Subscript(value=ast.Name(id="handlers", ctx=ast.Load()), slice=ast.Constant(key), ctx=ast.Load())
        name = "generated"
        out.append(Entry(key, family, mod, f"<{name} {key}>", _wrapper(read_back, key, lineno), (), (), lineno,
                         f"handlers[{key!r}] (computed table)", True))
    return out


def _term_to_ast(repo: Repo, mod: ModuleInfo, t: "sym.T") -> ast.expr:
    """A bound argument computed by the registration code, written as an expression of the registry's module."""
    if t.op == "const":
        return ast.Constant(t.a[0])
    if t.op in ("class", "func"):
        short = t.a[0].rsplit(".", 1)[1]
        if repo.dotted(mod, ast.Name(id=short, ctx=ast.Load())) == t.a[0] or \
                (repo.lookup(f"{mod.name}.{short}") or (None, None, None))[2] is (repo.lookup(t.a[0]) or (None, None, None))[2]:
            return ast.Name(id=short, ctx=ast.Load())
    if t.op == "enum":
        return ast.Attribute(value=_term_to_ast(repo, mod, sym.T("class", (t.a[0],))), attr=t.a[1], ctx=ast.Load())
    if t.op in ("tuple", "list") and not any(x.op == "star" for x in t.a[0]):
        elts = [_term_to_ast(repo, mod, x) for x in t.a[0]]
        return ast.Tuple(elts=elts, ctx=ast.Load()) if t.op == "tuple" else ast.List(elts=elts, ctx=ast.Load())
    raise AnalysisError(f"{mod.name}: a value bound at registration cannot be written as an expression: {sym.pretty(t)[:80]}")


def _decorator_registrations(repo: Repo, mod: ModuleInfo, family: str) -> List[Entry]:
    """Entries added by registration decorators (`@register('NAME', no_cancel=True)` over a handler): each decorated
    module-level function defined after `handlers = ...` is passed through its decorators by the symbolic interpreter,
    and the item stores into the module's `handlers` that this performs are the registrations - whatever the decorator
    is called and however it computes the key and the value."""
    start = mod.const_lines.get("handlers", 0)
    decorated = [(f.lineno, name, f) for name, f in mod.functions.items() if f.decorator_list and f.lineno > start]
    if not decorated:
        return []
    interp = sym.Interp(repo)
    REG = sym.T("global", (f"{mod.name}.handlers",))
    out: List[Entry] = []
    for lineno, name, fnode in sorted(decorated):
        if all(isinstance(d, ast.Name) and d.id in ("staticmethod", "classmethod", "dataclass") for d in fnode.decorator_list):
            continue
        rec = sym.Record()
        fr = sym._Frame(interp, mod, fnode, None, rec, f"{mod.name}.<module>", 0, ())
        st = sym.State({}, {}, ())
        me = sym.T("func", (f"{mod.name}.{name}",))
        val = me
        at = {}
        for deco in reversed(fnode.decorator_list):
            n0 = len(rec.effects)
            val = fr.call(fr.eval(deco, st), (val,), (), st, deco)
            for e in rec.effects[n0:]:
                at[id(e)] = deco
        for e in rec.effects:
            pth = e.path if e.path is not None else e.base
            if not (e.kind == "sub-store" and pth == REG) or any(x.op == "bound" for x in sym.walk(e.value)):
                continue            # (the second condition drops the decorator body seen with its parameter still symbolic)
            if e.pc or not (isinstance(e.key, sym.T) and e.key.op == "const" and isinstance(e.key.a[0], str)):
                raise AnalysisError(f"{mod.name}: registration of {name} at line {e.lineno} is conditional or has a computed key")
            key, v = e.key.a[0], e.value
            deco = at.get(id(e), fnode.decorator_list[0])
            text = f"@{ast.unparse(deco)[:60]} def {name}"
            pos, kw, target = (), (), v
            if v.op == "call" and v.a[0] == sym.T("global", ("functools.partial",)) and v.a[1]:
                target = v.a[1][0]
                pos = tuple(_term_to_ast(repo, mod, x) for x in v.a[1][1:])
                kws = []
                for k_, x in v.a[2]:
                    if k_ == "**":
                        if x.op != "dict" or not all(kk.op == "const" and isinstance(kk.a[0], str) for kk, _ in x.a[0]):
                            raise AnalysisError(f"{mod.name}: registration of {name}: keyword arguments are not literal")
                        kws.extend((kk.a[0], _term_to_ast(repo, mod, vv)) for kk, vv in x.a[0])
                    else:
                        kws.append((k_, _term_to_ast(repo, mod, x)))
                kw = tuple(kws)
            found = repo.lookup(target.a[0]) if target.op == "func" else None
            if not found or found[0] != "func":
                raise AnalysisError(f"{mod.name}: {key!r} is registered to something that is not a module-level function: "
                                    f"{sym.pretty(v)[:80]}")
            for n_ in list(pos) + [x for _, x in kw]:
                for sub in ast.walk(n_):
                    sub.lineno = sub.end_lineno = deco.lineno
                    sub.col_offset = sub.end_col_offset = 0
            out.append(Entry(key, family, found[1], found[2].name, found[2], pos, kw, deco.lineno, text))
    return out


def families_in_parser(repo: Repo) -> List[str]:
    """Families merged into TracesParser.handlers.

    The merge may be written in many equivalent ways (repeated ``update`` calls in ``__init__``, a helper that loops over
    a tuple of tables, ``{**a, **b}``, ``ChainMap`` ...).  What is decided here is only WHICH registries take part:
    every ``<package>.trace_handlers.<family>.handlers`` object imported by ``traces_parser`` and referenced anywhere in
    the module outside the import statements.  The order of first reference is kept; since rule C17/R2 shows the key
    sets to be pairwise disjoint the order has no effect on the merged table."""
    tp = repo.module("traces_parser")
    aliases = {}
    for local, target in tp.imports.items():
        if target.endswith(".handlers") and ".trace_handlers." in target:
            aliases[local] = target.split(".")[-2]
    # the family MODULES imported instead (`from ...trace_handlers import bsd, dyld`): their registries are `bsd.handlers`, or the
    # `.handlers` of the loop variable of a loop over a tuple of the modules
    mod_aliases = {}
    for local, target in tp.imports.items():
        if target.startswith(f"{PACKAGE}.trace_handlers.") and target.count(".") == 2 and target in repo.modules:
            mod_aliases[local] = target.split(".")[-1]
    if mod_aliases and not aliases:
        uses_attr = any(isinstance(n, ast.Attribute) and n.attr == "handlers" for n in ast.walk(tp.tree))
        if uses_attr:
            refs_m = sorted(((n.lineno, n.col_offset, n.id) for n in ast.walk(tp.tree)
                             if isinstance(n, ast.Name) and isinstance(n.ctx, ast.Load) and n.id in mod_aliases), key=lambda r: r[:2])
            order_m: List[str] = []
            for _, _, name in refs_m:
                if mod_aliases[name] not in order_m:
                    order_m.append(mod_aliases[name])
            # a module only mentioned as `trace.handlers` in the domain test still has to be merged: it counts when it is an
            # element of a tuple / list (the table of modules) or the base of `.handlers` inside a call
            merged = set()
            for node in ast.walk(tp.tree):
                if isinstance(node, (ast.Tuple, ast.List)):
                    merged |= {mod_aliases[e.id] for e in node.elts if isinstance(e, ast.Name) and e.id in mod_aliases}
                if isinstance(node, ast.Call):
                    for a in list(node.args) + [k.value for k in node.keywords]:
                        for n in ast.walk(a):
                            if isinstance(n, ast.Attribute) and n.attr == "handlers" and isinstance(n.value, ast.Name) \
                                    and n.value.id in mod_aliases:
                                merged.add(mod_aliases[n.value.id])
            return [f for f in order_m if f in merged]
    if not aliases:
        return []
    order: List[str] = []
    merged_names = set()
    for node in ast.walk(tp.tree):
        if isinstance(node, (ast.Import, ast.ImportFrom)):
            continue
        if isinstance(node, ast.Name) and isinstance(node.ctx, ast.Load) and node.id in aliases:
            merged_names.add(node.id)
    # keep source order of first reference
    refs = sorted(((n.lineno, n.col_offset, n.id) for n in ast.walk(tp.tree)
                   if isinstance(n, ast.Name) and isinstance(n.ctx, ast.Load) and n.id in aliases), key=lambda r: r[:2])
    # a family only counts as merged if its table flows into something other than a membership test
    flows = set()
    for node in ast.walk(tp.tree):
        if isinstance(node, ast.Call):
            for a in list(node.args) + [k.value for k in node.keywords]:
                for n in ast.walk(a):
                    if isinstance(n, ast.Name) and n.id in aliases:
                        flows.add(n.id)
        if isinstance(node, ast.Dict):
            for k, v in zip(node.keys, node.values):
                if k is None:
                    for n in ast.walk(v):
                        if isinstance(n, ast.Name) and n.id in aliases:
                            flows.add(n.id)
        if isinstance(node, (ast.Tuple, ast.List)):
            for e in node.elts:
                if isinstance(e, ast.Name) and e.id in aliases:
                    flows.add(e.id)
        if isinstance(node, ast.BinOp) and isinstance(node.op, ast.BitOr):
            for n in (node.left, node.right):
                if isinstance(n, ast.Name) and n.id in aliases:
                    flows.add(n.id)
    for _, _, name in refs:
        fam = aliases[name]
        if name in flows and fam not in order:
            order.append(fam)
    return order


def load_all(repo: Repo) -> Dict[str, List[Entry]]:
    fams = families_in_parser(repo)
    if not fams:
        raise AnalysisError("anchor vanished: TracesParser.__init__ merges no handler registries")
    return {f: load_family(repo, f) for f in fams}


def effective(reg: Dict[str, List[Entry]]) -> Dict[str, Entry]:
    """Key -> entry after dict-literal 'last wins' inside a family and update() order across families."""
    out: Dict[str, Entry] = {}
    for fam, entries in reg.items():
        for e in entries:
            out[e.key] = e
    return out


def handler_args(interp: sym.Interp, entry: Entry) -> Dict[str, sym.T]:
    """Symbolic arguments for running an entry's handler: parser/events params + partial-bound values."""
    a = entry.func.args
    params = [p.arg for p in a.posonlyargs + a.args]
    bound: Dict[str, sym.T] = {}
    fr = sym._Frame(interp, entry.module, entry.func, None, sym.Record(), "registry", 0, ())
    st = sym.State({}, {}, ())
    pos_vals = [fr.eval(x, st) for x in entry.bound_pos]
    rest = list(params)
    for v in pos_vals:
        bound[rest.pop(0)] = v
    for k, v in entry.bound_kw:
        bound[k] = fr.eval(v, st)
        if k in rest:
            rest.remove(k)
    # the dispatcher calls handlers[name](self, events)
    if len(rest) < 2:
        raise AnalysisError(f"{entry.where}: handler takes fewer than two free positional parameters")
    bound[rest[0]] = sym.param("parser")
    bound[rest[1]] = sym.param("events")
    # remaining parameters take their defaults
    defaults = [None] * (len(params) - len(a.defaults)) + list(a.defaults)
    for name, d in zip(params, defaults):
        if name not in bound:
            if d is None:
                raise AnalysisError(f"{entry.where}: parameter {name} has no value at dispatch")
            bound[name] = fr.eval(d, st)
    return bound


def run_handler(interp: sym.Interp, entry: Entry) -> sym.Record:
    args = handler_args(interp, entry)
    return interp.run(entry.module, entry.func, args, qualname=f"{entry.module.name}.{entry.func_name}")
