"""Symbolic output templates of ``__str__`` methods.

``flatten`` turns the string-valued term produced by the symbolic interpreter
into a list of segments::

    ('lit', text) | ('hole', term, conv, spec) | ('alt', cond, segs_true, segs_false)

``variants`` expands the alternatives into flat (lit|hole) sequences with the
assumptions under which each one is produced, and ``parse_call`` splits a
call-shaped sequence ``name(p0, p1, ...)tail`` into its positions.
"""
from __future__ import annotations

from typing import Dict, List, Optional, Tuple

from .sym import T, const, truth, walk, pretty, FALSE, TRUE

Seg = tuple


# ------------------------------------------------------------ boolean helpers
def str_truth(t: T) -> Optional[bool]:
    """Truthiness of a string-valued term when it is decidable from its shape."""
    tv = truth(t)
    if tv is not None:
        return tv
    if t.op == "fstr":
        if any(p[0] == "lit" and p[1] for p in t.a[0]):
            return True
        return None
    if t.op == "bin" and t.a[0] == "+":
        l, r = str_truth(t.a[1]), str_truth(t.a[2])
        if l is True or r is True:
            return True
        if l is False and r is False:
            return False
        return None
    if t.op == "ite":
        a, b = str_truth(t.a[1]), str_truth(t.a[2])
        if a is not None and a == b:
            return a
    return None


def norm_bool(c: T) -> Tuple[T, bool]:
    """Normalise a condition to (atom, polarity)."""
    pol = True
    while True:
        if c.op == "not":
            c = c.a[0]
            pol = not pol
            continue
        if c.op == "ite":
            a, b = str_truth(c.a[1]), str_truth(c.a[2])
            if a is True and b is False:
                c = c.a[0]
                continue
            if a is False and b is True:
                c = c.a[0]
                pol = not pol
                continue
        if c.op == "call" and c.a[0] == T("builtin", ("bool",)) and len(c.a[1]) == 1:
            c = c.a[1][0]
            continue
        if c.op == "cmp" and c.a[0] in ("!=", "is not", "not in"):
            flip = {"!=": "==", "is not": "is", "not in": "in"}[c.a[0]]
            c = T("cmp", (flip, c.a[1], c.a[2]))
            pol = not pol
            continue
        if c.op == "cmp" and c.a[0] == "==" and c.a[2] == const(0):
            # x == 0  <=>  not x  (for the integer words this repository compares)
            c = c.a[1]
            pol = not pol
            continue
        return c, pol


def assume_lookup(assume: Dict[T, bool], c: T) -> Optional[bool]:
    tv = str_truth(c)
    if tv is not None:
        return tv
    atom, pol = norm_bool(c)
    tv = str_truth(atom)
    if tv is not None:
        return tv if pol else not tv
    if atom in assume:
        return assume[atom] if pol else not assume[atom]
    if atom.op == "bool":
        vals = [assume_lookup(assume, x) for x in atom.a[1]]
        if atom.a[0] == "and":
            if any(v is False for v in vals):
                r = False
            elif all(v is True for v in vals):
                r = True
            else:
                return None
        else:
            if any(v is True for v in vals):
                r = True
            elif all(v is False for v in vals):
                r = False
            else:
                return None
        return r if pol else not r
    return None


def with_assumption(assume: Dict[T, bool], c: T, value: bool) -> Dict[T, bool]:
    atom, pol = norm_bool(c)
    out = dict(assume)
    out[atom] = value if pol else not value
    # (a and b) true => a, b true ; (a or b) false => a, b false
    if atom.op == "bool":
        v = out[atom]
        if (atom.a[0] == "and" and v) or (atom.a[0] == "or" and not v):
            for x in atom.a[1]:
                out = with_assumption(out, x, v)
        else:
            # unit propagation: (a and b) false with a known true => b false; (a or b) true with a known false => b true
            decided = atom.a[0] == "or"
            rest = [x for x in atom.a[1] if assume_lookup(out, x) is not (not decided)]
            if len(rest) == 1 and assume_lookup(out, rest[0]) is None:
                out = with_assumption(out, rest[0], decided)
    return out


# ------------------------------------------------------------------ flatten
STRINGY_CALLS = {"str"}


def is_stringy(t: T) -> bool:
    if t.op == "const":
        return isinstance(t.a[0], str)
    if t.op == "fstr":
        return True
    if t.op == "bin" and t.a[0] == "+":
        return is_stringy(t.a[1]) or is_stringy(t.a[2])
    if t.op == "ite":
        # one textual side is enough: the other side is then an opaque piece of text (a hole)
        return is_stringy(t.a[1]) or is_stringy(t.a[2])
    if t.op == "call" and t.a[0].op == "attr" and t.a[0].a[1] in ("ljust", "rjust", "center", "strip", "lower", "upper",
                                                                  "format", "join", "strftime", "replace"):
        return True
    return False


def flatten(t: T, assume: Optional[Dict[T, bool]] = None) -> List[Seg]:
    assume = assume or {}
    out: List[Seg] = []
    _flat(t, assume, out)
    return _merge(out)


def _flat(t: T, assume, out: List[Seg]) -> None:
    if t.op == "const" and isinstance(t.a[0], str):
        if t.a[0]:
            out.append(("lit", t.a[0]))
        return
    if t.op == "fstr":
        for p in t.a[0]:
            if p[0] == "lit":
                out.append(("lit", p[1]))
            else:
                _, val, conv, spec = p
                if not conv and spec is None and (is_stringy(val) or _ite_stringy(val)):
                    _flat(val, assume, out)
                else:
                    out.append(("hole", resolve(val, assume), conv, spec))
        return
    if t.op == "bin" and t.a[0] == "+" and (is_stringy(t.a[1]) or is_stringy(t.a[2])):
        _flat(t.a[1], assume, out)
        _flat(t.a[2], assume, out)
        return
    if t.op == "ite":
        tv = assume_lookup(assume, t.a[0])
        if tv is True:
            _flat(t.a[1], assume, out)
            return
        if tv is False:
            _flat(t.a[2], assume, out)
            return
        if is_stringy(t.a[1]) or is_stringy(t.a[2]) or _ite_stringy(t):
            a = flatten(t.a[1], with_assumption(assume, t.a[0], True))
            b = flatten(t.a[2], with_assumption(assume, t.a[0], False))
            if a == b:
                out.extend(a)
            else:
                # factor out what both branches share:  c ? P+X+S : P+Y+S   ->   P + (c ? X : Y) + S
                pre = 0
                while pre < len(a) and pre < len(b) and a[pre] == b[pre]:
                    pre += 1
                suf = 0
                while suf < len(a) - pre and suf < len(b) - pre and a[len(a) - 1 - suf] == b[len(b) - 1 - suf]:
                    suf += 1
                mid_a, mid_b = a[pre:len(a) - suf], b[pre:len(b) - suf]
                atom, pol = norm_bool(t.a[0])
                atom = resolve(atom, assume)
                out.extend(a[:pre])
                out.append(("alt", atom, mid_a, mid_b) if pol else ("alt", atom, mid_b, mid_a))
                out.extend(a[len(a) - suf:] if suf else [])
            return
    if t.op == "call" and t.a[0] == T("builtin", ("str",)) and len(t.a[1]) == 1 and is_stringy(t.a[1][0]):
        _flat(t.a[1][0], assume, out)
        return
    # ''.join(<list built by (conditional) appends>)  ==  concatenation of the (conditional) pieces
    sep = t.a[0].a[0].a[0] if (t.op == "call" and t.a[0].op == "attr" and t.a[0].a[1] == "join" and t.a[0].a[0].op == "const"
                               and isinstance(t.a[0].a[0].a[0], str)) else None
    if sep is not None and len(t.a[1]) == 1 and not t.a[2]:
        items = listify(t.a[1][0])
        # with a non-empty separator only the shape "unconditional first piece, then (conditional) pieces" is a plain
        # concatenation:  sep.join([a] + ([b] if c else []))  ==  a + (sep + b if c else '')
        # (every element handed to str.join is a string, whatever expression produced it)
        if items is not None and sep and not (items and not items[0][1]):
            items = None
        if items is not None:
            for i, (elem, conds) in enumerate(items):
                segs = flatten(elem, assume)
                if sep and i:
                    segs = _merge([("lit", sep)] + segs)
                for c in reversed(conds):
                    tv = assume_lookup(assume, c[0])
                    if tv is None:
                        atom, pol = norm_bool(c[0])
                        want = c[1] if pol else not c[1]
                        segs = [("alt", resolve(atom, assume), segs, [])] if want else [("alt", resolve(atom, assume), [], segs)]
                    elif tv != c[1]:
                        segs = []
                out.extend(segs)
            return
    out.append(("hole", resolve(t, assume), "", None))


def listify(t: T):
    """[(element term, ((cond, polarity), ...))] for a list built by literals, (conditional) appends and concatenation;
    None when the construction is not of that kind."""
    if t.op == "list":
        if any(x.op == "star" for x in t.a[0]):
            return None
        return [(x, ()) for x in t.a[0]]
    if t.op == "mut" and t.a[1] == "append" and len(t.a[2]) == 1:
        base = listify(t.a[0])
        return None if base is None else base + [(t.a[2][0], ())]
    if t.op == "mut" and t.a[1] == "extend" and len(t.a[2]) == 1:
        base, more = listify(t.a[0]), listify(t.a[2][0])
        return None if base is None or more is None else base + more
    if t.op == "bin" and t.a[0] == "+":
        l, r = listify(t.a[1]), listify(t.a[2])
        return None if l is None or r is None else l + r
    if t.op == "tuple" and not any(x.op == "star" for x in t.a[0]):
        return [(x, ()) for x in t.a[0]]
    if t.op == "call" and t.a[0].op == "builtin" and t.a[0].a[0] in ("list", "tuple") and len(t.a[1]) == 1 and not t.a[2]:
        return listify(t.a[1][0])
    if t.op == "call" and t.a[0] == T("global", ("itertools.compress",)) and len(t.a[1]) == 2 and not t.a[2]:
        # compress((a, b), (ca, cb)): a if ca, b if cb - in order
        data, sel = t.a[1]
        if data.op in ("tuple", "list") and sel.op in ("tuple", "list") and len(data.a[0]) == len(sel.a[0]) \
                and not any(x.op == "star" for x in data.a[0] + sel.a[0]):
            return [(d, ((c, True),)) for d, c in zip(data.a[0], sel.a[0])]
        return None
    if t.op == "comp" and t.a[0] in ("list", "gen") and len(t.a[2]) == 1 and not t.a[2][0][2]:
        # [f(x) for x in L] over a list of that kind: f of each of its elements, under the element's conditions
        evar, src, _ = t.a[2][0]
        inner = listify(src)
        if inner is None:
            return None
        from . import sym as _sym
        return [(_sym.subst(t.a[1], {evar: e}), cd) for e, cd in inner]
    if t.op == "ite":
        a, b = listify(t.a[1]), listify(t.a[2])
        if a is None or b is None:
            return None
        n = 0
        while n < len(a) and n < len(b) and a[n] == b[n]:
            n += 1
        ra, rb = a[n:], b[n:]
        if ra and len(ra) == len(rb) and all(x[1] == y[1] for x, y in zip(ra, rb)):
            # the same number of pieces either way: each piece is one element whose value depends on the condition
            return a[:n] + [(T("ite", (t.a[0], x[0], y[0])), x[1]) for x, y in zip(ra, rb)]
        return a[:n] + [(e, ((t.a[0], True),) + cd) for e, cd in ra] + [(e, ((t.a[0], False),) + cd) for e, cd in rb]
    return None


def _ite_stringy(t: T) -> bool:
    return t.op == "ite" and (is_stringy(t.a[1]) or _ite_stringy(t.a[1]) or is_stringy(t.a[2]) or _ite_stringy(t.a[2]))


def resolve(t: T, assume: Dict[T, bool]) -> T:
    """Resolve ite sub-terms whose condition is decided by the assumptions."""
    if not assume:
        return t

    def go(x):
        if isinstance(x, T):
            if x.op == "ite":
                tv = assume_lookup(assume, x.a[0])
                if tv is True:
                    return go(x.a[1])
                if tv is False:
                    return go(x.a[2])
            na = go(x.a)
            return x if na is x.a else T(x.op, na)
        if isinstance(x, tuple):
            new = tuple(go(e) for e in x)
            return x if all(n is o for n, o in zip(new, x)) else new
        return x

    return go(t)


def _merge(segs: List[Seg]) -> List[Seg]:
    out: List[Seg] = []
    for s in segs:
        if s[0] == "lit":
            if not s[1]:
                continue
            if out and out[-1][0] == "lit":
                out[-1] = ("lit", out[-1][1] + s[1])
                continue
        out.append(s)
    return out


# ----------------------------------------------------------------- variants
def variants(segs: List[Seg], limit: int = 256) -> List[Tuple[Tuple[Tuple[T, bool], ...], List[Seg]]]:
    """All flat (lit|hole) sequences with the (cond, value) choices that select them."""
    results: List[Tuple[tuple, List[Seg]]] = [((), [])]
    for s in segs:
        if s[0] != "alt":
            for _, acc in results:
                acc.append(s)
            continue
        _, cond, a, b = s
        new = []
        for choices, acc in results:
            known = dict(choices)
            branches = []
            if cond in known:
                branches = [(known[cond], a if known[cond] else b)]
            else:
                branches = [(True, a), (False, b)]
            for val, branch in branches:
                for sub_choices, sub in variants(branch, limit):
                    ok = True
                    merged = dict(choices)
                    merged[cond] = val
                    for c, v in sub_choices:
                        if c in merged and merged[c] != v:
                            ok = False
                            break
                        merged[c] = v
                    if ok:
                        new.append((tuple(merged.items()), list(acc) + sub))
        results = new
        if len(results) > limit:
            raise ValueError("too many template variants")
    return [(c, _merge(acc)) for c, acc in results]


# ---------------------------------------------------------------- call shape
class CallShape:
    def __init__(self, name: str, positions: List[List[Seg]], tail: List[Seg], closed: bool, depths=None):
        self.name = name
        self.positions = positions
        self.tail = tail
        self.closed = closed
        self.depths = depths or []      # per position: list of (hole term, paren depth, inside double quotes)

    def holes_at(self, p: int):
        return self.depths[p] if p < len(self.depths) else []


def parse_call(flat: List[Seg]) -> Optional[CallShape]:
    """Split ``name(p0, p1, ...)tail``.  Returns None when the text is not call-shaped.

    The name is the leading literal text up to the first '('; it must look like an
    identifier (possibly followed by further identifier characters coming from literal
    alternatives already expanded by ``variants``).
    """
    if not flat or flat[0][0] != "lit":
        return None
    first = flat[0][1]
    idx = first.find("(")
    if idx <= 0:
        return None
    name = first[:idx]
    if not all(ch.isalnum() or ch == "_" for ch in name):
        return None
    positions: List[List[Seg]] = [[]]
    depths: List[list] = [[]]
    depth = 1
    rest: List[Seg] = [("lit", first[idx + 1:])] + list(flat[1:])
    tail: List[Seg] = []
    closed = False
    i = 0
    in_dq = False
    while i < len(rest):
        s = rest[i]
        if closed:
            tail.append(s)
            i += 1
            continue
        if s[0] == "hole":
            positions[-1].append(s)
            depths[-1].append((s[1], depth, in_dq))
            i += 1
            continue
        text = s[1]
        buf = ""
        j = 0
        while j < len(text):
            ch = text[j]
            if ch == '"':
                in_dq = not in_dq
                buf += ch
            elif in_dq:
                buf += ch
            elif ch == "(":
                depth += 1
                buf += ch
            elif ch == ")":
                depth -= 1
                if depth == 0:
                    if buf:
                        positions[-1].append(("lit", buf))
                    buf = ""
                    closed = True
                    remaining = text[j + 1:]
                    if remaining:
                        tail.append(("lit", remaining))
                    break
                buf += ch
            elif ch == "," and depth == 1:
                if buf:
                    positions[-1].append(("lit", buf))
                buf = ""
                positions.append([])
                depths.append([])
                # swallow one following space
                if j + 1 < len(text) and text[j + 1] == " ":
                    j += 1
            else:
                buf += ch
            j += 1
        if not closed and buf:
            positions[-1].append(("lit", buf))
        i += 1
    if not closed:
        return None
    if len(positions) == 1 and not positions[0]:
        positions = []
        depths = []
    return CallShape(name, positions, tail, closed, depths)


def holes(segs: List[Seg]):
    for s in segs:
        if s[0] == "hole":
            yield s[1]
        elif s[0] == "alt":
            yield from holes(s[2])
            yield from holes(s[3])


def text_of(segs: List[Seg]) -> str:
    out = []
    for s in segs:
        if s[0] == "lit":
            out.append(s[1])
        elif s[0] == "hole":
            out.append("{" + pretty(s[1]) + "}")
        else:
            out.append("<" + pretty(s[1]) + "? " + text_of(s[2]) + " : " + text_of(s[3]) + ">")
    return "".join(out)
