"""Obligations, findings, known-findings matching, evidence and replay files."""
from __future__ import annotations

import json
import os
import time
from dataclasses import dataclass, field
from typing import Dict, List, Optional

from .model import AnalysisError

VERIF_DIR = os.path.dirname(os.path.dirname(os.path.abspath(__file__)))
KNOWN_PATH = os.path.join(VERIF_DIR, "known_findings.json")
# the self-test runner points the same code at scratch copies and redirects its output files
OUT_DIR = os.environ.get("VSTATIC_OUT") or VERIF_DIR

TRUSTED_BASE = [
    "CPython semantics of struct, dict (insertion order, last assignment wins), filter/map (lazy, order- and "
    "multiplicity-preserving), bisect, f-strings, enum (Flag iteration yields canonical single-bit members on >=3.11)",
    "the construct library's documented sizes and greedy semantics",
    "reference tables transcribed from XNU headers in vstatic/oracles/darwin.py",
    "the analyser itself (vstatic): ast-level symbolic interpretation with stated idiom sets",
]


@dataclass
class Finding:
    property: str
    rule: str
    module: str
    scope: str
    construct: str
    what: str
    line: Optional[int] = None
    facts: Optional[dict] = None
    witness: Optional[str] = None

    def key(self):
        return (self.property, self.rule, self.module, self.scope, self.construct)

    def to_json(self):
        d = {"property": self.property, "rule": self.rule, "module": self.module, "scope": self.scope,
             "construct": self.construct, "what": self.what}
        if self.line is not None:
            d["line"] = self.line
        if self.facts:
            d["facts"] = self.facts
        if self.witness:
            d["witness"] = self.witness
        return d


def load_known() -> List[dict]:
    if not os.path.isfile(KNOWN_PATH):
        return []
    with open(KNOWN_PATH) as fd:
        data = json.load(fd)
    return data.get("findings", [])


class Run:
    """Collects the obligations of one check run for one property."""

    def __init__(self, prop: str, tier: str, repo_root: str, explanation: str = ""):
        self.prop = prop
        self.tier = tier
        self.repo_root = repo_root
        self.t0 = time.time()
        self.explanation = explanation
        self.obligations: List[dict] = []
        self.findings: List[Finding] = []
        self.per_rule: Dict[str, Dict[str, int]] = {}
        self.floors: List[dict] = []
        self.floor_failures: List[str] = []
        self.canaries: List[dict] = []
        self.notes: List[str] = []
        self.analysed: Dict[str, object] = {}
        self.assumptions: List[str] = list(TRUSTED_BASE)
        self.extra: Dict[str, object] = {}
        self._distinct = set()

    # ------------------------------------------------------------ obligations
    def ob(self, rule: str, module: str, scope: str, construct: str, ok: bool, what: str = "",
           facts: Optional[dict] = None, nontrivial: bool = True, line: Optional[int] = None,
           witness: Optional[str] = None) -> bool:
        r = self.per_rule.setdefault(rule, {"obligations": 0, "discharged": 0, "nontrivial": 0})
        r["obligations"] += 1
        if ok:
            r["discharged"] += 1
        k = (rule, module, scope, construct)
        if nontrivial and k not in self._distinct:
            self._distinct.add(k)
            r["nontrivial"] += 1
        rec = {"rule": rule, "module": module, "scope": scope, "construct": construct, "ok": bool(ok)}
        if facts:
            rec["facts"] = facts
        if not ok:
            rec["what"] = what
        self.obligations.append(rec)
        if not ok:
            self.findings.append(Finding(self.prop, rule, module, scope, construct, what, line, facts, witness))
        return ok

    def floor(self, rule: str, what: str, n: int, minimum: int) -> None:
        self.floors.append({"rule": rule, "what": what, "count": n, "floor": minimum})
        if n < minimum:
            # decided at the end: a violation already found on the way is reported as such, otherwise the run is
            # an analysis error (a rule that matches too few sites must not pass vacuously)
            self.floor_failures.append(f"{self.prop}/{rule}: vacuity guard: {what} = {n} < confirmed floor {minimum}")

    def canary(self, rule: str, name: str, flagged: bool) -> None:
        self.canaries.append({"rule": rule, "canary": name, "flagged": bool(flagged)})
        if not flagged:
            raise AnalysisError(f"{self.prop}/{rule}: embedded positive fixture '{name}' was not flagged")

    def note(self, s: str) -> None:
        self.notes.append(s)

    def has_unlisted(self) -> bool:
        """Is there a finding that the known-findings file does not list?"""
        keys = set()
        for k in load_known():
            if k.get("property") == self.prop and k.get("status") == "known":
                for sc in (k["scope"] if isinstance(k["scope"], list) else [k["scope"]]):
                    keys.add((k["property"], k["rule"], k["module"], sc, k["construct"]))
        return any(f.key() not in keys for f in self.findings)

    # ----------------------------------------------------------------- finish
    def finish(self, seed: int = 0) -> int:
        known = [k for k in load_known() if k.get("property") == self.prop]
        # an entry's "scope" may be a list: the same finding at several named instances (one line is printed for it)
        known_keys = {}
        for k in known:
            if k.get("status") != "known":
                continue
            for sc in (k["scope"] if isinstance(k["scope"], list) else [k["scope"]]):
                known_keys[(k["property"], k["rule"], k["module"], sc, k["construct"])] = k
        unlisted: List[Finding] = []
        listed: List[Finding] = []
        seen = set()
        for f in self.findings:
            if f.key() in seen:
                continue
            seen.add(f.key())
            (listed if f.key() in known_keys else unlisted).append(f)
        if self.floor_failures and not unlisted:
            raise AnalysisError("; ".join(self.floor_failures))
        printed = set()
        for f in listed:
            k = known_keys[f.key()]
            if isinstance(k["scope"], list):
                if id(k) in printed:
                    continue
                printed.add(id(k))
                hit = [g.scope for g in listed if known_keys[g.key()] is k]
                print(f"KNOWN-FINDING: property={self.prop} rule={f.rule} {f.module}:{f.construct} - {k.get('what', f.what)} "
                      f"[{len(hit)} of the {len(k['scope'])} listed instances reproduce, e.g. {', '.join(hit[:4])}]")
            else:
                print(f"KNOWN-FINDING: property={self.prop} rule={f.rule} {f.module}:{f.scope}:{f.construct} - {f.what}")
        listed_keys = {f.key() for f in listed}
        stale, stale_seen = [], set()
        for key, k in known_keys.items():
            if isinstance(k["scope"], list):
                # a multi-instance entry is stale only when none of its instances reproduces
                if id(k) in stale_seen or any(kk in listed_keys for kk, kv in known_keys.items() if kv is k):
                    continue
                stale_seen.add(id(k))
                stale.append(k)
            elif key not in listed_keys:
                stale.append(k)
        for k in stale:
            sc = k['scope'] if not isinstance(k['scope'], list) else f"<{len(k['scope'])} instances>"
            print(f"note: listed known finding no longer reproduces: {k['rule']} {k['module']}:{sc}:{k['construct']}")
        n_ob = len(self.obligations)
        n_ok = sum(1 for o in self.obligations if o["ok"])
        samples = self._samples()
        coverage = {
            "explanation": self.explanation,
            "evaluations": n_ob,
            "distinct_nontrivial": len(self._distinct),
            "rule": "one obligation per rule instance derived from /repo's current source; an instance is counted as "
                    "distinct and non-trivial when it is keyed by a distinct (rule, module, scope, construct) and needed a "
                    "derived fact (resolved registry entry, symbolic term, evaluated constant, guard) rather than a "
                    "syntactic presence test",
            "samples": samples,
            "obligations": n_ob,
            "discharged": n_ok,
            "per_rule": self.per_rule,
            "floors": self.floors,
            "canaries": self.canaries,
            "analysed": self.analysed,
            "known_findings_reported": [f.to_json() for f in listed],
            "unlisted_violations": [f.to_json() for f in unlisted],
            "stale_known_findings": [{k2: k[k2] for k2 in ("rule", "module", "scope", "construct")} for k in stale],
            "trusted_base": TRUSTED_BASE,
            "checker_cmd": f"/venv/bin/python -m vstatic check {self.prop} --tier {self.tier}",
            "exhaustive": True,
            "notes": self.notes,
        }
        coverage.update(self.extra)
        ev = {
            "property_id": self.prop,
            "tier": self.tier,
            "seed": seed,
            "level": "other",
            "coverage": coverage,
            "assumptions": self.assumptions,
            "wall_s": round(time.time() - self.t0, 3),
            "violations": len(unlisted),
        }
        os.makedirs(os.path.join(OUT_DIR, "evidence"), exist_ok=True)
        path = os.path.join(OUT_DIR, "evidence", f"{self.prop}.json")
        tmp = path + ".tmp"
        with open(tmp, "w") as fd:
            json.dump(ev, fd, indent=1, default=str)
        os.replace(tmp, path)
        print(f"{self.prop} [{self.tier}] obligations={n_ob} discharged={n_ok} distinct_nontrivial={len(self._distinct)} "
              f"known={len(listed)} violations={len(unlisted)} wall={ev['wall_s']}s")
        for rule, c in sorted(self.per_rule.items()):
            print(f"  rule {rule}: {c['discharged']}/{c['obligations']} instances hold")
        if unlisted:
            os.makedirs(os.path.join(OUT_DIR, "replay"), exist_ok=True)
            rpath = os.path.join(OUT_DIR, "replay", f"{self.prop}-{self.tier}.json")
            with open(rpath, "w") as fd:
                json.dump({"property": self.prop, "tier": self.tier, "repo": self.repo_root,
                           "violations": [f.to_json() for f in unlisted]}, fd, indent=1, default=str)
            for f in unlisted:
                loc = f"{f.module}:{f.line}" if f.line else f.module
                print(f"  FAIL rule={f.rule} at {loc} [{f.scope}] {f.construct}: {f.what}")
            print(f"VIOLATION property={self.prop} replay={rpath}")
            return 1
        return 0

    def _samples(self) -> List[dict]:
        out, per = [], {}
        for o in self.obligations:
            n = per.get(o["rule"], 0)
            if n < 3 or not o["ok"]:
                per[o["rule"]] = n + 1
                out.append(o)
            if len(out) >= 60:
                break
        return out


def take_over(run, mod_name: str, prop: str, repo, select, rule: str, label: str, why: str, floor: int) -> None:
    """Obligations of another check that are necessary conditions of this property as well (judged there, reported here too).
    A check run as a probe does not take over from others in turn."""
    import importlib
    from .model import AnalysisError as _AE
    if getattr(run, "is_probe", False):
        return
    other = importlib.import_module(f"vstatic.rules.{mod_name}")
    probe = Run(prop, run.tier, run.repo_root)
    probe.is_probe = True
    try:
        other.check(repo, probe)
    except _AE:
        pass            # the floor below fails if the obligations were not reached
    n = 0
    for o in probe.obligations:
        if select(o):
            n += 1
            run.ob(rule, o["module"], o["scope"], f"{label} ({prop}/{o['rule']}): {o['construct']}", o["ok"],
                   (o.get("what", "") + " - " + why) if not o["ok"] else "", nontrivial=False)
    run.floor(rule, f"{label}: obligations taken over from {prop}", n, floor)
