"""C01 - every 64-byte kd_buf record decodes exactly and totally."""
from __future__ import annotations

import ast

import ast
from dataclasses import dataclass
from typing import Optional, Tuple

from .. import normal, consteval, structfmt, sym
from ..model import AnalysisError, Repo
from ..report import Run
from ..sym import T

EXPLANATION = (
    "from_kd_buf is interpreted symbolically and its result is evaluated in a bit-provenance domain: every output value "
    "is either a raw byte range of the 64-byte input or an integer whose every bit is known to be a specific input bit, "
    "0 or 1 (struct formats are parsed into layouts; &, |, <<, >> with constants are applied bit-wise). R1: the record "
    "format is little-endian, unpadded and equals XNU's 64-bit kd_buf. R2: each Kevent field (matched by the namedtuple's "
    "field list) maps to exactly the input bits the property names - timestamp, data, four value words, tid, debugid, "
    "eventid = debugid with bits 0-1 cleared, func_qualifier = bits 0-1 - and to no other bit. R3: the two mask constants "
    "partition 32 bits as 30+2. R4: sizes are 64 and the body performs no other operation that can raise. "
    "The facts hold for all 2^512 records."
)

MOD = "pykdebugparser.kevent"


class Unsupported(Exception):
    pass


class Raises(Exception):
    """The abstract evaluation shows the operation raises for every 64-byte input."""


@dataclass(frozen=True)
class Bytes:
    off: int
    size: int


@dataclass(frozen=True)
class Int:
    bits: Tuple[object, ...]       # LSB first; each: int input-bit index (byte*8+bit) | 'zero' | 'one'
    signed: bool = False

    def trimmed(self):
        b = list(self.bits)
        while b and b[-1] == "zero":
            b.pop()
        return tuple(b)


def field_int(off: int, size: int, little: bool, signed: bool) -> Int:
    bits = []
    for i in range(size * 8):
        byte = off + (i // 8 if little else size - 1 - i // 8)
        bits.append(byte * 8 + i % 8)
    return Int(tuple(bits), signed)


def const_int(v: int) -> Int:
    if v < 0:
        raise Unsupported("negative constant")
    return Int(tuple("one" if (v >> i) & 1 else "zero" for i in range(max(v.bit_length(), 1))))


def _pad(a, n):
    return tuple(a) + ("zero",) * (n - len(a))


def band(a: Int, b: Int) -> Int:
    n = max(len(a.bits), len(b.bits))
    x, y = _pad(a.bits, n), _pad(b.bits, n)
    out = []
    for p, q in zip(x, y):
        if p == "zero" or q == "zero":
            out.append("zero")
        elif p == "one":
            out.append(q)
        elif q == "one":
            out.append(p)
        elif p == q:
            out.append(p)
        else:
            raise Unsupported("& of two data-dependent bits")
    return Int(tuple(out))


def bor(a: Int, b: Int) -> Int:
    n = max(len(a.bits), len(b.bits))
    x, y = _pad(a.bits, n), _pad(b.bits, n)
    out = []
    for p, q in zip(x, y):
        if p == "one" or q == "one":
            out.append("one")
        elif p == "zero":
            out.append(q)
        elif q == "zero":
            out.append(p)
        elif p == q:
            out.append(p)
        else:
            raise Unsupported("| of two data-dependent bits")
    return Int(tuple(out))


def shl(a: Int, n: int) -> Int:
    return Int(("zero",) * n + tuple(a.bits))


def shr(a: Int, n: int) -> Int:
    return Int(tuple(a.bits[n:]) or ("zero",))


class Evaluator:
    def __init__(self, repo: Repo, input_param: T, input_size: int):
        self.repo = repo
        self.input = input_param
        self.size = input_size
        self.unpacks = []

    def ev(self, t: T):
        if t == self.input:
            return Bytes(0, self.size)
        op = t.op
        if op == "const":
            v = t.a[0]
            if isinstance(v, bool) or not isinstance(v, int):
                return ("const", v)
            return const_int(v)
        if op in ("tuple", "list"):
            return tuple(self.ev(x) for x in t.a[0])
        if op == "sub":
            base = self.ev(t.a[0])
            idx = t.a[1]
            if idx.op != "const" or not isinstance(idx.a[0], int):
                raise Unsupported(f"non-constant index {sym.pretty(idx)}")
            if isinstance(base, tuple) and not (base and base[0] == "const"):
                if not -len(base) <= idx.a[0] < len(base):
                    raise Raises(f"index {idx.a[0]} out of range for a {len(base)}-tuple")
                return base[idx.a[0]]
            if isinstance(base, Bytes):
                i = idx.a[0] if idx.a[0] >= 0 else base.size + idx.a[0]
                return field_int(base.off + i, 1, True, False)
            raise Unsupported(f"subscript of {type(base).__name__}")
        if op == "slice":
            base = self.ev(t.a[0])
            if len(t.a) != 3:
                raise Unsupported("slice with step")
            lo, hi = t.a[1], t.a[2]
            if lo.op != "const" or hi.op != "const":
                raise Unsupported("non-constant slice")
            n = base.size if isinstance(base, Bytes) else len(base)
            rng = range(n)[slice(lo.a[0], hi.a[0])]
            if isinstance(base, Bytes):
                return Bytes(base.off + rng.start, len(rng))
            if isinstance(base, tuple):
                return tuple(base[i] for i in rng)
            raise Unsupported("slice of non-sequence")
        if op == "bin":
            o, l, r = t.a
            lv, rv = self.ev(l), self.ev(r)
            if o == "+" and isinstance(lv, tuple) and isinstance(rv, tuple) and "const" not in (lv[:1] + rv[:1]):
                return lv + rv
            if not isinstance(lv, Int) or not isinstance(rv, Int):
                raise Unsupported(f"operator {o} on non-integers")
            if o == "&":
                return band(lv, rv)
            if o == "|":
                return bor(lv, rv)
            if o in ("<<", ">>"):
                if any(b not in ("zero", "one") for b in rv.bits):
                    raise Unsupported("data-dependent shift")
                n = sum(1 << i for i, b in enumerate(rv.bits) if b == "one")
                return shl(lv, n) if o == "<<" else shr(lv, n)
            raise Unsupported(f"operator {o}")
        if op == "call":
            f, args, kwargs = t.a
            name = f.a[0] if f.op == "global" else (f.a[0] if f.op == "builtin" else None)
            if f.op == "attr" and f.a[0].op == "builtin":
                name = f"{f.a[0].a[0]}.{f.a[1]}"
            if name in ("struct.unpack", "struct.unpack_from"):
                if len(args) < 2 or args[0].op != "const" or not isinstance(args[0].a[0], str):
                    raise Unsupported("struct.unpack with a non-literal format")
                buf = self.ev(args[1])
                if not isinstance(buf, Bytes):
                    raise Unsupported("struct.unpack of a non-bytes value")
                off = 0
                if name.endswith("_from"):
                    o = args[2] if len(args) > 2 else dict(kwargs).get("offset", sym.const(0))
                    if o.op != "const":
                        raise Unsupported("non-constant unpack_from offset")
                    off = o.a[0]
                return self.unpack(args[0].a[0], buf, off, exact=not name.endswith("_from"))
            if name == "int.from_bytes":
                buf = self.ev(args[0])
                order = args[1] if len(args) > 1 else dict(kwargs).get("byteorder")
                signed = dict(kwargs).get("signed", sym.FALSE)
                if not isinstance(buf, Bytes) or order is None or order.op != "const":
                    raise Unsupported("int.from_bytes form")
                return field_int(buf.off, buf.size, order.a[0] == "little", bool(signed.a[0]) if signed.op == "const" else True)
            if name in ("tuple", "list") and len(args) == 1:
                return self.ev(args[0])
            if name in ("int",) and len(args) == 1:
                return self.ev(args[0])
            if name == "bytes" and len(args) == 1:
                return self.ev(args[0])
            raise Unsupported(f"call {sym.pretty(f)}")
        raise Unsupported(f"term {sym.pretty(t)[:60]}")

    def unpack(self, fmt: str, buf: Bytes, off: int, exact: bool):
        try:
            lay = structfmt.parse(fmt)
        except structfmt.FormatError as e:
            raise Unsupported(str(e))
        if (fmt, lay, buf, off, exact) not in self.unpacks:
            self.unpacks.append((fmt, lay, buf, off, exact))
        if exact and lay.size != buf.size:
            raise Raises(f"struct.unpack({fmt!r}) needs {lay.size} bytes but is given {buf.size}")
        if not exact and off + lay.size > buf.size:
            raise Raises(f"struct.unpack_from({fmt!r}, offset={off}) reads past the {buf.size}-byte buffer")
        little = lay.order == "<" or (lay.order in "@=" and True)
        if lay.order in (">", "!"):
            little = False
        out = []
        for f in lay.fields:
            if f.index is None:
                continue
            a = buf.off + off + f.offset
            if f.code in ("s", "p"):
                out.append(Bytes(a, f.size))
            elif f.code in structfmt.SIGNED or f.code in structfmt.UNSIGNED:
                out.append(field_int(a, f.size, little, f.code in structfmt.SIGNED))
            elif f.code == "?":
                out.append(field_int(a, 1, True, False))
            else:
                raise Unsupported(f"format code {f.code}")
        return tuple(out)


def word(off, size):
    return field_int(off, size, True, False)


def describe(v) -> str:
    if isinstance(v, Bytes):
        return f"bytes[{v.off}:{v.off + v.size}]"
    if isinstance(v, Int):
        bits = v.trimmed()
        if not bits:
            return "0"
        # compress runs
        runs = []
        for i, b in enumerate(bits):
            if isinstance(b, int) and runs and isinstance(runs[-1][2], int) and runs[-1][2] + (i - runs[-1][0]) == b:
                continue
            runs.append((i, b, b))
        parts = []
        for k, (i, b, _) in enumerate(runs):
            end = runs[k + 1][0] if k + 1 < len(runs) else len(bits)
            if isinstance(b, int):
                parts.append(f"bit{i}..{end - 1}<-input bit {b}..{b + end - i - 1} (byte {b // 8}+)")
            else:
                parts.append(f"bit{i}..{end - 1}={b}")
        return ("signed " if v.signed else "") + "; ".join(parts)
    if isinstance(v, tuple):
        return "(" + ", ".join(describe(x) for x in v) + ")"
    return repr(v)


_value_bool_to_ite = normal.value_bool_to_ite


def kevent_fields(repo: Repo):
    node = repo.constant("kevent", "Kevent")
    if not (isinstance(node, ast.Call) and repo.dotted(repo.module("kevent"), node.func) == "collections.namedtuple"
            and len(node.args) >= 2):
        raise AnalysisError("anchor changed: kevent.Kevent is not a collections.namedtuple(...) call")
    names = consteval.evaluate(repo, repo.module("kevent"), node.args[1])
    if isinstance(names, str):
        names = names.replace(",", " ").split()
    if not isinstance(names, (list, tuple)) or not all(isinstance(n, str) for n in names):
        raise AnalysisError("anchor changed: Kevent field list is not a literal")
    return list(names)


def check(repo: Repo, run: Run) -> None:
    kmod = repo.module("kevent")
    fn = repo.function("kevent", "from_kd_buf")
    # (the constants are judged first: they do not depend on how the record object is built)
    # ---- R3 masks
    m1 = consteval.evaluate(repo, kmod, kmod.constants.get("KDBG_EVENTID_MASK"))
    m2 = consteval.evaluate(repo, kmod, kmod.constants.get("KDBG_FUNC_MASK"))
    fmt = consteval.evaluate(repo, kmod, kmod.constants.get("KD_BUF_FORMAT"))
    if "KDBG_EVENTID_MASK" in kmod.constants and "KDBG_FUNC_MASK" in kmod.constants:
        run.ob("R3", MOD, "constants", "KDBG_FUNC_MASK == 0x3", m2 == 3, f"KDBG_FUNC_MASK evaluates to {m2!r}",
               facts={"value": m2})
        run.ob("R3", MOD, "constants", "KDBG_EVENTID_MASK == 0xfffffffc", m1 == 0xfffffffc,
               f"KDBG_EVENTID_MASK evaluates to {hex(m1) if isinstance(m1, int) else m1!r}", facts={"value": m1})
        if isinstance(m1, int) and isinstance(m2, int):
            run.ob("R3", MOD, "constants", "masks disjoint", m1 & m2 == 0, f"masks overlap in {hex(m1 & m2)}")
            run.ob("R3", MOD, "constants", "masks cover 32 bits", m1 | m2 == 0xffffffff,
                   f"masks leave bits {hex(0xffffffff ^ (m1 | m2))} of the debug id unassigned")
    else:
        run.note("mask constants are not module-level names any more; R2's bit-level facts decide the masks")

    fields = kevent_fields(repo)
    interp = sym.Interp(repo)
    params = [a.arg for a in fn.args.args]
    if len(params) != 1:
        raise AnalysisError("from_kd_buf no longer takes exactly one parameter")
    inp = sym.param(params[0])
    rec = interp.run(kmod, fn, {params[0]: inp})
    run.analysed.update({"function": "kevent.from_kd_buf", "kevent_fields": fields})

    # ---- R4 sizes
    if isinstance(fmt, str):
        try:
            lay = structfmt.parse(fmt)
            run.ob("R4", MOD, "constants", "calcsize(KD_BUF_FORMAT) == 64", lay.size == 64 and not lay.native,
                   f"KD_BUF_FORMAT {fmt!r} has size {lay.size}" + (" in native (padded, host-endian) mode" if lay.native else ""),
                   facts={"format": fmt, "size": lay.size})
            run.ob("R1", MOD, "constants", "KD_BUF_FORMAT little-endian unpadded", lay.order == "<",
                   f"KD_BUF_FORMAT {fmt!r} byte order/alignment mode is {lay.order!r}, not '<'", facts={"format": fmt})
        except structfmt.FormatError as e:
            run.ob("R4", MOD, "constants", "calcsize(KD_BUF_FORMAT) == 64", False, f"format does not parse: {e}")
    pmod = repo.module("kd_buf_parser")
    ks = consteval.evaluate(repo, pmod, pmod.constants.get("KEVENT_SIZE")) if "KEVENT_SIZE" in pmod.constants else None
    if ks is None or ks is consteval.UNKNOWN:
        raise AnalysisError("kd_buf_parser.KEVENT_SIZE is missing or not a constant this analysis can evaluate")
    run.ob("R4", "pykdebugparser.kd_buf_parser", "constants", "KEVENT_SIZE == 64", ks == 64,
           f"KEVENT_SIZE evaluates to {ks!r}: the record loops would read records of the wrong size", facts={"value": ks})

    # ---- R4 body is total: one return, no raise/loop, only decoding calls
    # (the property is about 64-byte records: a path condition that only compares constants with len(record) is settled)
    from .c20 import _ceval, _Undecided
    len64 = {T("call", (T("builtin", ("len",)), (inp,), ())): sym.const(64)}

    def settled(pc):
        """(path still possible for a 64-byte record?, the conditions that remain open)"""
        rest = []
        for c, pol in pc:
            try:
                if bool(_ceval(repo, sym.subst(c, len64))) != pol:
                    return False, []
            except _Undecided:
                rest.append((c, pol))
        return True, rest
    rets = [r for r in rec.returns if r.kind == "return"]
    raises = [r for r in rec.returns if r.kind == "raise" and settled(r.pc)[0]]
    open_pc = settled(rets[0].pc)[1] if len(rets) == 1 else []
    run.ob("R4", MOD, "from_kd_buf", "single unconditional return", len(rets) == 1 and not open_pc and not raises,
           f"{len(rets)} returns, {len(raises)} raise statements: decoding is not a total function of the record",
           nontrivial=False)
    undecided = []
    if rec.notes:
        raise AnalysisError(f"from_kd_buf uses an unsupported construct: {rec.notes[0]}")
    if not rets:
        raise AnalysisError("from_kd_buf has no return")
    def is_kevent(v):
        return v.op == "call" and v.a[0].op == "global" and v.a[0].a[0].endswith("kevent.Kevent")
    for r_ in rets:
        if not is_kevent(r_.value) and any(
                x.op == "call" and (x.a[0].op in ("func",) or (x.a[0].op == "attr" and (
                    x.a[0].a[0].op == "class" or (x.a[0].a[0].op == "call" and x.a[0].a[0].a[0].op in ("attr", "class", "func")))))
                for x in sym.walk(r_.value)):
            # the record is built by a method of a helper class the interpreter did not follow (`KdBuf.unpack(b).to_kevent()`)
            raise AnalysisError(f"from_kd_buf returns {sym.pretty(r_.value)[:70]}: computed by a helper that is not interpreted in "
                                f"place - what the record's fields are is not decided")
        if not is_kevent(r_.value) and r_.value.op == "call" and r_.value.a[0].op in ("ite", "global", "call", "sub"):
            # the result of calling something chosen at run time / a module-level callable built by a library (lru_cache(...)(f),
            # a table of decoders): not followed
            raise AnalysisError(f"from_kd_buf returns {sym.pretty(r_.value)[:70]}: the callee is not a function these rules "
                                f"interpret in place - what the record's fields are is not decided")
        if not is_kevent(r_.value):
            run.ob("R2", MOD, "from_kd_buf", f"return at line {r_.lineno} is the decoding of the record", False,
                   f"from_kd_buf returns {sym.pretty(r_.value)[:60]} when {[sym.pretty(c)[:40] + ('' if p_ else ' is false') for c, p_ in r_.pc]}"
                   f": a value that is not computed from the record's own fields (timestamp, arguments and thread id are lost)",
                   line=r_.lineno, witness="a record for which that condition holds while its other fields are non-zero")
    good = [r_ for r_ in rets if is_kevent(r_.value)]
    if not good:
        raise AnalysisError(f"from_kd_buf does not return a Kevent(...) call: {sym.pretty(rets[0].value)[:80]}")
    ret = good[0].value

    # ---- R2 binding
    _, args, kwargs = ret.a
    bound = {}
    for name, a in zip(fields, args):
        bound[name] = a
    for k, v in kwargs:
        bound[k] = v
    # `Enum(x).value` is x - provided x is the value of a member (anything else raises ValueError): the field is judged as
    # x, the membership as a totality obligation of its own below
    enum_lookups = []

    def _enum_value(x):
        if x.op == "attr" and x.a[1] == "value" and x.a[0].op == "call" and x.a[0].a[0].op == "class" and len(x.a[0].a[1]) == 1 \
                and not x.a[0].a[2]:
            f_ = repo.lookup(x.a[0].a[0].a[0])
            if f_ and f_[0] == "class" and f_[2].enum_kind:
                enum_lookups.append((f_[2], x.a[0].a[1][0]))
                return x.a[0].a[1][0]
        return x
    bound = {k: normal.rewrite(v, _enum_value) for k, v in bound.items()}
    run.ob("R2", MOD, "from_kd_buf", "constructor arity", len(args) <= len(fields) and set(bound) == set(fields),
           f"Kevent(...) binds {sorted(bound)} but the tuple has fields {fields}", nontrivial=False)
    ev = Evaluator(repo, inp, 64)
    expect = {
        "timestamp": ("the little-endian u64 at bytes 0-7", word(0, 8)),
        "data": ("the 32 argument bytes 8-39", Bytes(8, 32)),
        "values": ("the four little-endian u64 words of bytes 8-39", tuple(word(8 + 8 * i, 8) for i in range(4))),
        "tid": ("the little-endian u64 at bytes 40-47", word(40, 8)),
        "debugid": ("the little-endian u32 at bytes 48-51", word(48, 4)),
        "eventid": ("the debug id with bits 0-1 cleared", Int(("zero", "zero") + word(48, 4).bits[2:])),
        "func_qualifier": ("bits 0-1 of the debug id", Int(word(48, 4).bits[:2])),
    }
    for name, (what, want) in expect.items():
        if name not in bound:
            run.ob("R2", MOD, "from_kd_buf", f"field {name}", False, f"Kevent has no field {name} bound")
            continue
        foreign = sorted({sym.pretty(x)[:60] for x in sym.walk(bound[name])
                          if x.op in ("global", "attr", "param", "widen", "elem", "lambda", "unknown")
                          and not (x.op == "param" and x == inp)
                          and not (x.op == "global" and x.a[0] in ("struct.unpack", "struct.unpack_from", "int.from_bytes",
                                                                   "struct.calcsize", "struct.iter_unpack"))
                          and not (x.op == "attr" and x.a[0].op == "builtin")})
        if foreign:
            # an immutable module-level object (a compiled pattern, a struct.Struct) and what is computed from the record
            # with it are not state: the field may well be a function of the record's bytes alone, but not one the byte-level
            # evaluation below can follow - undecided, not a violation
            def stateless(x):
                if x.op == "global" and x.a[0].startswith("pykdebugparser."):
                    f_ = repo.lookup(x.a[0])
                    if f_ and f_[0] == "const" and isinstance(f_[2], ast.Call) and \
                            (repo.dotted(f_[1], f_[2].func) or "") in ("re.compile", "struct.Struct") \
                            and all(isinstance(a_, (ast.Constant, ast.BinOp, ast.Name, ast.Attribute, ast.JoinedStr))
                                    for a_ in f_[2].args):
                        return True
                if x.op == "global" and x.a[0].startswith("pykdebugparser."):
                    # a module-level table computed once at import time and never changed afterwards (`LAYOUT = _layout(ROWS)`)
                    f_ = repo.lookup(x.a[0])
                    if f_ and f_[0] == "const":
                        nm_ = x.a[0].rsplit(".", 1)[1]
                        tree_ = f_[1].tree
                        stores_ = sum(1 for y in ast.walk(tree_) if isinstance(y, ast.Name) and y.id == nm_
                                      and isinstance(y.ctx, (ast.Store, ast.Del)))
                        touched_ = any(
                            (isinstance(y, (ast.Subscript, ast.Attribute)) and isinstance(y.ctx, (ast.Store, ast.Del))
                             and isinstance(y.value, ast.Name) and y.value.id == nm_)
                            or (isinstance(y, ast.Call) and isinstance(y.func, ast.Attribute) and isinstance(y.func.value, ast.Name)
                                and y.func.value.id == nm_ and y.func.attr in sym.MUTATORS)
                            or (isinstance(y, ast.AugAssign) and isinstance(y.target, ast.Name) and y.target.id == nm_)
                            for y in ast.walk(tree_))
                        if stores_ == 1 and not touched_:
                            return True
                if x.op == "attr":
                    # (an attribute of something computed in place - a comprehension, a call result - is judged through the
                    # names that something mentions, which are walked on their own)
                    return stateless(x.a[0]) if x.a[0].op in ("global", "attr", "elem", "param", "widen", "lambda", "unknown") else True
                if x.op == "elem":
                    return True         # what is iterated is walked, and judged, on its own
                return False
            dotless = _pattern_dot_without_dotall(repo, bound[name])
            if dotless is not None:
                run.ob("R2", MOD, "from_kd_buf", f"field {name}", False,
                       f"{name} is cut out of the record with the pattern {dotless[1]!r} ({dotless[0]}) whose `.` does not match the "
                       f"byte 0x0a (no re.DOTALL): for a record with that byte in the field the pieces are not the field's words",
                       facts={"term": sym.pretty(bound[name])[:200]},
                       witness="a record whose argument bytes contain 0x0a, e.g. an argument equal to 10")
                continue
            if all(stateless(x) for x in sym.walk(bound[name])
                   if x.op in ("global", "attr", "param", "widen", "elem", "lambda", "unknown")
                   and not (x.op == "param" and x == inp)
                   and not (x.op == "global" and x.a[0] in ("struct.unpack", "struct.unpack_from", "int.from_bytes",
                                                            "struct.calcsize", "struct.iter_unpack"))
                   and not (x.op == "attr" and x.a[0].op == "builtin")):
                undecided.append(f"field {name} is computed through {foreign[:2]}: outside what the byte-level evaluation follows")
                continue
            run.ob("R2", MOD, "from_kd_buf", f"field {name}", False,
                   f"{name} depends on {foreign[:3]}: the decoded field is not a function of the record's own bytes alone "
                   f"(a table, cache or other state decides the value for some records)",
                   facts={"term": sym.pretty(bound[name])[:200]})
            continue
        leaves = normal.guarded_leaves(_value_bool_to_ite(bound[name]))
        if len(leaves) > 1:
            # a conditional value: every alternative must be the field itself, otherwise the field also depends on whatever
            # the condition reads
            bad = None
            try:
                for pc, leaf in leaves:
                    if not _same(ev.ev(leaf), want):
                        bad = (pc, leaf)
                        break
            except Raises as e:
                run.ob("R4", MOD, "from_kd_buf", f"field {name}", False, f"computing {name} raises on one path: {e}")
                continue
            except Unsupported as e:
                raise AnalysisError(f"from_kd_buf: field {name}: idiom outside the supported set ({e}): "
                                    f"{sym.pretty(bound[name])[:100]}")
            reads = set()
            for pc, _ in leaves:
                for c, _p in pc:
                    for x in sym.walk(c):
                        try:
                            v = ev.ev(x)
                        except (Unsupported, Raises):
                            continue
                        if isinstance(v, Int):
                            reads.update(b // 8 for b in v.bits if isinstance(b, int))
            run.ob("R2", MOD, "from_kd_buf", f"field {name}", bad is None,
                   "" if bad is None else
                   f"{name} should be {what} but is {describe(ev.ev(bad[1]))} when "
                   f"{' and '.join((sym.pretty(c)[:50] if p_ else 'not ' + sym.pretty(c)[:50]) for c, p_ in bad[0])}: the field "
                   f"depends on record bytes {sorted(reads)[:12]} outside its own field",
                   facts={"term": sym.pretty(bound[name])[:200]},
                   witness=None if bad is None else "a record for which that condition holds and the field's dropped bits are set")
            continue
        try:
            got = ev.ev(bound[name])
        except Raises as e:
            run.ob("R4", MOD, "from_kd_buf", f"field {name}", False,
                   f"computing {name} raises for every 64-byte record: {e}", facts={"term": sym.pretty(bound[name])[:120]})
            continue
        except Unsupported as e:
            raise AnalysisError(f"from_kd_buf: field {name}: idiom outside the supported set ({e}): "
                                f"{sym.pretty(bound[name])[:100]}")
        ok = _same(got, want)
        run.ob("R2", MOD, "from_kd_buf", f"field {name}", ok,
               "" if ok else f"{name} should be {what} but is {describe(got)}",
               facts={"term": sym.pretty(bound[name])[:120], "derived": describe(got), "expected": describe(want)},
               witness=None if ok else "a record with distinct bytes in every position (bytes(range(64))) decodes to a "
                                       "different value than the property's definition")
    # ---- R1 layout of every unpack used vs the XNU reference (full coverage, LE)
    ref = [(0, 8), (8, 32), (40, 8), (48, 4), (52, 4), (56, 8)]
    for fmt_s, lay, buf, off, exact in ev.unpacks:
        if buf == Bytes(0, 64) and exact and off == 0:
            ranges = []
            for f in lay.fields:
                ranges.append((f.offset, f.size))
            merged = _coalesce(ranges)
            ok = lay.order == "<" and lay.size == 64 and _refines(merged, ref)
            run.ob("R1", MOD, "from_kd_buf", f"record layout {fmt_s}", ok,
                   "" if ok else f"format {fmt_s!r} does not lay the record out as XNU's kd_buf "
                                 f"(timestamp u64@0, args 32B@8, thread u64@40, debugid u32@48, cpuid u32@52, unused u64@56)",
                   facts={"format": fmt_s, "fields": [(f.code, f.offset, f.size) for f in lay.fields]})
        else:
            ok = lay.order == "<" and (not exact or lay.size == buf.size)
            run.ob("R1", MOD, "from_kd_buf", f"sub-layout {fmt_s}@{buf.off}", ok,
                   "" if ok else f"inner format {fmt_s!r} (size {lay.size}, order {lay.order!r}) does not match the "
                                 f"{buf.size}-byte little-endian field it decodes",
                   facts={"format": fmt_s, "bytes": [buf.off, buf.off + buf.size]})
    run.floor("R2", "Kevent fields checked", len(expect), 7)
    # tuple-unpacking targets must match the arity of what they unpack (a mismatch raises ValueError)
    for p_ in rec.pops:
        if p_.kind != "unpack":
            continue
        try:
            v = ev.ev(p_.base)
        except (Unsupported, Raises):
            continue
        if isinstance(v, tuple):
            run.ob("R4", MOD, "from_kd_buf", f"unpack into {p_.key} names", len(v) == p_.key,
                   f"{len(v)} values are unpacked into {p_.key} names: raises ValueError for every record",
                   nontrivial=False, line=p_.lineno)
    for eci, arg in enum_lookups:
        try:
            iv = ev.ev(arg)
        except (Unsupported, Raises) as e_:
            undecided.append(f"{eci.name}(...) is looked up by a value the byte-level evaluation does not follow ({e_})")
            continue
        if not isinstance(iv, Int):
            undecided.append(f"{eci.name}(...) is looked up by something that is not an integer of the record")
            continue
        free = [b for b in iv.trimmed() if b not in ("zero", "one")]
        members = {v for v in eci.member_dict().values() if isinstance(v, int)}
        if len(set(free)) <= 12:
            fixed = sum(1 << i for i, b in enumerate(iv.trimmed()) if b == "one")
            pos = [i for i, b in enumerate(iv.trimmed()) if b not in ("zero", "one")]
            possible = {fixed | sum(1 << p_ for j, p_ in enumerate(pos) if m_ >> j & 1) for m_ in range(1 << len(pos))}
            missing = sorted(possible - members)
        else:
            missing = ["(most values)"]
        run.ob("R4", MOD, "from_kd_buf", f"{eci.name}(<bits of the record>) is total", not missing,
               "" if not missing else f"{eci.name}(x) raises ValueError when x is {missing[:4]}: records carrying such a value do not "
                                      f"decode", facts={"members": sorted(members)[:16]}, nontrivial=False)
    # no other partial operations: every recorded subscript is a constant index into an unpack result (checked by ev)
    allowed_calls = ("struct.unpack", "struct.unpack_from", "int.from_bytes")
    for c in rec.calls:
        f = c.func
        if f.op == "class" and any(f.a[0] == eci.qualname for eci, _ in enum_lookups):
            continue            # judged just above
        nm = f.a[0] if f.op in ("global", "builtin") else sym.pretty(f)
        if nm == "int.from_bytes" or (c.func.op == "attr" and c.func.a[1] == "from_bytes"):
            nm = "int.from_bytes"
        # a helper of the package that was interpreted in place (its result is not an opaque call) adds nothing of its
        # own: the operations inside it are recorded, and judged, as the caller's
        inlined = f.op == "func" and c.result is not None and not (c.result.op == "call" and c.result.a[0] == f)
        is_nt = f.op == "global" and f.a[0].startswith("pykdebugparser.") and interp.namedtuple_fields(f.a[0]) is not None
        ok = nm in allowed_calls or nm.endswith("kevent.Kevent") or nm in ("tuple", "list", "int", "bytes", "len") or inlined or is_nt
        if not ok and f.op == "attr" and sym.root_of(f.a[0]).op == "global" and interp.memo_mode(sym.root_of(f.a[0]).a[0]) is not None:
            ok = True           # bookkeeping of a table proved to be a pure memo (len / clear / get): cannot fail, changes no result
        if not ok and f.op == "attr" and f.a[1] == "to_bytes" and len(c.args) >= 2 and c.args[0].op == "const" \
                and isinstance(c.args[0].a[0], int) and not c.kwargs:
            # n.to_bytes(k, order) is total when n is an unsigned field of at most 8k bits
            try:
                iv_ = ev.ev(f.a[0])
                ok = isinstance(iv_, Int) and len(iv_.trimmed()) <= 8 * c.args[0].a[0]
            except (Unsupported, Raises):
                ok = False
        if not ok:
            # an operation this rule has no totality fact about: undecided (reported only if nothing else is wrong)
            undecided.append(f"from_kd_buf calls {nm}: not one of the decoding operations known to be total")
            continue
        run.ob("R4", MOD, "from_kd_buf", f"call {nm}", ok,
               "" if ok else f"from_kd_buf calls {nm}, which is outside the total decoding operations",
               nontrivial=False, line=c.lineno)
    if undecided:
        # decided at the end of the run: a violation found on the way is reported as such, otherwise exit 2
        run.floor_failures.append("C01: " + undecided[0] + (f" (+{len(undecided) - 1} more)" if len(undecided) > 1 else ""))


def _pattern_dot_without_dotall(repo, term):
    """(constant name, pattern) of a module-level `re.compile(<constant pattern>[, flags])` used in the term whose pattern
    contains `.` while DOTALL is not in force - None otherwise (also when the pattern cannot be evaluated)."""
    import re
    from .. import consteval
    for x in sym.walk(term):
        if not (x.op == "global" and x.a[0].startswith("pykdebugparser.")):
            continue
        f_ = repo.lookup(x.a[0])
        if not (f_ and f_[0] == "const" and isinstance(f_[2], ast.Call) and (repo.dotted(f_[1], f_[2].func) or "") == "re.compile"
                and f_[2].args):
            continue
        pat = consteval.evaluate(repo, f_[1], f_[2].args[0])
        if not isinstance(pat, (bytes, str)):
            continue
        flags = 0
        fl_nodes = list(f_[2].args[1:2]) + [k.value for k in f_[2].keywords if k.arg == "flags"]
        known = True
        for fn_ in fl_nodes:
            for part in ast.walk(fn_):
                if isinstance(part, ast.Attribute) and isinstance(part.value, ast.Name) and part.value.id == "re":
                    v = getattr(re, part.attr, None)
                    if isinstance(v, re.RegexFlag):
                        flags |= int(v)
                    else:
                        known = False
                elif isinstance(part, (ast.Name, ast.Call)) and not (isinstance(part, ast.Name) and part.id == "re"):
                    known = False
        if not known:
            continue
        try:
            parsed = re._parser.parse(pat, flags)
        except Exception:
            continue
        if parsed.state.flags & int(re.DOTALL):
            continue

        def has_any(items):
            for op, av in items:
                if str(op) == "ANY":
                    return True
                if isinstance(av, tuple):
                    for y in av:
                        if hasattr(y, "data") and has_any(y.data):
                            return True
                        if isinstance(y, list) and y and isinstance(y[0], tuple) and has_any(y):
                            return True
            return False
        if has_any(parsed.data):
            return x.a[0].rsplit(".", 1)[1], pat
    return None


def _same(got, want) -> bool:
    if isinstance(want, tuple):
        return isinstance(got, tuple) and len(got) == len(want) and all(_same(g, w) for g, w in zip(got, want))
    if isinstance(want, Int):
        return isinstance(got, Int) and not got.signed and got.trimmed() == want.trimmed()
    return got == want


def _coalesce(ranges):
    return sorted(ranges)


def _refines(ranges, ref) -> bool:
    """ranges (offset,size) tile [0,64) and every reference field boundary is a boundary of ranges,
    with the integer fields (all but the 32-byte block) appearing as single fields."""
    pos = 0
    bounds = set()
    for off, size in ranges:
        if off != pos:
            return False
        bounds.add(off)
        pos = off + size
    if pos != 64:
        return False
    for off, size in ref:
        if off not in bounds:
            return False
        if size != 32 and (off, size) not in ranges:
            # pad bytes ('x') may stand for the unused tail / cpuid
            if not all((o, 1) in ranges for o in range(off, off + size)):
                return False
    return True
