"""C02 - a version-2 dump yields exactly its records, in order, and its thread map."""
from __future__ import annotations

import ast

from .. import consteval, cstruct, render, sym
from ..model import AnalysisError, Repo
from ..report import Run, take_over
from ..sym import T, const, param

EXPLANATION = (
    "Structural clauses. R1 (record loop): in parse_v2, after the header parse, the only stream consumption is one "
    "read(KEVENT_SIZE) per iteration of a single loop; the only loop exit is `break` on an empty read and it depends on "
    "nothing else; the read result goes, unmodified and under no further condition, to exactly one `yield from_kd_buf(.)`; "
    "no other yield, read or seek. Hence m complete records give m events in file order and nothing else. R2 (header "
    "length must not depend on record bytes): the construct declaration kd_header_v2 is evaluated to a layout; every "
    "component must be fixed-size or determined by the parsed thread count; a component whose length is decided by the "
    "bytes themselves (greedy repetition, delimiter search) and is not enclosed in FixedSized/Prefixed can swallow the head "
    "of the first record. R3: kd_threadmap is tid u64@0, pid u32@8, name char[20]@12 (32 bytes, XNU kd_threadmap) and the "
    "Array count is the parsed thread-count field, the first little-endian u32 of the header. R4 (tables): set_thread_map "
    "is called with the parsed thread map unconditionally before the first yield; it clears both tables before any store, "
    "stores threads_pids[entry.tid] = entry.pid and pids_names[entry.pid] = entry.process unconditionally in iteration "
    "order (so a later entry wins) and never rebinds the attributes. The absolute layout of the 0x11c header bytes before "
    "the thread map is not decided."
)

MOD = "pykdebugparser.kd_buf_parser"
SELF = param("self")


def _short_read(c: T, pol: bool, raw: T, ks: int) -> bool:
    """the condition (with its polarity) says: len(<the raw read>) differs from the record size"""
    atom, apol = render.norm_bool(c)
    eff = pol if apol else not pol
    ln = T("call", (T("builtin", ("len",)), (raw,), ()))
    if atom.op == "cmp" and atom.a[0] == "==" and {atom.a[1], atom.a[2]} == {ln, const(ks)}:
        return not eff
    if atom.op == "cmp" and atom.a[0] in ("<", ">") and ln in (atom.a[1], atom.a[2]) and const(ks) in (atom.a[1], atom.a[2]):
        return eff
    return False




def check(repo: Repo, run: Run) -> None:
    take_over(run, "c12", "C12", repo, lambda o: o["scope"] == "kevents" and o["rule"] in ("R1", "R2"), "R0",
               "events listing", "PyKdebugParser.kevents of a version-2 dump then does not hand on exactly the events the "
               "container parser yields (an unfiltered request must list all m of them, in order)", 8)
    take_over(run, "c14", "C14", repo, lambda o: o["rule"] == "R2" and o["scope"] in ("PyKdebugParser.__init__", "KdBufParser.__init__"),
               "R0", "two tables", "the thread map fills a tid->pid table and a pid->name table: one object standing for both (or a "
               "copy) holds neither after the dump was read", 3)
    interp = sym.Interp(repo)
    mod = repo.module("kd_buf_parser")
    kb = repo.cls("kd_buf_parser", "KdBufParser")
    ks = consteval.evaluate(repo, mod, mod.constants.get("KEVENT_SIZE"))
    if not isinstance(ks, int):
        raise AnalysisError("kd_buf_parser.KEVENT_SIZE is missing or not a constant this analysis can evaluate")
    fn = repo.method("kd_buf_parser", "KdBufParser", "parse_v2")
    rec = interp.run(mod, fn, self_cls=kb)
    if rec.notes:
        raise AnalysisError(f"parse_v2: unsupported construct {rec.notes[0]}")
    reader = param(fn.args.args[1].arg)
    raw = T("call", (T("attr", (reader, "read")), (const(ks),), ()))

    # ------------------------------------------------------------------ R1
    fmt = consteval.evaluate(repo, repo.module("kevent"), repo.constant("kevent", "KD_BUF_FORMAT"))
    import struct as _struct
    want_size = _struct.calcsize(fmt) if isinstance(fmt, str) else None
    run.ob("R1", MOD, "constants", "KEVENT_SIZE equals the record decoder's size", ks == want_size and ks == 64,
           f"KEVENT_SIZE = {ks!r} but the record format {fmt!r} decodes {want_size} bytes: the loop reads records of the wrong size",
           facts={"KEVENT_SIZE": ks, "format": fmt})
    # loops of parse_v2 itself or of a package generator it delegates to with `yield from` (expanded in place): the ones
    # that read the stream or yield
    def _active(lr):
        return any(lr.id in c.loops and c.func == T("attr", (reader, "read")) for c in rec.calls) or \
            any(lr.id in r.loops for r in rec.returns if r.kind in ("yield", "yield_from"))
    loops = [lr for lr in rec.loops.values() if lr.kind in ("while", "for") and (lr.func.endswith("parse_v2") or _active(lr))]
    piped = [c for c in rec.calls if ((c.func.op == "global" and c.func.a[0].split(".")[0] in ("itertools", "functools"))
                                      or c.func in (T("builtin", ("map",)), T("builtin", ("iter",)), T("builtin", ("filter",))))
             and any(sym.contains(a, reader) for a in c.args)]
    if piped and not [c for c in rec.calls if c.func == T("attr", (reader, "read"))]:
        # the records are drawn through library iterators (iter(partial(read, 64), b''), takewhile(bool, map(read, repeat(64)))):
        # one read per record and the empty-read exit are then properties of those iterators, not of a loop of this method
        run.floor_failures.append(f"C02/R1: parse_v2 reads the records through {sym.pretty(piped[0].func)}(...): the read-per-record "
                                  f"scheme is not decided")
        return
    run.ob("R1", MOD, "KdBufParser.parse_v2", "one record loop", len(loops) == 1,
           f"parse_v2 has {len(loops)} loops; the property's structure is one read-64-bytes loop", line=fn.lineno)
    if len(loops) != 1:
        return
    lp = loops[0]
    from .. import streams
    reads = [c for c in rec.calls if c.func == T("attr", (reader, "read"))]
    in_loop = [c for c in reads if lp.id in c.loops]
    outside = [c for c in reads if lp.id not in c.loops]
    # a priming read right before a `while buf:` loop is part of the same read-per-iteration scheme
    lp_test = sym.resolve_widens(rec, lp.test) if lp.test is not None else None
    priming_ok = all(c.args == (const(ks),) and not c.loops and c.seq < lp.body_seq[0] for c in outside) and len(outside) <= 1 \
        and (not outside or (lp.kind == "while" and lp_test is not None
                             and streams.raw_valued(render.norm_bool(lp_test)[0], raw)))
    loop_pc = _loop_pc(rec, lp)
    ok = len(in_loop) == 1 and in_loop[0].args == (const(ks),) and priming_ok \
        and not [c for c in in_loop[0].pc[len(loop_pc):] if c not in streams.loop_test_conditions(rec, [lp.id])]
    run.ob("R1", MOD, "KdBufParser.parse_v2", "exactly one read(KEVENT_SIZE) per iteration, none elsewhere", ok,
           "" if ok else f"the record loop reads {[sym.pretty(c.args[0]) if c.args else '?' for c in in_loop]} per iteration and "
                         f"{len(outside)} other read(s) happen outside it: records are skipped, split or misaligned",
           facts={"reads": [(c.lineno, sym.pretty(c.args[0]) if c.args else None) for c in reads]}, line=lp.lineno)
    seeks = [c for c in rec.calls if c.func.op == "attr" and c.func.a[0] == reader and c.func.a[1] not in ("read",)]
    measured = _measured_end(fn, fn.args.args[1].arg) if seeks and lp.func.endswith("parse_v2") else None
    if measured is not None:
        # `start = reader.tell(); end = reader.seek(0, SEEK_END); reader.seek(start)`: the position is where it was, `end`
        # is the size of the stream; tell() itself moves nothing
        seeks = [c for c in seeks if c.func.a[1] != "tell" and c.lineno not in measured["lines"]]
    run.ob("R1", MOD, "KdBufParser.parse_v2", "no seek / other stream operation", not seeks,
           f"parse_v2 also calls reader.{[c.func.a[1] for c in seeks]}", nontrivial=False)
    end_test = measured is not None and not seeks and measured["loop_line"] == lp.lineno
    # exits: the loop is left exactly when the read is empty (break on an empty read, or `while <raw read>`)
    test_conds = streams.loop_test_conditions(rec, [lp.id])
    good_exit, bad_exit, short_raise = [], [], []
    for kind, pc, seq, lineno in lp.exits:
        inner = [c for c in pc[len(loop_pc):] if c not in test_conds]
        # (`return` inside a generator that parse_v2 delegates to ends the record loop just like `break`)
        if (kind == "break" or (kind == "return" and not lp.func.endswith("parse_v2"))) and len(inner) == 1 \
                and streams.empty_test(inner[0][0], inner[0][1], reader) == raw:
            good_exit.append(lineno)
        elif kind == "raise" and inner and any(_short_read(c, v, raw, ks) for c, v in inner) and all(
                _short_read(c, v, raw, ks) or streams.empty_test(c, not v, reader) == raw for c, v in inner):
            # an explicit error for a record that is neither empty nor complete - what struct.unpack does by itself to a short
            # buffer; the loop is not left normally this way (C06 is about what a truncated dump reports before that)
            short_raise.append(lineno)
        else:
            bad_exit.append((kind, lineno, [sym.pretty(c)[:50] for c, _ in inner]))
    test_exit = lp.kind == "while" and lp_test is not None and render.norm_bool(lp_test)[1] \
        and streams.raw_valued(render.norm_bool(lp_test)[0], raw)
    trivially_true = (lp.kind == "while" and lp.test is not None and sym.truth(lp.test) is True) or \
        (lp.kind == "for" and lp.iter is not None and lp.iter.op == "call" and not lp.iter.a[2] and (
            (lp.iter.a[0] == T("global", ("itertools.repeat",)) and len(lp.iter.a[1]) == 1)
            or (lp.iter.a[0] == T("global", ("itertools.count",)))))         # an endless iterator: `while True` in other words
    if end_test and not good_exit:
        # `while reader.tell() < end`: left exactly when nothing is left to read, which is when the next read would be empty
        test_exit = True
    ok = not bad_exit and ((good_exit and trivially_true) or (test_exit and not good_exit) or (test_exit and good_exit))
    run.ob("R1", MOD, "KdBufParser.parse_v2", "the only loop exit is an empty read", ok,
           "" if ok else f"loop exits: {bad_exit or 'none on empty read'} (loop test {sym.pretty(lp.test)[:60] if lp.test is not None else None}): "
                         f"a record is dropped, the loop ends early or never ends",
           facts={"exits": [(k, l) for k, _, _, l in lp.exits], "test": sym.pretty(lp.test)[:80] if lp.test is not None else None},
           line=lp.lineno)
    # yields
    yields = [r for r in rec.returns if r.kind in ("yield", "yield_from")]
    kev = repo.function("kevent", "from_kd_buf")
    want = interp.run(repo.module("kevent"), kev, {kev.args.args[0].arg: raw}).return_term()
    opaque = T("call", (T("func", ("pykdebugparser.kevent.from_kd_buf",)), (raw,), ()))

    def as_raw(t):
        """Replace every raw-valued loop variable by the read call it stands for."""
        m = {x: raw for x in sym.walk(t) if x.op == "widen" and streams.raw_valued(sym.final_widen(rec, x), raw)}
        return sym.subst(t, m)
    ok = len(yields) == 1 and yields[0].kind == "yield" and lp.id in yields[0].loops \
        and (sym.canon(as_raw(yields[0].value)) == sym.canon(want) or as_raw(yields[0].value) == opaque)
    run.ob("R1", MOD, "KdBufParser.parse_v2", "exactly one yield: from_kd_buf(<the raw read>)", ok,
           "" if ok else f"parse_v2 has {len(yields)} yield(s) or does not yield from_kd_buf of the unmodified 64 bytes read in "
                         f"that iteration", line=fn.lineno)
    if len(yields) == 1:
        inner = [c for c in yields[0].pc[len(loop_pc):] if c not in test_conds]
        okc = all(streams.empty_test(c, p_, reader) == raw or streams.nonempty_test(c, p_, reader) == raw for c, p_ in inner)
        run.ob("R1", MOD, "KdBufParser.parse_v2", "every non-empty read is yielded", okc,
               "" if okc else f"the yield also depends on {[sym.pretty(c)[:60] for c, _ in inner]}: some complete records are "
                              f"not reported", line=yields[0].lineno,
               witness="a record whose bytes make the extra condition false (e.g. an all-zero record)")
    rets = [r for r in rec.returns if r.kind == "return" and r.value != const(None)]
    run.ob("R1", MOD, "KdBufParser.parse_v2", "nothing else is produced", not rets,
           "parse_v2 also returns a value", nontrivial=False)

    # ------------------------------------------------------------------ R2 / R3 layout
    hdr = cstruct.CEval(repo, mod).ev(repo.constant("kd_buf_parser", "kd_header_v2"))
    if hdr.kind != "Struct":
        raise AnalysisError("kd_header_v2 is not a Struct")
    n_comp = 0
    for child, off in cstruct.field_offsets(hdr):
        n_comp += 1
        nm = child.name or child.kind
        cls = child.size[0]
        ok = cls in ("fixed", "field")
        run.ob("R2", MOD, "kd_header_v2", f"component {nm}", ok,
               "" if ok else
               f"header component `{nm}` ({child.kind}) has a length decided by the bytes that follow ({child.size[1]}) and is "
               f"not enclosed in FixedSized/Prefixed: it can swallow the leading bytes of the first record",
               facts={"kind": child.kind, "size_class": list(child.size), "offset": off}, line=child.line,
               witness=None if ok else "v2 file, empty thread map, first record whose timestamp has a zero low byte "
                                       "(e.g. 0x1100): the record is misaligned and struct.error is raised")
        if child.kind == "GreedyRange" and child.children:
            # a filler skipper: the property quantifies over ALL padding lengths, so the repeated unit must be one byte
            unit = child.children[0].size
            oku = unit == ("fixed", 1)
            run.ob("R2", MOD, "kd_header_v2", f"component {nm}: unit of repetition", oku,
                   "" if oku else
                   f"header component `{nm}` skips filler {unit[1] if unit[0] == 'fixed' else '?'} bytes at a time: a filler whose "
                   f"length is not a multiple of that is only partly consumed and every record after it is read misaligned",
                   facts={"unit": list(unit)}, line=child.line,
                   witness=None if oku else "v2 file with 4 zero bytes between the thread map and the first record")
    run.floor("R2", "header components", n_comp, 6)
    first = hdr.children[0]
    ok = first.kind == "Int" and first.size == ("fixed", 4) and first.info.get("endian") == "l" and not first.info.get("signed")
    run.ob("R3", MOD, "kd_header_v2", "thread count is the first little-endian u32", ok,
           f"the first header field is {first.describe()}; RAW_header.thread_count is a 32-bit little-endian int right after "
           f"the version word", facts={"field": first.name})
    tm = hdr.find("threadmap")
    if tm is None or tm.kind != "Array":
        run.ob("R3", MOD, "kd_header_v2", "threadmap is an Array of entries", False,
               "kd_header_v2 has no Array field named threadmap")
    else:
        okc = tm.info.get("count_field") == first.name
        run.ob("R3", MOD, "kd_header_v2", "Array count is the parsed thread count", okc,
               f"the thread map holds `{tm.info.get('count')}` entries instead of exactly the parsed thread count "
               f"({first.name})", facts={"count": tm.info.get("count")},
               witness="a dump with n >= 1 threads: the last entry is taken for event bytes (or event bytes for an entry)")
        ent = tm.children[0]
        lay = [(c.name, off, c.size) for c, off in cstruct.field_offsets(ent)] if ent.kind == "Struct" else []
        want_lay = [("tid", 0, ("fixed", 8)), ("pid", 8, ("fixed", 4)), ("process", 12, ("fixed", 20))]
        ints_ok = ent.kind == "Struct" and all(c.kind != "Int" or (c.info["endian"] == "l" and not c.info["signed"])
                                               for c in ent.children)
        run.ob("R3", MOD, "kd_threadmap", "entry layout tid u64@0, pid u32@8, name[20]@12", lay == want_lay and ints_ok,
               f"kd_threadmap is laid out as {lay}; XNU's kd_threadmap is thread u64@0, valid/pid u32@8, command char[20]@12",
               facts={"layout": [(n, o, list(s)) for n, o, s in lay]})
        proc = ent.find("process") if ent.kind == "Struct" else None
        okp = proc is not None and proc.kind == "FixedSized" and proc.children and proc.children[0].kind == "CString"
        run.ob("R3", MOD, "kd_threadmap", "name is a NUL-terminated string inside its 20-byte field", okp,
               "the process name is not a CString confined to its fixed 20-byte field"
               + (": PaddedString keeps everything up to the trailing NUL fill, so bytes left behind the terminator by an earlier, "
                  "longer name become part of the name" if proc is not None and proc.kind == "PaddedString" else ""),
               witness="a thread-map entry whose 20-byte field holds b'sh\\0kboardd\\0...': the name must be 'sh'")

    # ------------------------------------------------------------------ R4 tables
    hp = T("call", (T("attr", (T("global", (f"{MOD}.kd_header_v2",)), "parse_stream")), (reader,), ()))
    stm = [c for c in rec.calls if c.func == T("attr", (SELF, "set_thread_map"))]
    first_yield = min((r.seq for r in yields), default=None)
    ok = len(stm) == 1 and stm[0].args == (T("attr", (hp, "threadmap")),) and not stm[0].pc and not stm[0].loops \
        and (first_yield is None or stm[0].seq < first_yield)
    if not ok and len(stm) == 2 and all(len(c.pc) == 1 and not c.loops and (first_yield is None or c.seq < first_yield) for c in stm) \
            and tm is not None and tm.kind == "Array" and tm.info.get("count_field") == first.name:
        # `if header.count: set_thread_map(header.threadmap) else: set_thread_map(())`: with a count of zero the Array IS empty
        (c1, p1), (c2, p2) = stm[0].pc[0], stm[1].pc[0]
        a1, q1 = render.norm_bool(c1)
        a2, q2 = render.norm_bool(c2)
        count = T("attr", (hp, first.name))
        if a1 == a2 == count and (p1 if q1 else not p1) != (p2 if q2 else not p2):
            full, none = (stm[0], stm[1]) if (p1 if q1 else not p1) else (stm[1], stm[0])
            empty = len(none.args) == 1 and ((none.args[0].op in ("tuple", "list") and not none.args[0].a[0]) or
                                             none.args[0] in (const(()), const(""), T("attr", (hp, "threadmap"))))
            ok = full.args == (T("attr", (hp, "threadmap")),) and empty
    run.ob("R4", MOD, "KdBufParser.parse_v2", "set_thread_map(parsed header's thread map) before the first yield", ok,
           "parse_v2 does not call set_thread_map with kd_header_v2.parse_stream(reader).threadmap unconditionally before "
           "yielding events", facts={"calls": [sym.pretty(c.args[0])[:80] if c.args else None for c in stm]}, line=fn.lineno)
    sfn = repo.method("kd_buf_parser", "KdBufParser", "set_thread_map")
    srec = interp.run(mod, sfn, self_cls=kb)
    tmap = param(sfn.args.args[1].arg)
    tp, pn = T("attr", (SELF, "threads_pids")), T("attr", (SELF, "pids_names"))
    handed_over = [c for c in srec.calls if c.func.op == "attr" and c.func.a[1] in ("send", "throw") and c.func.a[0].op not in ("param",)]
    if handed_over:
        # the entries are sent to a coroutine (`table = self.thread_table(); table.send((tid, process))`): what happens to them
        # there, and when the tables are cleared, is not followed
        run.floor_failures.append(f"C02/R4: set_thread_map hands the entries to a coroutine ({sym.pretty(handed_over[0].func)[:60]}): "
                                  f"how the shared tables are cleared and filled is not decided")
    loops = [lr for lr in srec.loops.values() if lr.kind == "for" and lr.iter == tmap]
    ok_loop = len(loops) == 1
    if not ok_loop and not handed_over:
        # the tables are filled from a list of the parser's own that the method builds out of the thread map first
        via = [lr for lr in srec.loops.values() if lr.kind == "for" and lr.iter is not None and sym.root_of(lr.iter) == SELF
               and any(e.kind == "sub-store" and lr.id in e.loops for e in srec.effects)]
        if via:
            lst = via[0].iter
            grows = [e for e in srec.effects if e.kind == "mut-call" and e.key in ("extend", "append", "insert") and (e.path or e.base) == lst
                     and via[0].id not in e.loops]
            resets = [e for e in srec.effects if (e.kind == "mut-call" and e.key == "clear" and (e.path or e.base) == lst)
                      or (e.kind == "attr-store" and T("attr", ((e.path or e.base), e.key)) == lst)
                      or (e.kind == "sub-store" and (e.path or e.base) == lst and e.key.op == "sliceidx")]
            if grows and not resets:
                run.ob("R4", MOD, "KdBufParser.set_thread_map", "the tables are filled from this dump's thread map only", False,
                       f"set_thread_map fills the tables from {sym.pretty(lst)}, a list it only ever extends: the entries of every "
                       f"thread map this parser object has read are written back after the tables were cleared", line=sfn.lineno,
                       witness="two dumps parsed with one KdBufParser object; the first names a thread the second does not")
            else:
                run.floor_failures.append(f"C02/R4: set_thread_map fills the tables from {sym.pretty(lst)[:40]}, which it builds from the "
                                          f"thread map first: whether every entry arrives, once and in order, is not decided")
            handed_over = via
    if not handed_over:
        run.ob("R4", MOD, "KdBufParser.set_thread_map", "one pass over the entries in order", ok_loop,
               "set_thread_map does not iterate over the given thread map exactly once in order (reversed/sorted/filtered)",
               line=sfn.lineno)
    if ok_loop and not handed_over:
        lp2 = loops[0]
        ent = lp2.target
        stores = [e for e in srec.effects if e.kind == "sub-store" and lp2.id in e.loops]
        want_st = {(tp, T("attr", (ent, "tid")), T("attr", (ent, "pid"))),
                   (pn, T("attr", (ent, "pid")), T("attr", (ent, "process")))}
        def _real_pc(pc):
            # inside the loop over the thread map "the thread map is not empty" says nothing
            out = []
            for c, pol in pc:
                atom, apol = render.norm_bool(c)
                if (pol if apol else not pol) and (atom == tmap or atom == T("call", (T("builtin", ("len",)), (tmap,), ()))):
                    continue
                out.append((c, pol))
            return out
        got_st = {((e.path or e.base), e.key, e.value) for e in stores if not _real_pc(e.pc)}
        cond_st = [e for e in stores if _real_pc(e.pc)]
        ok = got_st == want_st and not cond_st
        run.ob("R4", MOD, "KdBufParser.set_thread_map", "stores tid->pid and pid->name unconditionally", ok,
               "" if ok else ("set_thread_map does not store threads_pids[entry.tid] = entry.pid and pids_names[entry.pid] = "
                              "entry.process for every entry" +
                              (f" (conditional on {[sym.pretty(c)[:40] for c, _ in cond_st[0].pc]}: an earlier entry wins)"
                               if cond_st else "")),
               facts={"stores": [f"{sym.pretty(a)}[{sym.pretty(k)}] = {sym.pretty(v)}" for a, k, v in got_st]}, line=sfn.lineno)
        other_mut = [e for e in srec.effects if e.kind == "mut-call" and e.key in ("setdefault", "update") and lp2.id in e.loops]
        run.ob("R4", MOD, "KdBufParser.set_thread_map", "no first-wins insertion", not other_mut,
               f"set_thread_map uses {[e.key for e in other_mut]}: a later entry for the same key does not win", nontrivial=False)
        for table in (tp, pn):
            clears = [e for e in srec.effects if e.kind == "mut-call" and e.key == "clear" and (e.path or e.base) == table
                      and not e.pc and not e.loops and e.seq < lp2.body_seq[0]]
            run.ob("R4", MOD, "KdBufParser.set_thread_map", f"{table.a[1]} cleared before any store", len(clears) == 1,
                   f"{table.a[1]} is not cleared (unconditionally, before the fill loop): entries of an earlier parse with the "
                   f"same map objects survive", line=sfn.lineno)
    rebind = [e for e in srec.effects + rec.effects if e.kind == "attr-store" and e.key in ("threads_pids", "pids_names")]
    run.ob("R4", MOD, "KdBufParser", "table attributes are never rebound", not rebind,
           f"{[e.func.rsplit('.', 1)[-1] for e in rebind]} rebinds self.threads_pids / self.pids_names: the objects shared with "
           f"the caller and the trace decoder are no longer the ones updated", line=rebind[0].lineno if rebind else None)


def _measured_end(fn, reader_name):
    """Recognises, among the top-level statements of the function, the idiom that measures the stream without moving in it:
         start = reader.tell(); end = reader.seek(0, SEEK_END) [or: reader.seek(0, SEEK_END); end = reader.tell()]; reader.seek(start)
    followed by a loop `while reader.tell() < end` (or `!=`).  Returns the lines of the three calls and of the loop, or None
    when any seek of the function has another form."""
    def is_call(n, meth):
        return isinstance(n, ast.Call) and isinstance(n.func, ast.Attribute) and n.func.attr == meth \
            and isinstance(n.func.value, ast.Name) and n.func.value.id == reader_name and not n.keywords
    def is_end_seek(n):
        if not is_call(n, "seek") or len(n.args) != 2:
            return False
        a0, a1 = n.args
        whence = (isinstance(a1, ast.Constant) and a1.value == 2) or (isinstance(a1, ast.Attribute) and a1.attr == "SEEK_END") \
            or (isinstance(a1, ast.Name) and a1.id == "SEEK_END")
        return isinstance(a0, ast.Constant) and a0.value == 0 and whence
    saved, ends, lines, at_end, restored, loop_line = set(), set(), set(), False, False, None
    for st in fn.body:
        calls = [n for n in ast.walk(st) if isinstance(n, ast.Call) and isinstance(n.func, ast.Attribute)
                 and isinstance(n.func.value, ast.Name) and n.func.value.id == reader_name]
        if isinstance(st, ast.While):
            t = st.test
            if restored and isinstance(t, ast.Compare) and len(t.ops) == 1 and isinstance(t.ops[0], (ast.Lt, ast.NotEq)) \
                    and is_call(t.left, "tell") and isinstance(t.comparators[0], ast.Name) and t.comparators[0].id in ends:
                loop_line = st.lineno
                inner = [n for b in st.body + st.orelse for n in ast.walk(b) if isinstance(n, ast.Call) and isinstance(n.func, ast.Attribute)
                         and isinstance(n.func.value, ast.Name) and n.func.value.id == reader_name and n.func.attr in ("seek",)]
                inner += [n for b in st.body + st.orelse for n in ast.walk(b) if isinstance(n, ast.Name) and n.id in ends
                          and isinstance(n.ctx, ast.Store)]
                if inner:
                    return None
                continue
            if any(c.func.attr == "seek" for c in calls):
                return None
            continue
        if isinstance(st, ast.Assign) and len(st.targets) == 1 and isinstance(st.targets[0], ast.Name):
            name, v = st.targets[0].id, st.value
            if is_call(v, "tell") and not v.args:
                (ends if at_end else saved).add(name)
                lines.add(v.lineno)
                continue
            if is_end_seek(v) and saved:
                ends.add(name); at_end = True; lines.add(v.lineno)
                continue
            saved.discard(name); ends.discard(name)
        if isinstance(st, ast.Expr):
            v = st.value
            if is_end_seek(v) and saved:
                at_end = True; lines.add(v.lineno)
                continue
            if at_end and is_call(v, "seek") and len(v.args) == 1 and isinstance(v.args[0], ast.Name) and v.args[0].id in saved:
                at_end = False; restored = True; lines.add(v.lineno)
                continue
        if any(c.func.attr == "seek" for c in calls):
            return None
        uses = [n for n in ast.walk(st) if isinstance(n, ast.Name) and n.id == reader_name]
        if any(c.func.attr not in ("tell",) for c in calls) or len(uses) > len(calls):
            if at_end:
                return None
            saved.clear()       # a read (or handing the stream to someone else) moves it: positions taken before are stale
    if not restored or at_end or loop_line is None:
        return None
    return {"lines": lines, "loop_line": loop_line}


def _loop_pc(rec, lp):
    """Conditions already in force at loop entry (shared by everything recorded in the loop)."""
    inside = [c.pc for c in rec.calls if lp.id in c.loops] + [r.pc for r in rec.returns if lp.id in r.loops]
    if not inside:
        return ()
    pref = list(inside[0])
    for pc in inside[1:]:
        n = 0
        while n < len(pref) and n < len(pc) and pref[n] == pc[n]:
            n += 1
        pref = pref[:n]
    return tuple(pref)
