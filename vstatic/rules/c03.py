"""C03 - a version-3 dump yields all chunked events, then logs, plus metadata sections."""
from __future__ import annotations

import ast
from typing import Dict, List, Optional

from .. import normal, consteval, guards, render, sym
from ..model import AnalysisError, Repo
from ..report import Run, take_over
from ..sym import T, const, param

EXPLANATION = (
    "Structural clauses of parse_v3 from its symbolic interpretation (calls, effects, yields with path conditions, loop "
    "membership and order). R1 (records per chunk): inside the chunk loop the only event source is "
    "`yield from_kd_buf(read(KEVENT_SIZE))`, unconditional, in a loop over range(chunk_size // KEVENT_SIZE) where chunk_size "
    "is the 64-bit word parsed after the events tag; the outer loop is left exactly when the 8 bytes after a chunk differ "
    "from the MORE_EVENTS tag. R2 (ordering): every event yield precedes the log yield; set_thread_map(<parsed v3 thread "
    "map>) is called unconditionally before the first event. R3 (tag dispatch): every module constant TRACEV3_<X> is either "
    "used by the scan/loop or appears in exactly one dispatch branch whose effect lands in the state named <x> "
    "(dyld_modules, trace_codes, processes, kernel_extensions, images, log_events, log_strings) with the payload decoded by "
    "plistlib.loads / .decode(). R4 (accumulate vs overwrite): kernel extensions, dyld modules, trace codes and log events "
    "accumulate across blocks (extend / += / update-then-extend) and all five attributes are reset once per parse before the "
    "dispatch loop. R6 (logs): every raw record goes through OsLogEvent.from_raw_log_event(record, inverted string index) and "
    "is yielded in order; the table extension is guarded by both process and thread_identifier and writes "
    "threads_pids[thread] = pid, pids_names[pid] = process (the two local accumulators are identified by their role - what "
    "the log loop iterates, what the decoder receives - not by their names). R7 (tag scanner): seek_until is reduced to a "
    "machine and shown to stop right after the first occurrence of each tag the parser passes and to raise at end of stream "
    "- by the sliding-window theorem or by exploring the product with the tag's KMP automaton (a wrong scanner is reported "
    "with the shortest witness stream). R8 (block framing): an additional-data block is tag[8] + u64 length + payload + "
    "filler to the next 8-byte boundary; an explicit filler function / alignment modulus is evaluated for payload lengths "
    "0..63. Not decided: the stackshot scan against real files, the seek(-8, 1) rewind."
)

MOD = "pykdebugparser.kd_buf_parser"
SELF = param("self")

SCAN_TAGS = {"TRACEV3_STACKSHOT_END", "TRACEV3_THREADMAP_TAG", "TRACEV3_EVENTS_TAG", "TRACEV3_MORE_EVENTS"}
ACCUMULATING = {"kernel_extensions", "dyld_modules", "trace_codes", "log_events"}


def thread_map_entries(repo: Repo, run: Run) -> None:
    """The version-3 thread-map chunk is an array of the same kd_threadmap entries as the version-2 header's: the entry
    layout C02/R3 establishes (tid u64, pid u32, NUL-terminated name in its 20-byte field) is what populates the tables
    here too, and so is the clear-then-fill discipline of set_thread_map (C02/R4)."""
    if getattr(run, "is_probe", False):
        return          # (a check run for its own obligations does not take over in turn)
    import ast
    from . import c02
    mod = repo.module("kd_buf_parser")
    node = mod.constants.get("kd_v3_threadmap")
    uses_shared = node is not None and any(isinstance(n, ast.Name) and n.id == "kd_threadmap" for n in ast.walk(node))
    run.ob("R9", MOD, "kd_v3_threadmap", "thread-map chunk is an array of kd_threadmap entries", uses_shared,
           "kd_v3_threadmap no longer uses the kd_threadmap entry layout shared with version 2: its entries are not judged",
           nontrivial=False)
    probe = Run("C02", run.tier, run.repo_root)
    probe.is_probe = True
    try:
        c02.check(repo, probe)
    except AnalysisError:
        pass
    n = 0
    for o in probe.obligations:
        if (o["rule"] == "R3" and o["scope"] == "kd_threadmap") or \
                (o["rule"] == "R4" and o["scope"].endswith("set_thread_map")):
            n += 1
            run.ob("R9", o["module"], o["scope"], f"thread-map entries (C02/{o['rule']}): {o['construct']}", o["ok"],
                   (o.get("what", "") + " - the version-3 thread-map chunk fills the thread/process tables through the same entry "
                    "layout and the same set_thread_map") if not o["ok"] else "", nontrivial=False)
    run.floor("R9", "thread-map obligations taken over from C02", n, 4)


def string_index_obligations(repo: Repo, run: Run) -> None:
    """"every log record ... with its strings resolved through the dump's string index": which fields of a record are numbers
    of the string index, and that each is replaced by `log_strings[number]`, is C16/R6 - a necessary condition here."""
    if getattr(run, "is_probe", False):
        return
    from . import c16
    probe = Run("C16", run.tier, run.repo_root)
    probe.is_probe = True
    try:
        c16.check(repo, probe)
    except AnalysisError:
        pass            # the floor below fails if the obligations were not reached
    n = 0
    for o in probe.obligations:
        if o["rule"] == "R6" and "through the string index" in o["construct"]:
            n += 1
            run.ob("R10", o["module"], o["scope"], f"log record strings (C16/R6): {o['construct']}", o["ok"],
                   (o.get("what", "") + " - the log records parse_v3 yields then carry a string number (or the wrong text) instead of "
                    "the text the dump's string index gives for it") if not o["ok"] else "", nontrivial=False)
    for o in probe.obligations:
        if o["rule"] == "R12":
            # (C16/R12 records an obligation only where a decoded field is stored on the truthiness of its raw value: string
            # number 0 of the index is then never resolved)
            run.ob("R10", o["module"], o["scope"], f"log record strings (C16/R12): {o['construct']}", o["ok"],
                   (o.get("what", "") + " - string number 0 of the dump's string index is a string like any other") if not o["ok"] else "",
                   nontrivial=False)
    for o in probe.obligations:
        if o["rule"] == "R13":
            run.ob("R10", o["module"], o["scope"], f"log record decoding (C16/R13): {o['construct']}", o["ok"],
                   (o.get("what", "") + " - a log record the decoder raises on ends parse_v3: the records behind it are not yielded") if not o["ok"] else "",
                   nontrivial=False)
    run.floor("R10", "string-index obligations taken over from C16", n, 9)


def check(repo: Repo, run: Run) -> None:
    take_over(run, "c12", "C12", repo, lambda o: o["scope"] == "kevents" and o["rule"] in ("R1", "R2"), "R0",
              "events listing", "PyKdebugParser.kevents draws every record of the dump through the container parser: a listing that "
              "stops early (or reads another source) leaves the log records behind it undecoded, so they do not extend the "
              "thread/process tables", 8)
    thread_map_entries(repo, run)
    string_index_obligations(repo, run)
    interp = sym.Interp(repo)
    mod = repo.module("kd_buf_parser")
    kb = repo.cls("kd_buf_parser", "KdBufParser")
    ks = consteval.evaluate(repo, mod, mod.constants.get("KEVENT_SIZE"))
    if not isinstance(ks, int):
        raise AnalysisError("kd_buf_parser.KEVENT_SIZE is missing or not a constant this analysis can evaluate")
    fn = repo.method("kd_buf_parser", "KdBufParser", "parse_v3")
    rec = interp.run(mod, fn, self_cls=kb)
    if rec.notes:
        raise AnalysisError(f"parse_v3: unsupported construct {rec.notes[0]}")
    reader = param(fn.args.args[1].arg)
    raw = T("call", (T("attr", (reader, "read")), (const(ks),), ()))
    tags: Dict[str, bytes] = {}
    for name, node in mod.constants.items():
        if name.startswith("TRACEV3_"):
            v = consteval.evaluate(repo, mod, node)
            if isinstance(v, bytes):
                tags[name] = v
    by_bytes = {v: k for k, v in tags.items()}
    run.analysed["v3_tags"] = sorted(tags)
    run.floor("R3", "TRACEV3_* constants", len(tags), 10)

    kev = repo.function("kevent", "from_kd_buf")
    want_event = interp.run(repo.module("kevent"), kev, {kev.args.args[0].arg: raw}).return_term()
    yields = [r for r in rec.returns if r.kind in ("yield", "yield_from")]
    opaque = T("call", (T("func", ("pykdebugparser.kevent.from_kd_buf",)), (raw,), ()))
    ev_yields = [y for y in yields if sym.canon(y.value) == sym.canon(want_event) or y.value == opaque]
    other_yields = [y for y in yields if y not in ev_yields]

    # ------------------------------------------------------------------ R1
    from .. import streams
    ok = len(ev_yields) == 1 and len(ev_yields[0].loops) >= 2
    if not ev_yields:
        log_call0 = T("attr", (T("class", ("pykdebugparser.os_log_event.OsLogEvent",)), "from_raw_log_event"))
        def _from_helper(x):
            # an item of a helper object / generator of the package that was not reduced
            return x.op == "elem" and any(z.op == "new" or (z.op == "call" and z.a[0].op in ("func", "class"))
                                          or (z.op == "call" and z.a[0].op == "attr" and z.a[0].a[0].op == "new")
                                          for z in sym.walk(x.a[0]))
        unread0 = [y for y in other_yields if not (y.value.op == "call" and y.value.a[0] == log_call0)
                   and any(_from_helper(x) for x in sym.walk(y.value))]
        if unread0:
            # the events come out of a helper object / generator the interpreter did not reduce (`for chunk in Chunks(reader):
            # yield from chunk`): what is yielded there is not known
            raise AnalysisError(f"parse_v3 yields a value of unknown provenance at line {unread0[0].lineno} "
                                f"({sym.pretty(unread0[0].value)[:80]}) and no from_kd_buf(read({ks})): how the events are read is not decided")
    run.ob("R1", MOD, "KdBufParser.parse_v3", "one event yield: from_kd_buf(<raw 64-byte read>) inside chunk/record loops", ok,
           f"parse_v3 has {len(ev_yields)} yields of from_kd_buf(read({ks})) (expected one, inside the record loop of the chunk loop)",
           line=fn.lineno)
    if not ok:
        return
    ey = ev_yields[0]
    inner = rec.loops[ey.loops[-1]]
    outer_ids = [lid for lid in ey.loops[:-1] if rec.loops[lid].kind == "while"]
    if not outer_ids:
        raise AnalysisError("parse_v3: the chunk loop enclosing the record loop was not found")
    outer = rec.loops[outer_ids[-1]]
    size_t = T("call", (T("global", ("construct.Int64ul.parse_stream",)), (reader,), ()))
    want_iter = T("call", (T("builtin", ("range",)), (T("bin", ("//", size_t, const(ks))),), ()))
    counted = None
    if inner.kind == "while" and inner.test is not None and not inner.exits and not inner.continue_envs and not inner.break_envs:
        # `left = n; while left > 0: ...; left -= 1` runs max(n, 0) times, as `for _ in range(n)` does: the test compares the
        # loop's own counter with 0, and the only thing an iteration does to the counter is one unconditional `- 1`
        atom, apol = render.norm_bool(inner.test)
        var = None
        if apol and atom.op == "cmp" and atom.a[0] in (">", "!=") and atom.a[2] == const(0):
            var = atom.a[1]
        elif apol and atom.op == "cmp" and atom.a[0] == "<" and atom.a[1] == const(0):
            var = atom.a[2]
        elif apol and atom.op == "widen":
            var = atom
        if var is not None and var.op == "widen" and var.a[1] == inner.id:
            full = inner.carried.get(var.a[0])
            if full is not None and full.op == "widen" and len(full.a[2]) == 2:
                init, step = full.a[2]
                if step.op == "bin" and step.a[0] == "-" and step.a[2] == const(1) and step.a[1].op == "widen" \
                        and step.a[1].a[:2] == var.a[:2]:
                    counted = T("call", (T("builtin", ("range",)), (init,), ()))
    if counted is None and (inner.kind != "for" or inner.iter is None):
        raise AnalysisError("parse_v3: the record loop of a chunk is not a `for ... in range(<count>)` loop (a counter driven "
                            "while loop or similar): how many records it reads per chunk is not decided")
    inner_iter = counted if counted is not None else inner.iter
    run.ob("R1", MOD, "KdBufParser.parse_v3", "record loop runs chunk_size // KEVENT_SIZE times", inner_iter == want_iter,
           "" if inner_iter == want_iter else
           f"the record loop iterates over {sym.pretty(inner_iter)[:100]} instead of range(<parsed chunk size> // {ks}): events of a "
           f"chunk are dropped or bytes of the next section are decoded as events",
           facts={"iter": sym.pretty(inner_iter)[:120]}, line=inner.lineno)
    inner_pc = [c for c in ey.pc if c not in streams.loop_test_conditions(rec, ey.loops)]
    run.ob("R1", MOD, "KdBufParser.parse_v3", "every record of a chunk is yielded", not inner_pc,
           f"the event yield depends on {[sym.pretty(c)[:50] for c, _ in inner_pc]}: some records are not reported",
           line=ey.lineno)
    reads_inner = [c for c in rec.calls if c.func == T("attr", (reader, "read")) and inner.id in c.loops]
    run.ob("R1", MOD, "KdBufParser.parse_v3", "one read(KEVENT_SIZE) per record", len(reads_inner) == 1 and
           reads_inner[0].args == (const(ks),),
           f"the record loop performs reads {[sym.pretty(c.args[0]) for c in reads_inner if c.args]}", nontrivial=False)
    # chunk prologue inside the outer loop: seek_until(EVENTS_TAG), size, read(8)
    seeks = [c for c in rec.calls if c.func.op == "func" and c.func.a[0].endswith("seek_until")]
    ev_seek = [c for c in seeks if outer.id in c.loops and inner.id not in c.loops]
    ok = len(ev_seek) == 1 and ev_seek[0].args == (reader, const(tags.get("TRACEV3_EVENTS_TAG")))
    run.ob("R1", MOD, "KdBufParser.parse_v3", "each chunk is located by the events tag", ok,
           "the chunk loop does not scan for TRACEV3_EVENTS_TAG exactly once per chunk", nontrivial=False)
    # outer loop exit
    more = tags.get("TRACEV3_MORE_EVENTS")
    rd = T("call", (T("attr", (reader, "read")), (const(len(more)) if more else const(8),), ()))
    okx = False
    for kind, pc, seq, lineno in outer.exits:
        if kind != "break":
            continue
        innerpc = [x for x in pc]
        for c, pol in innerpc:
            atom, apol = render.norm_bool(c)
            eff = pol if apol else not pol
            if atom == T("cmp", ("==", rd, const(more))) and eff is False:
                okx = True
            if atom == T("cmp", ("==", const(more), rd)) and eff is False:
                okx = True
    n_break = sum(1 for e in outer.exits if e[0] in ("break", "return"))
    form_break = okx and n_break == 1 and outer.test is not None and sym.truth(outer.test) is True
    # flag form: `more = True; while more: ...; more = read(8) == MORE_EVENTS`
    form_flag = False
    if outer.test is not None and n_break == 0:
        atom, apol = render.norm_bool(sym.resolve_widens(rec, outer.test))
        if atom.op == "widen" and apol:
            contribs = list(atom.a[2])
            eq = [c for c in contribs if render.norm_bool(c) in ((T("cmp", ("==", rd, const(more))), True),
                                                                 (T("cmp", ("==", const(more), rd)), True))]
            rest = [c for c in contribs if c not in eq]
            form_flag = len(eq) == 1 and all(sym.truth(c) is True for c in rest)
    # tag form: `tag = MORE_EVENTS; while tag == MORE_EVENTS: ...; tag = read(8)`
    form_tag = False
    if outer.test is not None and n_break == 0:
        atom, apol = render.norm_bool(sym.resolve_widens(rec, outer.test))
        if apol and atom.op == "cmp" and atom.a[0] == "==" and const(more) in (atom.a[1], atom.a[2]):
            w_ = atom.a[2] if atom.a[1] == const(more) else atom.a[1]
            if w_.op == "widen":
                contribs = [c for c in w_.a[2] if not (c.op == "widen" and c.a[:2] == w_.a[:2])]
                form_tag = len(contribs) == 2 and const(more) in contribs and rd in contribs
    form_flag = form_flag or form_tag
    run.ob("R1", MOD, "KdBufParser.parse_v3", "chunk loop continues iff the next 8 bytes are MORE_EVENTS", form_break or form_flag,
           "" if form_break or form_flag else
           "the chunk loop is not left exactly when read(8) differs from TRACEV3_MORE_EVENTS: later chunks are skipped or the "
           "loop runs past the last chunk",
           facts={"exits": [(e[0], [sym.pretty(c)[:60] for c, _ in e[1]]) for e in outer.exits],
                  "test": sym.pretty(outer.test)[:100] if outer.test is not None else None}, line=outer.lineno)

    # ------------------------------------------------------------------ R7 the tag scanner stops after the FIRST occurrence
    from .. import scanner
    su = repo.function("kd_buf_parser", "seek_until")
    SU = T("func", (f"{MOD}.seek_until",))
    wanted = {}
    for c in rec.calls:
        if c.func == SU and len(c.args) == 2:
            if c.args[1].op != "const" or not isinstance(c.args[1].a[0], bytes):
                raise AnalysisError(f"seek_until is called with a tag that is not a constant: {sym.pretty(c.args[1])[:60]}")
            nm = next((k for k, v in tags.items() if v == c.args[1].a[0]), repr(c.args[1].a[0]))
            wanted[nm] = c.args[1].a[0]
    if not wanted:
        raise AnalysisError("anchor vanished: parse_v3 no longer locates its sections with seek_until(reader, <tag>)")
    try:
        verdicts = scanner.decide(interp, mod, su, wanted)
    except scanner.Undecided as ex:
        raise AnalysisError(f"seek_until is neither the exact sliding window nor a one-byte-per-iteration finite scanner: whether "
                            f"every tag is found cannot be decided ({ex})")
    for nm, v in sorted(verdicts.items()):
        run.ob("R7", MOD, "seek_until", f"stops right after the first occurrence of {nm}", v.ok,
               "" if v.ok else f"seek_until(reader, {nm}) {v.what}; stream (hex): {v.witness}",
               facts={"decided_by": v.how, "configurations_explored": v.explored}, line=su.lineno,
               witness=None if v.ok else f"a version-3 dump whose bytes before the section contain {v.witness}")

    # ------------------------------------------------------------------ R2 ordering
    log_call = T("attr", (T("class", ("pykdebugparser.os_log_event.OsLogEvent",)), "from_raw_log_event"))
    log_yields = [y for y in other_yields if y.value.op == "call" and y.value.a[0] == log_call]
    strange = [y for y in other_yields if y not in log_yields]
    unread = [y for y in strange if any(x.op in ("elem", "widen", "unknown") or (x.op == "call" and x.a[0].op == "func")
                                        for x in sym.walk(y.value))]
    if unread:
        # an item of a generator / helper object the interpreter did not reduce (`for rec in log_records.decoded(): yield rec`):
        # what is yielded there is not known - neither "a decoded log record" nor "something else"
        raise AnalysisError(f"parse_v3 yields a value of unknown provenance at line {unread[0].lineno}: "
                            f"{sym.pretty(unread[0].value)[:100]}; whether it is a decoded log record is not decided")
    run.ob("R2", MOD, "KdBufParser.parse_v3", "only events and decoded log records are yielded", not strange,
           f"parse_v3 also yields {[sym.pretty(y.value)[:60] for y in strange]}", nontrivial=False)
    ok = len(log_yields) == 1 and log_yields[0].seq > outer.body_seq[1]
    run.ob("R2", MOD, "KdBufParser.parse_v3", "log records are yielded after all events", ok,
           "the log yield does not come after the chunk loop: logs are interleaved with or precede events", line=fn.lineno)
    tmap = T("attr", (T("call", (T("attr", (T("global", (f"{MOD}.kd_v3_threadmap",)), "parse_stream")), (reader,), ())),
                      "threadmap"))
    stm = [c for c in rec.calls if c.func == T("attr", (SELF, "set_thread_map"))]
    ok = len(stm) == 1 and stm[0].args == (tmap,) and not stm[0].pc and not stm[0].loops and stm[0].seq < outer.body_seq[0]
    run.ob("R2", MOD, "KdBufParser.parse_v3", "thread map installed before the first event", ok,
           "parse_v3 does not call set_thread_map(kd_v3_threadmap.parse_stream(reader).threadmap) unconditionally before the "
           "chunk loop", line=fn.lineno)
    tm_seek = [c for c in seeks if not c.loops and len(c.args) == 2 and c.args[1] == const(tags.get("TRACEV3_THREADMAP_TAG"))]
    run.ob("R2", MOD, "KdBufParser.parse_v3", "thread map located by its tag", len(tm_seek) == 1 and
           (not stm or tm_seek[0].seq < stm[0].seq), "the thread-map tag is not scanned for before the thread map is parsed",
           nontrivial=False)

    # ------------------------------------------------------------------ R3 / R4 dispatch
    blocks_t = T("call", (T("attr", (T("global", (f"{MOD}.kd_v3_additional_data",)), "parse_stream")), (reader,), ()))
    dl = [lr for lr in rec.loops.values() if lr.kind == "for" and lr.iter == blocks_t]
    if len(dl) != 1:
        raise AnalysisError("parse_v3: the additional-data dispatch loop was not found")
    dl = dl[0]
    blk = dl.target
    tag_t = T("attr", (blk, "tag"))
    data_t = T("attr", (blk, "data"))
    loads = T("call", (T("global", ("plistlib.loads",)), (data_t,), ()))

    def branch_tag(pc) -> Optional[str]:
        """The tag constant this path is taken for: the one tested equal, or the only one left of a membership test after
        the tags tested unequal on the way (`if tag not in PLIST_TAGS: continue ... elif ... else:`)."""
        hit = None
        members, excluded = None, set()
        flat = list(guards._atoms(pc))
        # a disjunction left by an early `continue` (`not (A and B)`): the alternatives contradicted by the equalities tested
        # unequal elsewhere on the path drop out; if one is left it holds
        unequal = set()
        for c, pol in flat:
            atom, apol = render.norm_bool(c)
            eff = pol if apol else not pol
            if atom.op == "cmp" and atom.a[0] in ("==", "!=") and tag_t in (atom.a[1], atom.a[2]) and (atom.a[0] == "==") != eff:
                unequal.add(atom.a[2] if atom.a[1] == tag_t else atom.a[1])
        for c, pol in list(flat):
            if c.op == "bool" and ((c.a[0] == "and" and not pol) or (c.a[0] == "or" and pol)):
                alts = [(x, pol) for x in c.a[1]]         # at least one of these (part, polarity) holds
                live = []
                for x, xp in alts:
                    atom, apol = render.norm_bool(x)
                    eff = xp if apol else not xp
                    if atom.op == "cmp" and atom.a[0] in ("==", "!=") and tag_t in (atom.a[1], atom.a[2]) and (atom.a[0] == "==") == eff \
                            and (atom.a[2] if atom.a[1] == tag_t else atom.a[1]) in unequal:
                        continue
                    live.append((x, xp))
                if len(live) == 1:
                    flat.extend(guards._atoms((live[0],)))
        for c, pol in flat:
            atom, apol = render.norm_bool(c)
            eff = pol if apol else not pol
            if atom.op != "cmp" or tag_t not in (atom.a[1], atom.a[2]):
                continue
            other = atom.a[2] if atom.a[1] == tag_t else atom.a[1]
            if atom.a[0] in ("==", "!="):
                if other.op == "const" and other.a[0] in by_bytes:
                    if (atom.a[0] == "==") == eff:
                        hit = by_bytes[other.a[0]]
                    else:
                        excluded.add(by_bytes[other.a[0]])
            elif atom.a[0] in ("in", "not in") and atom.a[1] == tag_t and (atom.a[0] == "in") == eff:
                items = other.a[0] if other.op in ("tuple", "list", "set") else other.a[0] if other.op == "const" and isinstance(other.a[0], (tuple, frozenset)) else None
                if items is not None:
                    vals = [(x.a[0] if isinstance(x, T) and x.op == "const" else x) for x in items]
                    if all(v in by_bytes for v in vals):
                        members = {by_bytes[v] for v in vals} if members is None else members & {by_bytes[v] for v in vals}
        if hit is None and members is not None and len(members - excluded) == 1:
            hit = next(iter(members - excluded))
        return hit

    # the two local accumulators are known by their role, not by their name: the list the log loop iterates over holds
    # the raw log records, the second argument of the log decoder is the string table
    log_dec = [c for c in rec.calls if c.func == log_call]
    roles = {}
    if len(log_yields) == 1 and log_yields[0].loops:
        ll_ = rec.loops.get(log_yields[0].loops[-1])
        if ll_ is not None and ll_.iter is not None and ll_.iter.op == "widen":
            roles[ll_.iter.a[0]] = "log_events"
    if log_dec and len(log_dec[0].args) > 1 and log_dec[0].args[1].op == "widen":
        roles[log_dec[0].args[1].a[0]] = "log_strings"
    landed: Dict[str, List[dict]] = {}
    for e in rec.effects:
        if dl.id not in e.loops:
            continue
        tg = branch_tag(e.pc)
        if tg is None:
            continue
        pth = e.path if e.path is not None else e.base
        target = _state_name(pth if e.kind != "attr-store" else T("attr", (pth, e.key)))
        target = roles.get(target, target)
        landed.setdefault(tg, []).append({"kind": e.kind, "key": e.key, "target": target, "aug": e.aug, "value": e.value,
                                          "pc": e.pc, "line": e.lineno})
    # local-variable branches (log_strings = {...}): visible in the widened variable handed to the log decoder
    ls_term = normal.accum_to_comp(rec, sym.resolve_widens(rec, log_dec[0].args[1])) if log_dec and len(log_dec[0].args) > 1 else None
    if ls_term is not None:
        def _leaves(t, pc):
            if t.op == "ite":
                yield from _leaves(t.a[1], pc + ((t.a[0], True),))
                yield from _leaves(t.a[2], pc + ((t.a[0], False),))
            else:
                yield t, pc
        for x in sym.walk(ls_term):
            if x.op == "ite":
                for leaf, pc_ in _leaves(x, ()):
                    tg = branch_tag(pc_)
                    if tg and (leaf.op == "comp" or (leaf.op == "call" and leaf.a[0] == T("builtin", ("dict",)))) \
                            and not any(l["value"] == leaf for l in landed.get(tg, [])):
                        landed.setdefault(tg, []).append({"kind": "assign", "key": None, "target": "log_strings", "aug": None,
                                                          "value": leaf, "pc": (), "line": dl.lineno})
    # R11: a payload is decoded only under a test of its tag - a block of a tag the parser does not know (a section added by a
    # newer kernel, zero padding framed as a block) must be passed over unread, or its bytes abort the listing before the logs
    decoders_ = [c for c in rec.calls if dl.id in c.loops and (
        (c.func == T("global", ("plistlib.loads",)) and c.args and sym.contains(c.args[0], data_t))
        or (c.func.op == "attr" and c.func.a[1] == "decode" and sym.contains(c.func.a[0], data_t)))]

    def _tag_tested(pc) -> bool:
        for c_, pol_ in guards._atoms(pc):
            atom, apol = render.norm_bool(c_)
            eff = pol_ if apol else not pol_
            if atom.op == "cmp" and sym.contains(atom, tag_t):
                if (atom.a[0] in ("==", "in") and eff) or (atom.a[0] in ("!=", "not in") and not eff):
                    return True
        return False
    loose = [c for c in decoders_ if not _tag_tested(c.pc)]
    run.ob("R11", MOD, "KdBufParser.parse_v3", "a block's payload is decoded only under a test of its tag", not loose,
           "" if not loose else
           f"parse_v3 decodes the payload of a block ({sym.pretty(loose[0].func)[:40]}, line {loose[0].lineno}) without having tested "
           f"its tag: a block of a tag the parser does not know (a section of a newer format, zero padding at the end of the file) "
           f"raises there, and no log record is yielded", line=loose[0].lineno if loose else dl.lineno,
           witness="a block with tag 0x8002 and a payload that is not a property list, in front of the log blocks")
    run.floor("R11", "payload decoders in the dispatch loop", len(decoders_), 2)
    if not landed:
        raise AnalysisError("parse_v3: no store of an additional-data block under a `block.tag == TRACEV3_...` test was recognised "
                            "(dispatch through a table of methods, a helper object, ...): the section mapping is not decided")
    computed_stores = [c for c in rec.calls if dl.id in c.loops and c.func == T("builtin", ("setattr",)) and len(c.args) == 3
                       and c.args[1].op != "const"] + \
        [e_ for e_ in rec.effects if dl.id in e_.loops and e_.kind == "sub-store"
         and sym.pretty(e_.path if e_.path is not None else e_.base).endswith(("__dict__", "vars(self)"))]
    n_dispatch = 0
    for name in sorted(tags):
        if name not in SCAN_TAGS and not landed.get(name) and computed_stores:
            # `setattr(self, TABLE[block.tag], ...)`: sections stored under a name computed from the tag - which section lands
            # where is not read off the code by these rules
            run.floor_failures.append(f"C03/R3: the dispatch loop stores through a computed attribute name (line {computed_stores[0].lineno}); "
                                      f"where blocks tagged {name} land is not decided")
            n_dispatch += 1
            continue
        if name in SCAN_TAGS:
            used = any(sym.contains(a, const(tags[name])) for c in rec.calls for a in c.args) or \
                any(sym.contains(c_, const(tags[name])) for e_ in outer.exits for c_, _ in e_[1])
            run.ob("R3", MOD, "KdBufParser.parse_v3", f"{name} used by the scan", used,
                   f"{name} is defined but the scan no longer uses it", nontrivial=False)
            continue
        n_dispatch += 1
        want_target = name[len("TRACEV3_"):].lower()
        lands = landed.get(name, [])
        targets = {l["target"] for l in lands}
        ok = bool(lands) and targets == {want_target}
        run.ob("R3", MOD, "KdBufParser.parse_v3", f"{name} -> {want_target}", ok,
               "" if ok else (f"blocks tagged {name} are " + (f"stored into {sorted(t for t in targets if t)}" if lands else "not handled")
                              + f"; the section must be exposed as {want_target}"),
               facts={"effects": [f"{l['kind']} {l['target']} {l['key']}" for l in lands]}, line=dl.lineno)
        if not ok:
            continue
        # payload decoded from this block's data
        okp = all(sym.contains(l["value"], data_t) for l in lands if l["value"] is not None)
        run.ob("R3", MOD, "KdBufParser.parse_v3", f"{name}: payload is this block's data", okp,
               f"the value stored for {name} is not derived from the block's own payload", nontrivial=False)
        if want_target in ACCUMULATING:
            def adds_to_self(l):
                """attr-store whose value is <current value of the same attribute> + something"""
                if l["kind"] != "attr-store":
                    return False
                if l["aug"] == "+":
                    return True
                v = l["value"]
                if v is not None and v.op == "bin" and v.a[0] == "+":
                    cur = v.a[1]
                    while cur.op in ("widen",):
                        cur = cur.a[2][-1] if cur.a[2] else cur
                        if cur.op != "widen":
                            break
                    names = {x.a[1] for x in sym.walk(v.a[1]) if x.op == "attr" and x.a[0] == SELF}
                    return want_target in names or (v.a[1].op == "widen" and v.a[1].a[0] in ("heap", want_target))
                return False
            acc = all((l["kind"] == "mut-call" and l["key"] in ("extend", "update", "append")) or adds_to_self(l) for l in lands)
            has_ext = any((l["kind"] == "mut-call" and l["key"] == "extend") or adds_to_self(l) for l in lands)
            ok_upd = True
            for l in lands:
                if l["kind"] == "mut-call" and l["key"] == "update":
                    # update is only allowed as the "first block" case: guarded by the target still being empty
                    a = guards.assumptions(l["pc"])
                    ok_upd = ok_upd and render.assume_lookup(a, T("attr", (SELF, want_target))) is False
            run.ob("R4", MOD, "KdBufParser.parse_v3", f"{want_target} accumulates across blocks", acc and has_ext and ok_upd,
                   f"{want_target} is overwritten by each {name} block instead of being concatenated in file order "
                   f"({[(l['kind'], l['key'], l['aug']) for l in lands]})", line=lands[0]["line"],
                   witness=f"a dump with two {name} blocks: only the last one survives")
    run.floor("R3", "dispatched tags", n_dispatch, 7)
    # resets before the dispatch loop
    for attr in ("trace_codes", "kernel_extensions", "dyld_modules", "images", "processes"):
        rs = [e for e in rec.effects if e.kind == "attr-store" and e.key == attr and (e.path or e.base) == SELF
              and not e.loops and not e.pc and e.aug is None and e.seq < dl.body_seq[0]]
        ok = len(rs) == 1 and _is_empty_initial(rs[0].value)
        run.ob("R4", MOD, "KdBufParser.parse_v3", f"{attr} reset once per parse before the dispatch", ok,
               f"self.{attr} is not reset to its empty value before the blocks are dispatched: sections of an earlier parse "
               f"leak into this one", nontrivial=False, line=fn.lineno)

    check_block_framing(repo, run, mod)

    # ------------------------------------------------------------------ R6 logs
    if len(log_yields) == 1 and log_dec:
        ly = log_yields[0]
        lloop = rec.loops.get(ly.loops[-1]) if ly.loops else None
        src_ok = lloop is not None and lloop.kind == "for" and lloop.iter is not None and lloop.iter.op == "widen" \
            and roles.get(lloop.iter.a[0]) == "log_events" and "TRACEV3_LOG_EVENTS" in landed
        run.ob("R6", MOD, "KdBufParser.parse_v3", "every collected log record is decoded in order", src_ok and not ly.pc,
               "the log loop does not iterate over the collected log records in order / yields conditionally", line=ly.lineno)
        okargs = log_dec[0].args[0] == (lloop.target if lloop else None) and log_dec[0].args[1].op == "widen"
        run.ob("R6", MOD, "KdBufParser.parse_v3", "decoded with the dump's string index", okargs,
               "from_raw_log_event is not called with (record, log_strings)", nontrivial=False)
        # inverted index
        inv = [x for x in sym.walk(ls_term) if x.op == "comp" and x.a[0] == "dict"]
        ok_inv = False
        for x in inv:
            (elemvar, it, conds) = x.a[2][0]
            want_it = T("call", (T("attr", (T("sub", (loads, const("StringIndex"))), "items")), (), ()))
            kv = x.a[1]
            if it == want_it and not conds and kv.op == "tuple" and kv.a[0] == (T("sub", (elemvar, const(1))), T("sub", (elemvar, const(0)))):
                ok_inv = True
        # dict(zip(index.values(), index)) / dict(zip(index.values(), index.keys())): the same pairs in the same order
        sidx = T("sub", (loads, const("StringIndex")))
        vals_ = T("call", (T("attr", (sidx, "values")), (), ()))
        for x in sym.walk(ls_term):
            if x.op == "call" and x.a[0] == T("builtin", ("dict",)) and len(x.a[1]) == 1 and not x.a[2]:
                z = x.a[1][0]
                if z.op == "call" and z.a[0] == T("builtin", ("zip",)) and len(z.a[1]) == 2 and z.a[1][0] == vals_ \
                        and z.a[1][1] in (sidx, T("call", (T("attr", (sidx, "keys")), (), ()))):
                    ok_inv = True
        plain = [x for x in sym.walk(ls_term) if x.op == "call" and x.a[0] == T("builtin", ("dict",)) and len(x.a[1]) == 1 and not x.a[2]
                 and x.a[1][0] in (sidx, T("call", (T("attr", (sidx, "items")), (), ())))]
        # (dict(index) / dict(index.items()) is the index itself, string -> number: recognisably not inverted)
        if not ok_inv and not inv and not plain and any(x.op == "call" and x.a[0] == T("builtin", ("dict",)) and sym.contains(x, sidx) for x in sym.walk(ls_term)):
            # another way of building a dict from the index: not followed
            run.floor_failures.append("C03/R6: log_strings is built from the StringIndex by a dict(...) expression these rules do not "
                                      "follow: whether it maps number -> string is not decided")
            ok_inv = True
            landed.setdefault("TRACEV3_LOG_STRINGS", [])
        run.ob("R6", MOD, "KdBufParser.parse_v3", "string index is inverted (index -> string)", ok_inv,
               "log_strings is not {index: string for string, index in StringIndex.items()}: strings are not resolved",
               line=dl.lineno)
        obj = ly.value
        tp, pn = T("attr", (SELF, "threads_pids")), T("attr", (SELF, "pids_names"))
        stores = [e for e in rec.effects if e.kind == "sub-store" and lloop is not None and lloop.id in e.loops]
        want = {(tp, T("attr", (obj, "thread_identifier")), T("attr", (obj, "process_identifier"))),
                (pn, T("attr", (obj, "process_identifier")), T("attr", (obj, "process")))}
        got = {((e.path or e.base), e.key, e.value) for e in stores}
        run.ob("R6", MOD, "KdBufParser.parse_v3", "table extension thread->pid, pid->name", got == want,
               f"log records extend the tables with {[(sym.pretty(a)[-14:], sym.pretty(k)[-24:], sym.pretty(v)[-24:]) for a, k, v in got]}",
               line=ly.lineno)
        okg = True
        for e in stores:
            a = guards.assumptions(e.pc)
            okg = okg and render.assume_lookup(a, T("attr", (obj, "process"))) is True \
                and render.assume_lookup(a, T("attr", (obj, "thread_identifier"))) is True
        run.ob("R6", MOD, "KdBufParser.parse_v3", "extension only when the record names a process and a thread", okg and bool(stores),
               "the thread/process tables are extended without both `process` and `thread_identifier` being present",
               line=ly.lineno)


def check_block_framing(repo: Repo, run: Run, mod) -> None:
    """R8: every additional-data block is  tag[8] + u64 length + payload + filler to the next 8-byte boundary.

    Accepted spellings: `Aligned(8, Prefixed(Int64ul, GreedyBytes))` (alone, or first in a `Select` whose other alternative is
    the same block without filler - the last block of a file), or `Prefixed(Int64ul, GreedyBytes)` followed by
    `[Optional(]Padding(f)[)]` where f is evaluated for payload lengths 0..63 and must equal (-length) % 8.  Anything else
    is undecided."""
    def deref(n, depth=0):
        """a name bound at module level to a construct expression stands for that expression"""
        while isinstance(n, ast.Name) and n.id in mod.constants and depth < 8 and \
                not (repo.dotted(mod, n) or "").startswith("construct."):
            n, depth = mod.constants[n.id], depth + 1
        return n
    node = deref(repo.constant("kd_buf_parser", "kd_v3_additional_data"))

    def cname(n):
        n = deref(n)
        return (repo.dotted(mod, n.func if isinstance(n, ast.Call) else n) or "").replace("construct.", "")

    def named(n):
        """'name' / X  ->  (name, X)"""
        n = deref(n)
        if isinstance(n, ast.BinOp) and isinstance(n.op, ast.Div) and isinstance(n.left, ast.Constant):
            return n.left.value, deref(n.right)
        return None, n

    def is_prefixed(n):
        n = deref(n)
        return isinstance(n, ast.Call) and cname(n) == "Prefixed" and len(n.args) == 2 and cname(n.args[0]) == "Int64ul" \
            and cname(n.args[1]) == "GreedyBytes"

    def aligned_modulus(n):
        """Aligned(m, Prefixed(Int64ul, GreedyBytes)) -> m (an int), else None"""
        n = deref(n)
        if isinstance(n, ast.Call) and cname(n) == "Aligned" and len(n.args) == 2 and is_prefixed(n.args[1]):
            m = consteval.evaluate(repo, mod, n.args[0])
            return m if isinstance(m, int) and not isinstance(m, bool) and m > 0 else None
        return None

    def is_aligned_prefixed(n):
        return aligned_modulus(n) is not None

    if not (isinstance(node, ast.Call) and cname(node) == "GreedyRange" and node.args and isinstance(deref(node.args[0]), ast.Call)
            and cname(node.args[0]) == "Struct"):
        raise AnalysisError("kd_v3_additional_data is not GreedyRange(Struct(...)): the block framing cannot be decided")
    parts = [named(x) for x in deref(node.args[0]).args]
    if len(parts) < 2 or parts[0][0] != "tag" or parts[1][0] != "data":
        raise AnalysisError("kd_v3_additional_data: a block is not ('tag', 'data', ...)")
    tag = parts[0][1]
    ok_tag = isinstance(tag, ast.Call) and cname(tag) == "Bytes" and consteval.evaluate(repo, mod, tag.args[0]) == 8
    run.ob("R8", MOD, "kd_v3_additional_data", "block tag is 8 bytes", ok_tag,
           "the tag of an additional-data block is not Bytes(8)", nontrivial=False, line=node.lineno)
    data, rest = parts[1][1], parts[2:]
    verdict, why = None, ""
    data = deref(data)
    if not rest and (is_aligned_prefixed(data) or (
            isinstance(data, ast.Call) and cname(data) == "Select" and data.args and is_aligned_prefixed(data.args[0])
            and all(is_prefixed(x) or is_aligned_prefixed(x) for x in data.args[1:]))):
        m = aligned_modulus(data if cname(data) == "Aligned" else data.args[0])
        # Aligned pads the 8-byte prefix plus the payload to a multiple of m: the filler must be (-length) % 8
        wrong = next((L for L in range(64) if (-(8 + L)) % m != (-L) % 8), None)
        verdict = wrong is None
        if wrong is not None:
            why = (f"blocks are padded to a multiple of {m} bytes: after a payload of {wrong} bytes the filler is {(-(8 + wrong)) % m} "
                   f"bytes instead of {(-wrong) % 8}, so the next block's tag is read from the wrong offset")
    elif is_prefixed(data) and len(rest) == 1:
        pad = rest[0][1]
        if isinstance(pad, ast.Call) and cname(pad) == "Optional" and pad.args:
            pad = pad.args[0]
        if isinstance(pad, ast.Call) and cname(pad) == "Padding" and pad.args:
            f = pad.args[0]
            body = None
            if isinstance(f, ast.Lambda) and len(f.args.args) == 1:
                ctx, body = f.args.args[0].arg, f.body
            elif isinstance(f, ast.Name) and f.id in mod.functions and len(mod.functions[f.id].args.args) == 1:
                fn_ = mod.functions[f.id]
                st_ = [x for x in fn_.body if not (isinstance(x, ast.Expr) and isinstance(x.value, ast.Constant))]
                if len(st_) == 1 and isinstance(st_[0], ast.Return):
                    ctx, body = fn_.args.args[0].arg, st_[0].value
            if body is not None:
                class _Len(ast.NodeTransformer):
                    def visit_Call(self, n):
                        self.generic_visit(n)
                        if isinstance(n.func, ast.Name) and n.func.id == "len" and len(n.args) == 1 \
                                and ast.unparse(n.args[0]) in (f"{ctx}.data", f"{ctx}['data']", f'{ctx}["data"]'):
                            return ast.copy_location(ast.Name(id="__payload_length__", ctx=ast.Load()), n)
                        return n
                import copy
                expr = _Len().visit(copy.deepcopy(body))
                bad = None
                for L in range(64):
                    v = consteval.evaluate(repo, mod, expr, local_names={"__payload_length__": L})
                    if not isinstance(v, int):
                        bad = "undecided"
                        break
                    if v != (-L) % 8:
                        bad = (L, v)
                        break
                if bad != "undecided":
                    verdict = bad is None
                    if bad:
                        why = (f"after a payload of {bad[0]} bytes the filler is computed as {bad[1]} bytes instead of {(-bad[0]) % 8}: "
                               f"the next block's tag is read from the wrong offset and every later block is lost")
    if verdict is None:
        raise AnalysisError("kd_v3_additional_data: the framing of a block (length prefix + filler to 8 bytes) is written in a "
                            "form that cannot be decided")
    run.ob("R8", MOD, "kd_v3_additional_data", "block = tag + u64 length + payload + filler to 8 bytes", verdict, why,
           line=node.lineno, witness=None if verdict else "two trace-code blocks, the first with a payload of that length")


def _state_name(path: T) -> Optional[str]:
    """self.<name>... or a local accumulation variable -> name."""
    cur = path
    while cur.op in ("attr", "sub"):
        if cur.op == "attr" and cur.a[0] == SELF:
            return cur.a[1]
        cur = cur.a[0]
    if cur.op == "widen":
        return cur.a[0]
    if cur.op == "mut":
        return _state_name(cur.a[0])
    return None


def _widen_of(t: Optional[T], name: str) -> bool:
    return t is not None and t.op == "widen" and t.a[0] == name


def _is_empty_initial(v: T) -> bool:
    if v.op == "const" and v.a[0] in ("", b""):
        return True
    if v.op == "dict":
        return all(val.op in ("list", "dict") and not val.a[0] for _, val in v.a[0])
    return False
