"""C04 - START/END pairing delivers exactly each operation's per-thread event window."""
from __future__ import annotations

from typing import List, Optional

from .. import normal, guards, registry, render, sym
from ..model import AnalysisError, Repo
from ..report import Run
from ..sym import T, const, param

EXPLANATION = (
    "The behaviour over all histories is not decided; the effect contract of the three-method state machine is, by "
    "symbolic interpretation of TracesParser.feed, _feed_start_event, _feed_end_event, _feed_single_event, "
    "parse_event_list and feed_generator (effects with path conditions, loops and order). K1: every access to the window "
    "table uses event.tid as its first key. K2: only the event itself or a fresh []/{} is ever stored. K3 (START): a fresh "
    "list is bound to state[tid][event.eventid] unconditionally and BEFORE the append-to-all loop, which ranges over all "
    "open windows of the thread; nothing is returned. K4 (END): a guard covering both 'thread unknown' and 'code not open' "
    "returns None before any mutation; then append-to-all; then pop(event.eventid); the popped list and nothing else goes to "
    "parse_event_list, whose result is returned. K5 (NONE/ALL): append-to-all, then parse_event_list([event]). K6: feed "
    "selects on_going_traces iff the code's name is a key of the trace-family registry, else on_going_events; two distinct "
    "dicts created in __init__. K7: qualifiers_actions is total over {0,1,2,3}: START->K3, END->K4, ALL and NONE->K5. "
    "K8: feed_generator yields exactly the non-None results of feed, in order. K9: parse_event_list returns None unless the "
    "first event's id is in the table and its name has a decoder, else handlers[name](self, events). These are necessary "
    "conditions of the property: breaking any of them changes some history's traces."
)

MOD = "pykdebugparser.traces_parser"
SELF = param("self")


def strip_mut(t: T) -> T:
    while t is not None and t.op == "mut":
        t = t.a[0]
    return t


def winlike(t, st: T, tid: T) -> bool:
    """Does the term denote the emitting thread's table of open windows, state[event.tid]?"""
    if t is None:
        return False
    t = strip_mut(t)
    if t == T("sub", (st, tid)):
        return True
    if t.op == "call" and t.a[0].op == "attr" and t.a[0].a[0] == st and t.a[0].a[1] in ("setdefault", "get") \
            and t.a[1][:1] == (tid,) and (len(t.a[1]) == 1 or sym.truth(t.a[1][1]) is False):
        return True
    if t.op == "ite":            # {} stored on the path where the thread was unknown, the old table otherwise
        return all(winlike(x, st, tid) or (x.op == "dict" and not x.a[0]) for x in (t.a[1], t.a[2]))
    return False


def lift_ite(t: T) -> T:
    """f(a, x if c else y)  ->  f(a, x) if c else f(a, y)   (one conditional argument)."""
    if t.op == "call":
        for i, a in enumerate(t.a[1]):
            if a.op == "ite":
                mk = lambda v: T("call", (t.a[0], t.a[1][:i] + (v,) + t.a[1][i + 1:], t.a[2]))
                return T("ite", (a.a[0], lift_ite(mk(a.a[1])), lift_ite(mk(a.a[2]))))
    return t


def dispatch_ok(value: T, pc, evs: T) -> bool:
    """value == handlers[NAME](self, events) or handlers.get(NAME)(self, events) with NAME == trace_codes[ID] or
    trace_codes.get(ID[, None]), ID == events[0].eventid, reached only when the id is in the table (or its .get is not None)
    and the name has a decoder (or the decoder's .get is not None)."""
    tc = T("attr", (SELF, "trace_codes"))
    H = T("attr", (SELF, "handlers"))
    first_id = T("attr", (T("sub", (evs, const(0))), "eventid"))
    names = [(T("sub", (tc, first_id)), "in")] + \
        [(T("call", (T("attr", (tc, "get")), (first_id,) + d, ())), "get") for d in ((), (const(None),))]
    # trace_codes.get(id, <module-level sentinel>): the same lookup, its miss tested with `is SENTINEL` (which the
    # interpreter has already turned into `id not in trace_codes`)
    for x in sym.walk(value):
        if x.op == "call" and x.a[0] == T("attr", (tc, "get")) and len(x.a[1]) == 2 and x.a[1][0] == first_id \
                and x.a[1][1].op == "global" and x.a[1][1].a[0].startswith("pykdebugparser."):
            names.append((x, "in"))
    a = guards.assumptions(pc)
    for name, nkind in names:
        in_table = render.assume_lookup(a, T("cmp", ("in", first_id, tc))) is True
        if nkind == "get":
            in_table = in_table or render.assume_lookup(a, T("cmp", ("is", name, const(None)))) is False
        handlers_ = [(T("sub", (H, name)), "in")] + [(T("call", (T("attr", (H, "get")), (name,) + d, ())), "get")
                                                    for d in ((), (const(None),))]
        for h, hkind in handlers_:
            if value != T("call", (h, (SELF, evs), ())):
                continue
            decodable = render.assume_lookup(a, T("cmp", ("in", name, H))) is True
            if hkind == "get":
                found = render.assume_lookup(a, T("cmp", ("is", h, const(None)))) is False
                decodable = decodable or found
                # handlers.get(trace_codes.get(id)) is not None: the registry's keys are strings (registry.load_all accepts
                # nothing else), so the name is not None either, i.e. the id is in the table
                in_table = in_table or (found and nkind == "get")
            if nkind == "get" and render.assume_lookup(a, T("cmp", ("in", name, H))) is True:
                # `trace_codes.get(id) in handlers`: None is not a key of the registry, so the id is in the table as well
                in_table = True
            return in_table and decodable
    return False


def _qual_value(c: T, fq: T, q: int):
    """Truth value of a condition that only looks at the qualifier, for func_qualifier == q; None if it looks elsewhere."""
    def val(t):
        if t == fq:
            return q
        if t.op == "const" and isinstance(t.a[0], (int, bool)):
            return t.a[0]
        if t.op == "bin" and t.a[0] in ("&", "|", "^", ">>", "<<", "+", "-"):
            l, r = val(t.a[1]), val(t.a[2])
            if l is None or r is None:
                return None
            try:
                return {"&": lambda: l & r, "|": lambda: l | r, "^": lambda: l ^ r, ">>": lambda: l >> r, "<<": lambda: l << r,
                        "+": lambda: l + r, "-": lambda: l - r}[t.a[0]]()
            except (TypeError, ValueError):
                return None
        if t.op in ("tuple", "list", "set"):
            vs = [val(x) for x in t.a[0]]
            return None if any(v is None for v in vs) else tuple(vs)
        return None
    if c.op == "not":
        v = _qual_value(c.a[0], fq, q)
        return None if v is None else not v
    if c.op == "bool":
        vs = [_qual_value(x, fq, q) for x in c.a[1]]
        if c.a[0] == "and":
            return False if any(v is False for v in vs) else (None if any(v is None for v in vs) else True)
        return True if any(v is True for v in vs) else (None if any(v is None for v in vs) else False)
    if c.op == "cmp":
        l, r = val(c.a[1]), val(c.a[2])
        if l is None or r is None:
            return None
        try:
            return bool({"==": lambda: l == r, "!=": lambda: l != r, "in": lambda: l in r, "not in": lambda: l not in r,
                         "<": lambda: l < r, "<=": lambda: l <= r, ">": lambda: l > r, ">=": lambda: l >= r,
                         "is": lambda: l == r, "is not": lambda: l != r}[c.a[0]]())
        except (TypeError, KeyError):
            return None
    v = val(c)
    return None if v is None else bool(v)


def _dispatch_by_value(interp, tp, feed_fn):
    """q -> the action methods feed(event) calls, in order, when event.func_qualifier == q (conditions on anything else
    are left open)."""
    rec = interp.run(tp.module, feed_fn, self_cls=tp)
    if rec.notes:
        raise AnalysisError(f"feed: unsupported construct {rec.notes[0]}")
    ev = param(feed_fn.args.args[1].arg)
    fq = T("attr", (ev, "func_qualifier"))
    calls = [c for c in rec.calls if c.func.op == "attr" and c.func.a[0] == SELF and c.func.a[1] in tp.methods
             and c.where.endswith(".feed") and len(c.args) == 2 and c.args[0] == ev]
    if not calls:
        raise AnalysisError("anchor vanished: feed neither uses a qualifiers_actions table nor calls action methods with (event, table)")
    out = {}
    for q in range(4):
        seq = []
        for c in sorted(calls, key=lambda c_: c_.seq):
            if all((_qual_value(cond, fq, q) in (None, pol)) for cond, pol in c.pc):
                if c.func.a[1] not in seq or True:
                    seq.append(c.func.a[1])
        # the same call site reached under both values of an unrelated condition is one action
        dedup = []
        for m in seq:
            if not dedup or dedup[-1] != m:
                dedup.append(m)
        out[q] = tuple(dedup)
    return out


def action_of(repo: Repo, interp, q: int) -> Optional[str]:
    """Name of the TracesParser method that handles a record whose func_qualifier is q: read off the qualifiers_actions
    table, or - when feed tests the qualifier itself - off feed's conditions evaluated for that value."""
    tp = repo.cls("traces_parser", "TracesParser")
    init = interp.run(tp.module, tp.methods["__init__"], self_cls=tp)
    for e in init.effects:
        if e.kind == "attr-store" and e.key == "qualifiers_actions" and (e.path or e.base) == SELF and e.value.op == "dict":
            for k, v in e.value.a[0]:
                if k == const(q) and v.op == "attr" and v.a[0] == SELF:
                    return v.a[1]
            return None
    seq = _dispatch_by_value(interp, tp, tp.methods["feed"]).get(q, ())
    return seq[0] if len(seq) == 1 else None


def actions_get_the_tables(repo: Repo, interp) -> None:
    """The K rules (and the thread-keying rules of C05) read the three actions with their second parameter standing for a
    whole window table `{tid: {eventid: [records]}}`.  `feed` must hand them one of the parser's tables as it is; when it
    hands them something computed from a table (`table.setdefault(event.tid, {})`, a per-thread view) the actions are written
    against another convention and are not judged by those rules."""
    tp = repo.cls("traces_parser", "TracesParser")
    if "feed" not in tp.methods:
        return
    rec = interp.run(tp.module, tp.methods["feed"], self_cls=tp)
    ev = param(tp.methods["feed"].args.args[1].arg) if len(tp.methods["feed"].args.args) > 1 else None
    for c in rec.calls:
        if not (len(c.args) == 2 and c.args[0] == ev and c.where.endswith(".feed")):
            continue
        if c.func.op == "builtin":
            continue
        leaves = [c.args[1]]
        while any(x.op == "ite" for x in leaves):
            leaves = [y for x in leaves for y in ((x.a[1], x.a[2]) if x.op == "ite" else (x,))]
        for x in leaves:
            if not (x.op == "attr" and x.a[0] == SELF) and x.op != "param":
                raise AnalysisError(f"feed hands its actions {sym.pretty(x)[:70]} instead of one of the window tables: the actions "
                                    f"are written against a per-thread view of the table, a form the rules do not describe")



def _part_of_window(kt):
    from .. import decoders
    """'' when the term is a complete copy of the window, a description when it is recognisably a part of it (a slice that
    leaves out an end, a comprehension with a condition), None for anything else."""
    if kt.op == "call" and kt.a[0].op == "builtin" and kt.a[0].a[0] in ("list", "tuple") and len(kt.a[1]) == 1 and not kt.a[2]:
        return _part_of_window(kt.a[1][0])
    if kt == decoders.EVENTS:
        return ""
    if kt.op == "slice" and len(kt.a) == 3 and kt.a[0] == decoders.EVENTS:
        lo, hi = kt.a[1], kt.a[2]
        whole_lo = lo == sym.NONE or lo == const(0)
        whole_hi = hi == sym.NONE
        if whole_lo and whole_hi:
            return ""
        if all(x == sym.NONE or (x.op == "const" and isinstance(x.a[0], int)) for x in (lo, hi)):
            return f"the slice {sym.pretty(kt)} of the window"
        return None
    if kt.op == "comp" and kt.a[0] in ("list", "gen") and len(kt.a[2]) == 1:
        elem, it, conds = kt.a[2][0]
        if it == decoders.EVENTS and kt.a[1] == elem:
            if not conds:
                return ""
            return f"only the records where {sym.pretty(conds[0])[:60]}"
    return None

def check(repo: Repo, run: Run) -> None:
    interp = sym.Interp(repo)
    tp = repo.cls("traces_parser", "TracesParser")
    M = tp.methods
    for needed in ("__init__", "feed", "feed_generator", "parse_event_list"):
        if needed not in M:
            raise AnalysisError(f"anchor vanished: TracesParser.{needed}")
    actions_get_the_tables(repo, interp)
    init = interp.run(tp.module, M["__init__"], self_cls=tp)

    # ------------------------------------------------------------------ K7 / K6 state created in __init__
    qa = None
    created = {}
    for e in init.effects:
        if e.kind == "attr-store" and (e.path or e.base) == SELF:
            if e.key == "qualifiers_actions":
                qa = e.value
            if e.value.op == "dict" and not e.value.a[0]:
                created[e.key] = e
    actions = {}
    direct_dispatch = None
    if qa is not None and qa.op == "dict":
        for k, v in qa.a[0]:
            if k.op != "const" or not (v.op == "attr" and v.a[0] == SELF):
                raise AnalysisError("qualifiers_actions entries are not constant -> self.method")
            actions[k.a[0]] = v.a[1]
    else:
        # no dispatch table: feed tests the qualifier itself.  The qualifier has four values (C01), so what feed runs for
        # each of them is computed by evaluating its conditions on event.func_qualifier for q = 0, 1, 2, 3.
        direct_dispatch = _dispatch_by_value(interp, tp, M["feed"])
        multi = {q: seq for q, seq in direct_dispatch.items() if len(seq) != 1}
        run.ob("K7", MOD, "TracesParser.feed", "each qualifier value runs exactly one action", not multi,
               "" if not multi else
               "; ".join(f"qualifier {q} ({['NONE', 'START', 'END', 'ALL'][q]}) runs {list(seq) or 'nothing'}" for q, seq in sorted(multi.items()))
               + ": an ALL record must produce exactly one trace consisting of that record alone, a NONE record likewise; "
                 "running the START action and then the END action appends the record twice and closes windows it never opened",
               facts={"dispatch": {str(q): list(seq) for q, seq in direct_dispatch.items()}}, line=M["feed"].lineno,
               witness="START read, ALL getpid, END read on one thread: the ALL record appears twice in the read window")
        if multi:
            return
        actions = {q: seq[0] for q, seq in direct_dispatch.items()}
    run.ob("K7", MOD, "TracesParser.__init__", "qualifiers_actions total over {0,1,2,3}", set(actions) == {0, 1, 2, 3},
           f"qualifiers_actions has keys {sorted(actions)}; func_qualifier ranges over 0..3 (C01)", facts={"actions": actions})
    if set(actions) != {0, 1, 2, 3}:
        return
    start_m, end_m, all_m, none_m = actions[1], actions[2], actions[3], actions[0]
    run.ob("K7", MOD, "TracesParser.__init__", "NONE and ALL share the single-event action, distinct from START/END",
           all_m == none_m and len({start_m, end_m, all_m}) == 3,
           f"START->{start_m}, END->{end_m}, ALL->{all_m}, NONE->{none_m}: the four qualifiers are not mapped to "
           f"start / end / single / single", facts={"actions": actions})
    def _empty_dict(v: T) -> bool:
        return (v.op == "dict" and not v.a[0]) or (v.op == "call" and v.a[0] == T("builtin", ("dict",)) and not v.a[1] and not v.a[2])
    stores = [e for e in init.effects if e.kind == "attr-store" and (e.path or e.base) == SELF and e.value is not None
              and _empty_dict(e.value) and not e.pc and e.alias is None]
    fresh = {e.key for e in stores}          # an alias or a chained assignment `self.a = self.b = {}` is not fresh
    for t in ("on_going_events", "on_going_traces"):
        made = [e for e in init.effects if e.kind == "attr-store" and (e.path or e.base) == SELF and e.key == t
                and e.value is not None]
        if made and all(e.value.op in ("new", "call") and not _empty_dict(e.value)
                        and not (e.value.op == "call" and e.value.a[0].op == "global"
                                 and e.value.a[0].a[0] in ("collections.defaultdict", "collections.OrderedDict")) for e in made):
            # the open windows are kept in some other structure (an object of a helper class, a flat list ...): the K rules
            # describe the {tid: {eventid: [records]}} tables and say nothing about it
            raise AnalysisError(f"the window table self.{t} is created as {sym.pretty(made[0].value)[:60]}: a representation of the "
                                f"open windows other than the {{tid: {{eventid: [records]}}}} tables the K rules are written for")
        run.ob("K6", MOD, "TracesParser.__init__", f"{t} is a fresh dict", t in created and t in fresh,
               f"self.{t} is not created as its own empty dict in __init__: the two pairing domains share windows",
               nontrivial=False)

    def method(name):
        fn = M[name]
        rec = interp.run(tp.module, fn, self_cls=tp)
        if rec.notes:
            raise AnalysisError(f"{name}: unsupported construct {rec.notes[0]}")
        return fn, rec

    # ------------------------------------------------------------------ per action method
    def common(name):
        fn, rec = method(name)
        if len(fn.args.args) != 3:
            raise AnalysisError(f"{name} does not take (self, event, state)")
        ev, st = param(fn.args.args[1].arg), param(fn.args.args[2].arg)
        tid = T("attr", (ev, "tid"))
        eid = T("attr", (ev, "eventid"))
        win = T("sub", (st, tid))
        _normalise_none_guards(rec, st, tid)
        # K1: every first key on the state table is event.tid
        bad = []
        for p in rec.pops:
            pth = p.path if p.path is not None else p.base
            if p.kind == "sub" and pth == st and p.key != tid:
                bad.append(sym.pretty(p.key))
        for e in rec.effects:
            pth = e.path if e.path is not None else e.base
            if pth == st and e.kind in ("sub-store", "del-sub") and e.key != tid:
                bad.append(sym.pretty(e.key))
            if pth == st and e.kind == "mut-call" and e.args and e.args[0] != tid:
                bad.append(sym.pretty(e.args[0]))
        terms = [c for r in rec.returns for c, _ in r.pc] + [c for e in rec.effects for c, _ in e.pc] \
            + [c.func for c in rec.calls] + [a for c in rec.calls for a in c.args]
        for t in terms:
            for x in sym.walk(t):
                if x.op == "cmp" and x.a[0] in ("in", "not in") and x.a[2] == st and x.a[1] != tid:
                    bad.append(sym.pretty(x.a[1]))
                if x.op == "call" and x.a[0] == T("attr", (st, "get")) and x.a[1] and x.a[1][0] != tid:
                    bad.append(sym.pretty(x.a[1][0]))
        run.ob("K1", MOD, f"TracesParser.{name}", "window table keyed by event.tid first", not bad,
               f"the window table is accessed with first key(s) {sorted(set(bad))} instead of event.tid: events of different "
               f"threads end up in the same window", line=fn.lineno)
        # K2: stored values
        for e in rec.effects:
            pth = e.path if e.path is not None else e.base
            if sym.root_of(pth) != st:
                continue
            if e.kind == "sub-store":
                if e.value.op == "call" and e.value.a[0].op in ("class", "global", "builtin") and e.value.a[0] not in (
                        T("builtin", ("list",)), T("builtin", ("dict",))):
                    # a freshly constructed container of another kind (a dict subclass with its own methods, a defaultdict ...)
                    raise AnalysisError(f"{name} stores {sym.pretty(e.value)[:60]} into the window table: a representation of the "
                                        f"open windows other than the {{tid: {{eventid: [records]}}}} tables the K rules are written for")
                if e.value.op == "new":
                    raise AnalysisError(f"{name} stores an object of {e.value.a[0].rsplit('.', 1)[1]} into the window table: a "
                                        f"representation of the open windows other than the {{tid: {{eventid: [records]}}}} tables "
                                        f"the K rules are written for")
                if e.value.op in ("dict", "list") and e.value.a[0]:
                    # a window (or a thread's table) created already holding its first record: a fresh container all the same,
                    # but a pairing machine written in another form than the one the K rules describe (open, then append to
                    # every open window) - its steps are not judged against those rules
                    raise AnalysisError(f"{name} stores {sym.pretty(e.value)[:50]} into the window table: the windows are created "
                                        f"with their first record in them, a form of the pairing machine the K rules do not describe")
                ok = e.value.op in ("dict", "list") and not e.value.a[0]
                run.ob("K2", MOD, f"TracesParser.{name}", f"store {sym.pretty(pth)[:40]}[{sym.pretty(e.key)[:30]}]", ok,
                       f"{sym.pretty(e.value)[:60]} is stored into the window table; only a fresh [] / {{}} may be",
                       nontrivial=False, line=e.lineno)
            elif e.kind == "mut-call" and e.key in ("append", "extend", "insert"):
                ok = e.key == "append" and e.args == (ev,)
                run.ob("K2", MOD, f"TracesParser.{name}", f"{e.key} into {sym.pretty(pth)[:50]}", ok,
                       f"{e.key}({', '.join(sym.pretty(a)[:30] for a in e.args)}) on a window: only the event itself may be "
                       f"appended, once", nontrivial=False, line=e.lineno)
        return fn, rec, ev, st, tid, eid, win

    def append_all_loops(rec, st, tid, win, ev):
        """Loops that append the event to every open window of the thread: list of (loop, effect, extra conditions).
        Accepted iterations: over the table (keys), .keys(), list(...), .values(), .items()."""
        out = []
        for lid, lr in rec.loops.items():
            if lr.kind != "for" or lr.iter is None:
                continue
            it = strip_mut(lr.iter)
            mode = None
            cands = [it, lr.iter_path]
            if any(winlike(c, st, tid) for c in cands if c is not None):
                mode = "keys"
            elif it.op == "call" and it.a[0].op == "attr" and it.a[0].a[1] in ("keys", "values", "items") and not it.a[1] \
                    and winlike(it.a[0].a[0], st, tid):
                mode = it.a[0].a[1]
            elif it.op == "call" and it.a[0].op == "builtin" and it.a[0].a[0] in ("list", "tuple") and it.a[1] \
                    and winlike(it.a[1][0], st, tid):
                mode = "keys"
            if mode is None:
                continue
            for e in rec.effects:
                if lid not in e.loops or e.kind != "mut-call" or e.key != "append" or e.args != (ev,):
                    continue
                pth = strip_mut(e.path if e.path is not None else e.base)
                ok_target = False
                if mode == "keys":
                    ok_target = pth.op == "sub" and pth.a[1] == lr.target and winlike(pth.a[0], st, tid)
                elif mode == "values":
                    ok_target = pth == lr.target
                elif mode == "items":
                    ok_target = pth == T("sub", (lr.target, const(1)))
                if ok_target:
                    inner = [c for c in e.pc if c not in _pc_at_loop(rec, lr)]
                    out.append((lr, e, inner))
        return out

    def entry_extras(rec, lr, st, tid, eid, allow_eid):
        """Conditions in force when the append loop is entered that are not the emptiness guards of the thread's
        window table (`event.tid in state`, the table being truthy) nor - for END - `event.eventid in state[tid]`:
        under any other condition some record of the thread is not appended to its open windows."""
        extras = []
        for c, pol in _pc_at_loop(rec, lr):
            a = render.with_assumption({}, c, pol)
            for atom, val in a.items():
                if atom.op == "bool":
                    if (atom.a[0] == "and" and val) or (atom.a[0] == "or" and not val):
                        continue            # decomposed into its parts, judged below
                    extras.append((atom, val))
                    continue
                if atom.op == "cmp" and atom.a[0] == "in" and val:
                    if atom.a[1] == tid and strip_mut(atom.a[2]) in (st, T("call", (T("attr", (st, "keys")), (), ()))):
                        continue
                    if allow_eid and atom.a[1] == eid and winlike(atom.a[2], st, tid):
                        continue
                if val and winlike(atom, st, tid):
                    continue
                extras.append((atom, val))
        return extras

    def reach_ob(rule, meth, rec, loops, st, tid, eid, allow_eid, what, line):
        if len(loops) != 1:
            return
        ex = entry_extras(rec, loops[0][0], st, tid, eid, allow_eid)
        run.ob(rule, MOD, f"TracesParser.{meth}", "the append loop is reached for every record", not ex,
               "" if not ex else f"{what} is appended to the open windows of its thread only when "
               f"{' and '.join(('' if v else 'not ') + sym.pretty(a)[:70] for a, v in ex[:3])}: on the other paths the "
               "enclosing START..END windows lose a record of their thread", line=line)

    from .. import shared as _shared
    diag = _shared.diagnostic_slots(repo, tp)

    # (bookkeeping attributes nobody reads - counters, statistics - are not window state)
    def _is_diag(e_):
        r_ = e_.path if e_.path is not None else e_.base
        while r_ is not None and r_.op in ("sub", "mut", "call"):
            r_ = r_.a[0] if r_.op != "call" else (r_.a[0].a[0] if r_.a[0].op == "attr" else None)
        return r_ is not None and r_.op == "attr" and r_.a[0] == SELF and r_.a[1] in diag
    # ---- K3 START
    fn, rec, ev, st, tid, eid, win = common(start_m)
    resets = [e for e in rec.effects if e.kind == "sub-store" and e.key == eid
              and (winlike(e.path, st, tid) or winlike(e.base, st, tid))]
    ok = len(resets) == 1 and not resets[0].pc and not resets[0].loops and resets[0].value.op == "list" \
        and not resets[0].value.a[0]
    run.ob("K3", MOD, f"TracesParser.{start_m}", "fresh window bound unconditionally", ok,
           "" if ok else ("START does not unconditionally bind a fresh list to state[tid][event.eventid]"
                          + (f" (only when {[sym.pretty(c)[:50] for c, _ in resets[0].pc]})" if resets and resets[0].pc else "")
                          + ": a repeated START keeps the old window, so the trace does not begin with the most recent START"),
           line=fn.lineno)
    loops = append_all_loops(rec, st, tid, win, ev)
    okl = len(loops) == 1 and not loops[0][2]
    run.ob("K3", MOD, f"TracesParser.{start_m}", "append to every open window of the thread", okl,
           "" if okl else "START does not append the event (unconditionally, once) to every open window of its thread: "
                          "enclosing operations lose nested records", line=fn.lineno)
    reach_ob("K3", start_m, rec, loops, st, tid, eid, False, "a START record", fn.lineno)
    if ok and okl:
        before = resets[0].seq < loops[0][0].body_seq[0]
        run.ob("K3", MOD, f"TracesParser.{start_m}", "window reset precedes the append loop", before,
               "the fresh window is bound after the append-to-all loop: the window does not contain its own START record",
               line=fn.lineno)
    rets = [r for r in rec.returns if r.kind == "return" and r.value != const(None)]
    run.ob("K3", MOD, f"TracesParser.{start_m}", "START emits nothing", not rets,
           f"START returns {[sym.pretty(r.value)[:40] for r in rets]}: a trace is emitted for a START", nontrivial=False)

    # ---- K4 END
    fn, rec, ev, st, tid, eid, win = common(end_m)
    # `windows.pop(code, None)` with the result tested against None (often in one walrus expression) folds the "is this code
    # open" test and the removal into one step: a form of the END action these rules do not describe
    pops2 = [T("call", (T("attr", (e.base, "pop")), tuple(e.args), ())) for e in rec.effects
             if e.kind == "mut-call" and e.key == "pop" and len(e.args) == 2]
    # (only when the popped value is then TESTED to tell a stray END: `pop(code, [])` used as it comes is an ordinary pop)
    k4_undecided = any(r_.kind == "return" and r_.value == const(None) and any(sym.contains(c_, pt) for c_, _ in r_.pc)
                       for r_ in rec.returns for pt in pops2)
    if k4_undecided:
        run.floor_failures.append(f"C04/K4: {end_m} removes the window with pop(code, <default>): the END action is not decided")
    ob4 = (lambda *a_, **k_: None) if k4_undecided else run.ob
    guard_tid = T("cmp", ("in", tid, st))
    guard_eid = T("cmp", ("in", eid, win))
    unguarded = []
    for e in rec.effects:
        a = guards.assumptions(e.pc)
        if not (render.assume_lookup(a, guard_tid) is True and render.assume_lookup(a, guard_eid) is True):
            unguarded.append(e)
    ob4("K4", MOD, f"TracesParser.{end_m}", "no mutation unless thread known and code open", not unguarded,
           "" if not unguarded else
           f"{unguarded[0].kind} {unguarded[0].key} at line {unguarded[0].lineno} happens without both `event.tid in state` "
           f"and `event.eventid in state[tid]` established: a stray END changes state", line=fn.lineno)
    none_rets = [r for r in rec.returns if r.kind == "return" and r.value == const(None)]
    okg = any(render.assume_lookup(guards.assumptions(r.pc), guard_tid) is False
              or render.assume_lookup(guards.assumptions(r.pc), guard_eid) is False
              or _is_negated_guard(r.pc, guard_tid, guard_eid) for r in none_rets)
    ob4("K4", MOD, f"TracesParser.{end_m}", "stray END returns None", okg,
           "END has no path returning None for an unknown thread / a code that is not open", nontrivial=False)
    loops = append_all_loops(rec, st, tid, win, ev)
    okl = len(loops) == 1 and not loops[0][2]
    ob4("K4", MOD, f"TracesParser.{end_m}", "append to every open window of the thread", okl,
           "END does not append the event (unconditionally, once) to every open window of its thread (its own included)",
           line=fn.lineno)
    if not k4_undecided:
        reach_ob("K4", end_m, rec, loops, st, tid, eid, True, "an END record", fn.lineno)
    # the window is removed by windows.pop(eventid), or read first and removed by `del windows[eventid]`
    pops = [e for e in rec.effects if ((e.kind == "mut-call" and e.key == "pop") or e.kind == "del-sub")
            and (winlike(e.path, st, tid) or winlike(e.base, st, tid))]
    okp = len(pops) == 1 and not pops[0].loops and \
        (pops[0].args == (eid,) if pops[0].kind == "mut-call" else pops[0].key == eid)
    ob4("K4", MOD, f"TracesParser.{end_m}", "window popped by event.eventid", okp,
           "" if okp else "END does not pop exactly state[tid][event.eventid]: the window stays open (later ENDs re-emit it) or "
                          "another window is closed", line=fn.lineno)
    own_after = []
    if okl and okp:
        first_then = loops[0][0].body_seq[1] < pops[0].seq
        if not first_then and pops[0].kind == "mut-call":
            # the other order: the window is taken out first, the END appended to it by itself, then to the windows left
            taken = T("call", (T("attr", (pops[0].base, "pop")), (eid,), ()))
            own_after = [e for e in rec.effects if e.kind == "mut-call" and e.key == "append" and e.args == (ev,) and not e.loops
                         and e.seq > pops[0].seq and (e.base == taken or e.path == taken) and e.pc == pops[0].pc]
        ob4("K4", MOD, f"TracesParser.{end_m}", "append precedes pop", first_then or len(own_after) == 1,
               "the window is popped before the END record is appended: the trace does not end with its END", line=fn.lineno)
    if okp:
        popped = T("call", (T("attr", (pops[0].base, "pop")), (eid,), ())) if pops[0].kind == "mut-call" else \
            T("sub", (pops[0].base, eid))
        if len(own_after) == 1:
            popped = T("mut", (popped, "append", (ev,)))
        pel = M["parse_event_list"]
        want = interp.run(tp.module, pel, {"self": SELF, pel.args.args[1].arg: popped}, self_cls=tp).return_term()
        live = [r for r in rec.returns if r.kind == "return" and r.value != const(None)]
        same = len(live) == 1 and sym.canon(live[0].value) == sym.canon(want)
        ob4("K4", MOD, f"TracesParser.{end_m}", "returns parse_event_list(popped window)", same,
               "" if same else "END does not return parse_event_list(<the popped window>) and nothing else",
               facts={"returned": sym.pretty(live[0].value)[:200] if live else None}, line=fn.lineno)

    # ---- K5 NONE / ALL
    fn, rec, ev, st, tid, eid, win = common(all_m)
    loops = append_all_loops(rec, st, tid, win, ev)
    okl = len(loops) == 1 and not loops[0][2]
    others = [e for e in rec.effects if not (loops and e is loops[0][1]) and not _is_diag(e)]
    own_slots = [e for e in others if e.kind == "attr-store" and (e.path or e.base) == SELF]
    if own_slots and all(e in own_slots or (e.kind == "mut-call" and e.key in ("setdefault", "append")) for e in others):
        # the action remembers something of its own from one record to the next (a look-up cache): what it appends to is then
        # not read off this method alone
        run.floor_failures.append(f"C04/K5: {all_m} keeps state of its own in self.{own_slots[0].key} (line {own_slots[0].lineno}): "
                                  f"which windows a NONE/ALL record is appended to is not decided")
    else:
        run.ob("K5", MOD, f"TracesParser.{all_m}", "append to every open window of the thread", okl,
               "a NONE/ALL event is not appended (unconditionally, once) to every open window of its thread", line=fn.lineno)
        reach_ob("K5", all_m, rec, loops, st, tid, eid, False, "a NONE/ALL record", fn.lineno)
        run.ob("K5", MOD, f"TracesParser.{all_m}", "no other state change", not others,
               f"a NONE/ALL event also performs {[(e.kind, e.key) for e in others][:3]}", nontrivial=False)
    pel = M["parse_event_list"]
    want = interp.run(tp.module, pel, {"self": SELF, pel.args.args[1].arg: T("list", ((ev,),))}, self_cls=tp).return_term()
    got = rec.return_term()
    run.ob("K5", MOD, f"TracesParser.{all_m}", "returns parse_event_list([event])", sym.canon(got) == sym.canon(want),
           "a NONE/ALL event does not yield parse_event_list([event])", facts={"returned": sym.pretty(got)[:200]},
           line=fn.lineno)

    # ---- K6 feed
    fn, rec = method("feed")
    ev = param(fn.args.args[1].arg)
    eid = T("attr", (ev, "eventid"))
    tc = T("attr", (SELF, "trace_codes"))
    fq = T("attr", (ev, "func_qualifier"))
    trace_reg = T("global", ("pykdebugparser.trace_handlers.trace.handlers",))

    def call_with(table):
        return T("call", (T("sub", (T("attr", (SELF, "qualifiers_actions")), fq)), (ev, T("attr", (SELF, table))), ()))
    cond = T("bool", ("and", (T("cmp", ("in", eid, tc)), T("cmp", ("in", T("sub", (tc, eid)), trace_reg)))))
    want = T("ite", (cond, call_with("on_going_traces"), call_with("on_going_events")))
    got = lift_ite(rec.return_term())
    ok = got == want
    if not ok:
        # any equivalent spelling: every alternative is one of the two dispatch calls, and the trace-domain call is
        # chosen under a condition propositionally equivalent to `id in table and table[id] in <trace registry>`
        # (or its name-first formulation through .get)
        leaves = normal.guarded_leaves(got)
        if leaves and all(v in (call_with("on_going_traces"), call_with("on_going_events")) for _, v in leaves):
            chosen = normal.any_of(normal.pc_term(pc) for pc, v in leaves if v == call_with("on_going_traces"))
            conds = [cond]
            for dflt in ((), (const(None),), (const(""),)):
                alt_name = T("call", (T("attr", (tc, "get")), (eid,) + dflt, ()))
                conds.append(T("cmp", ("in", alt_name, trace_reg)))
                # the registry's keys are strings: `name is not None and name in registry` says no more than `name in registry`
                conds.append(T("bool", ("and", (T("cmp", ("is not", alt_name, const(None))), T("cmp", ("in", alt_name, trace_reg))))))
            # trace_codes.get(id, SENTINEL) with a module-level object() nobody registers a decoder under
            for x in sym.walk(got):
                if x.op == "call" and x.a[0] == T("attr", (tc, "get")) and len(x.a[1]) == 2 and x.a[1][0] == eid \
                        and x.a[1][1].op == "global" and x.a[1][1].a[0].startswith("pykdebugparser."):
                    conds.append(T("cmp", ("in", x, trace_reg)))
            ok = any(normal.bool_equiv(chosen, c) is True for c in conds)
    if not ok and direct_dispatch is not None:
        # no table: the alternatives are direct calls of the action methods; for every qualifier value the action of that
        # value must be called with on_going_traces exactly when the code belongs to the trace family
        conds = [cond]
        for dflt in ((), (const(None),), (const(""),)):
            alt_name = T("call", (T("attr", (tc, "get")), (eid,) + dflt, ()))
            conds.append(T("cmp", ("in", alt_name, trace_reg)))
        TR_T, EV_T = T("attr", (SELF, "on_going_traces")), T("attr", (SELF, "on_going_events"))
        acalls = [c for c in rec.calls if c.func.op == "attr" and c.func.a[0] == SELF and c.func.a[1] in M
                  and c.where.endswith(".feed") and len(c.args) == 2 and c.args[0] == ev]
        ok = bool(acalls)
        for q in range(4):
            chosen = []
            for c in acalls:
                if not all(_qual_value(c_, fq, q) in (None, p_) for c_, p_ in c.pc):
                    continue
                if c.func.a[1] != actions[q]:
                    ok = False
                    continue
                rest = tuple((c_, p_) for c_, p_ in c.pc if _qual_value(c_, fq, q) is None)
                for tpc, tbl in normal.guarded_leaves(c.args[1]):
                    if tbl == TR_T:
                        chosen.append(normal.pc_term(rest + tpc))
                    elif tbl != EV_T:
                        ok = False
            ok = ok and any(normal.bool_equiv(normal.any_of(chosen), c_) is True for c_ in conds)
    run.ob("K6", MOD, "TracesParser.feed", "domain selection", ok,
           "" if ok else "feed does not dispatch qualifiers_actions[event.func_qualifier](event, on_going_traces) exactly when the "
                         "code's name is a key of the trace-family registry and (event, on_going_events) otherwise",
           facts={"returned": sym.pretty(got)[:300]}, line=fn.lineno)
    run.ob("K6", MOD, "TracesParser.feed", "no side effects in feed itself",
           not [e for e in rec.effects if e.func.endswith(".feed")], "feed mutates state itself", nontrivial=False)
    # the registry named in the condition is the trace family
    fams = registry.families_in_parser(repo)
    run.ob("K6", MOD, "TracesParser.feed", "trace family is merged into handlers", "trace" in fams,
           "the trace family is no longer merged into TracesParser.handlers", nontrivial=False)

    # ---- K8 feed_generator
    fn, rec = method("feed_generator")
    gen = param(fn.args.args[1].arg)
    # the loop may live in a private generator that feed_generator delegates to with `yield from` (expanded in place)
    yields = [r for r in rec.returns if r.kind in ("yield", "yield_from")]
    loops = [lr for lr in rec.loops.values() if lr.kind == "for" and (lr.func.endswith(".feed_generator") or
                                                                       any(lr.id in y.loops for y in yields))]
    ok = len(loops) == 1 and loops[0].iter == gen and len(yields) == 1 and yields[0].kind == "yield"
    if ok:
        feedfn = M["feed"]
        v = interp.run(tp.module, feedfn, {"self": SELF, feedfn.args.args[1].arg: loops[0].target}, self_cls=tp).return_term()
        y = yields[0]
        inner = [c for c in y.pc]
        nb = render.norm_bool(inner[0][0]) if len(inner) == 1 else None
        ok = sym.canon(y.value) == sym.canon(v) and nb is not None and nb[0] == T("cmp", ("is", y.value, const(None))) \
            and (nb[1] != inner[0][1])
    run.ob("K8", MOD, "TracesParser.feed_generator", "yields exactly the non-None results of feed, in order", ok,
           "feed_generator is not `for event in generator: r = feed(event); if r is not None: yield r`: traces are dropped, "
           "duplicated, reordered or None is emitted", line=fn.lineno)
    mats = [c for c in rec.calls if c.func.op == "builtin" and c.func.a[0] in ("list", "sorted", "reversed", "tuple")]
    run.ob("K8", MOD, "TracesParser.feed_generator", "no materialisation", not mats,
           f"feed_generator applies {[c.func.a[0] for c in mats]} to the stream", nontrivial=False)

    # ---- K9 parse_event_list
    fn, rec = method("parse_event_list")
    evs = param(fn.args.args[1].arg)
    rets = normal.split_returns([x for x in rec.returns if x.kind == "return"])
    live = [x for x in rets if x.value != const(None)]
    ok = len(live) == 1 and dispatch_ok(live[0].value, live[0].pc, evs)
    run.ob("K9", MOD, "TracesParser.parse_event_list", "None unless id in table and name has a decoder", ok,
           "parse_event_list is not `None unless events[0].eventid in trace_codes and its name in handlers, else "
           "handlers[name](self, events)`", line=fn.lineno)
    if live:
        first_id = T("attr", (T("sub", (evs, const(0))), "eventid"))
        extra = [c for c, _ in live[0].pc if sym.contains(sym.subst(c, {first_id: T("hole", ("id",))}), evs)]
        run.ob("K9", MOD, "TracesParser.parse_event_list", "whether a window is decoded depends on its first record's code only",
               not extra, "" if not extra else
               f"parse_event_list also declines (returns None) depending on {sym.pretty(extra[0])[:80]}: a window - or the list of "
               f"nested records a decoder hands back - whose other records make that condition false yields no trace",
               line=live[0].lineno, witness="a window whose last record differs from its first in that respect")
    run.ob("K9", MOD, "TracesParser.parse_event_list", "no state change",
           not [e for e in rec.effects if e.func.endswith(".parse_event_list") and not _is_diag(e)], "parse_event_list mutates state",
           nontrivial=False)

    # ---- K13 every decoder function is in the table: a `handle_<code>` function of a family module that no row of any table
    # names and no other function refers to is a decoder that lost its row (a duplicate value in an enum the table is derived
    # from, a dropped line) - records of its code are no longer decoded and change pairing domain
    import ast as _ast
    reg_all = registry.load_all(repo)
    named = {(e_.module.name, e_.func_name) for es_ in reg_all.values() for e_ in es_}
    n_fn = 0
    for fam_ in reg_all:
        fmod = repo.module(f"trace_handlers.{fam_}")
        refs = {x.id for x in _ast.walk(fmod.tree) if isinstance(x, _ast.Name) and isinstance(x.ctx, _ast.Load)} | \
               {x.attr for x in _ast.walk(fmod.tree) if isinstance(x, _ast.Attribute)}
        for fname_ in fmod.functions:
            if not fname_.startswith("handle_"):
                continue
            n_fn += 1
            lost = (fmod.name, fname_) not in named and fname_ not in refs
            if lost:
                run.ob("K13", fmod.name, fname_, f"{fname_} is in the decoder table", False,
                       f"{fname_} is defined in {fmod.name} but no row of the decoder table names it and nothing refers to it: records "
                       f"of its code yield no trace any more and are paired with the ordinary records", line=fmod.functions[fname_].lineno,
                       witness="a record of that code, alone and inside an open window")
    run.ob("K13", MOD, "decoder tables", "every handle_* function of a family module is named by a table row or used by another function",
           True, "", nontrivial=False)
    run.floor("K13", "decoder functions of the family modules", n_fn, 400)
    # ---- K10 the window tables belong to the three actions: no decoder (they all receive the parser) and no other method
    # of the parser writes into them, so what K3-K5 establish cannot be undone from outside
    from .. import decoders
    tables = ("on_going_events", "on_going_traces")

    def table_writes(rec_, root):
        out = []
        for e in rec_.effects:
            pth = e.path if e.path is not None else e.base
            if e.kind == "attr-store" and pth == root and e.key in tables:
                out.append((e, e.key))
                continue
            cur = pth
            while cur is not None and cur.op in ("attr", "sub", "mut", "call"):
                if cur.op == "attr" and cur.a[0] == root and cur.a[1] in tables:
                    out.append((e, cur.a[1]))
                    break
                cur = cur.a[0] if cur.op != "call" else (cur.a[0].a[0] if cur.a[0].op == "attr" else None)
        return out
    D = decoders.Decoders(repo)
    D.interp = interp
    n_dec = 0
    for ent in D.entries():
        d = D.decode(ent)
        n_dec += 1
        ws = table_writes(d.rec, decoders.PARSER)
        run.ob("K10", ent.module.name, ent.func_name, f"{ent.key}: leaves the window tables alone", not ws,
               "" if not ws else
               f"the decoder of {ent.key} performs {ws[0][0].kind} {ws[0][0].key} on parser.{ws[0][1]} (line {ws[0][0].lineno}): "
               f"windows opened by START records are changed behind the pairing actions' back, so a later END finds no window "
               f"or a different one", nontrivial=bool(ws), line=ent.func.lineno,
               witness="START of a call on thread T, then this record, then the END of the call on thread T")
    run.floor("K10", "decoders scanned", n_dec, 400)
    # ---- K11 a decoder that was handed a window gives a trace back: the dispatcher drops None, so a path of a decoder that
    # returns None (explicitly or by running off its end) makes the END of an open START produce nothing.  The only
    # condition under which a decoder may decline is the record's own role (its func_qualifier bits: a continuation chunk).
    for ent in D.entries():
        d = D.decode(ent)
        lost = []
        for r_ in normal.split_returns([x for x in d.rec.returns if x.kind == "return"]):
            if r_.value != const(None):
                continue
            if any(x.op == "attr" and x.a[1] == "func_qualifier" for c_, _ in r_.pc for x in sym.walk(c_)):
                continue
            lost.append(r_)
        run.ob("K11", ent.module.name, ent.func_name, f"{ent.key}: every window handed over gives a trace", not lost,
               "" if not lost else
               f"the decoder of {ent.key} returns None when "
               f"{' and '.join((sym.pretty(c_)[:60] if p_ else 'not ' + sym.pretty(c_)[:60]) for c_, p_ in lost[0].pc[-3:]) or 'always'}"
               f"{' (by running off its end)' if getattr(lost[0], 'implicit', False) else ''}: the window has already been "
               f"popped, the dispatcher drops None, so the END of an open START yields no trace", nontrivial=bool(lost),
               line=lost[0].lineno if lost else ent.func.lineno,
               witness="START ... END of this code on one thread, with nested records that make that condition true")
    # ---- K12 the records a trace carries are its window: "contains every same-thread, same-domain event between START and END"
    # is observed through the trace's record list.  A decoder hands the window on as it is, or collects it record by record
    # without leaving any out (it may stop at the record that closes a text).
    n_k12 = 0
    for ent in D.entries():
        d = D.decode(ent)
        if d.ret is None or d.ret.op != "new":
            continue
        kt = dict(d.ret.a[1]).get("ktraces")
        if kt is None or kt == decoders.EVENTS:
            n_k12 += kt is not None
            continue
        collected = [e_ for e_ in d.rec.effects if e_.kind == "mut-call" and e_.key == "append" and e_.args
                     and e_.args[0].op == "elem" and e_.args[0].a[0] == decoders.EVENTS]
        part = _part_of_window(kt)
        if part is not None and not collected:
            n_k12 += 1
            run.ob("K12", ent.module.name, ent.func_name, f"{ent.key}: every record of the window is kept", part == "",
                   "" if part == "" else
                   f"the decoder of {ent.key} gives its trace {part} as record list: the trace no longer holds every same-thread "
                   f"event between its START and END", line=ent.func.lineno, nontrivial=part != "",
                   witness="a window of two or more records")
            continue
        if not collected:
            run.floor_failures.append(f"C04/K12: the record list of the trace {ent.key} is {sym.pretty(kt)[:60]}: neither the window "
                                      f"nor a list collected from it record by record")
            continue
        n_k12 += 1
        lid = collected[0].loops[-1] if collected[0].loops else None
        entry = d.rec.loops[lid].entry_pc if lid in d.rec.loops else ()
        filtered = [e_ for e_ in collected if [c_ for c_ in e_.pc[len(entry):]]]
        run.ob("K12", ent.module.name, ent.func_name, f"{ent.key}: every record of the window it walks is kept", not filtered,
               "" if not filtered else
               f"the decoder of {ent.key} keeps a record of its window only when "
               f"{' and '.join((sym.pretty(c_)[:60] if p_ else 'not ' + sym.pretty(c_)[:60]) for c_, p_ in filtered[0].pc[len(entry):][:2])}: "
               f"the trace's record list no longer holds every same-thread event between its START and END",
               line=filtered[0].lineno if filtered else ent.func.lineno, nontrivial=bool(filtered),
               witness="another record of the same thread and domain between the START and the END of this one")
    run.floor("K12", "decoders whose record list is the window (or collected from it)", n_k12, 300)
    for mname, mnode in M.items():
        if mname in (start_m, end_m, all_m, "__init__"):
            continue
        mrec = interp.run(tp.module, mnode, self_cls=tp)
        ws = [w for w in table_writes(mrec, SELF) if w[0].func.endswith("." + mname)]
        run.ob("K10", MOD, f"TracesParser.{mname}", "leaves the window tables alone", not ws,
               "" if not ws else f"TracesParser.{mname} performs {ws[0][0].kind} {ws[0][0].key} on self.{ws[0][1]} itself",
               nontrivial=bool(ws), line=mnode.lineno)


def _normalise_none_guards(rec, st: T, tid: T) -> None:
    """`w = state.get(tid)` ... `if w is None` is the membership test `tid not in state` (the table holds window dicts, never
    None - K2), and where it is known not to be None `w` is `state[tid]`: the path conditions of the record are rewritten to the
    one spelling the rules are written in."""
    if getattr(rec, "_c04_none_norm", False):
        return
    rec._c04_none_norm = True
    gets = (T("call", (T("attr", (st, "get")), (tid,), ())), T("call", (T("attr", (st, "get")), (tid, const(None)), ())))

    def rw(t: T) -> T:
        def go(x):
            if isinstance(x, T):
                if x.op == "cmp" and x.a[0] in ("is", "is not") and const(None) in (x.a[1], x.a[2]):
                    other = x.a[2] if x.a[1] == const(None) else x.a[1]
                    if strip_mut(other) in gets:
                        return T("cmp", ("not in" if x.a[0] == "is" else "in", tid, st))
                if x in gets:
                    return T("sub", (st, tid))
                na = go(x.a)
                return x if na is x.a else T(x.op, na)
            if isinstance(x, tuple):
                new = tuple(go(e) for e in x)
                return x if all(n is o for n, o in zip(new, x)) else new
            return x
        return go(t)

    def rw_pc(pc):
        return tuple((rw(c), p_) for c, p_ in pc)
    if not any(g in set(sym.walk(c)) for coll in (rec.effects, rec.returns, rec.pops, rec.calls) for o in coll for c, _ in o.pc
               for g in gets):
        return
    for coll in (rec.effects, rec.returns, rec.pops, rec.calls):
        for o in coll:
            o.pc = rw_pc(o.pc)
    for lr in rec.loops.values():
        if lr.entry_pc is not None:
            lr.entry_pc = rw_pc(lr.entry_pc)
        lr.exits = [(k, rw_pc(pc), *rest) for k, pc, *rest in lr.exits]


def _pc_at_loop(rec, lr):
    """Path-condition entries that were already in force when the loop was entered (approximated by the
    entries shared by everything recorded inside the loop)."""
    if lr.entry_pc is not None:
        return tuple(lr.entry_pc)
    inside = [e.pc for e in rec.effects if lr.id in e.loops] + [p.pc for p in rec.pops if lr.id in p.loops]
    if not inside:
        return ()
    common = set(inside[0])
    for pc in inside[1:]:
        common &= set(pc)
    return tuple(c for c in inside[0] if c in common)


def _is_negated_guard(pc, g1, g2) -> bool:
    from .. import pipeline
    a = guards.assumptions(pc)
    if render.assume_lookup(a, T("bool", ("and", (g1, g2)))) is False:
        return True
    want = pipeline.normalise(T("not", (T("bool", ("and", (g1, g2))),)))
    return want in pipeline.conjuncts(pc)
