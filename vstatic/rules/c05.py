"""C05 - per-thread results are invariant under interleaving of threads."""
from __future__ import annotations

from typing import Dict, List, Optional, Set

from .. import decoders, sym
from ..model import AnalysisError, Repo
from ..report import Run
from ..sym import T, const, param

EXPLANATION = (
    "A schedule can only matter through state that outlives one decoder invocation. Every write (attribute rebind, item "
    "store, delete, mutating method call - aliases resolved) to state reachable from TracesParser.feed is enumerated by "
    "symbolic interpretation of the parser's methods and of all registered decoders. R1: every write into parser state is "
    "either into a table that is global by design (frozen list with reasons: threads_pids, pids_names, global_strings, "
    "tids_names - keyed by ids carried in the records themselves) or is an item store / mutation whose FIRST key is the "
    "emitting thread's id. R2: no scalar slot (parser.x = ... outside __init__) is written by one invocation and read by "
    "another. R3: no module-level object or class attribute is mutated, no `global`. R5: the per-thread tables are not built "
    "with one mutable object handed to several keys (dict.fromkeys(keys, {}), [{}] * n). R4: every read of a per-thread table "
    "is keyed by the emitting thread first. Together: the only state a thread's decoding can observe from other threads is "
    "the by-design tables, which the property's quantifier excludes; equality of results across schedules is argued from "
    "this, not checked."
)

PARSER = param("parser")
SELF = param("self")
EVENTS = param("events")

GLOBAL_BY_DESIGN = {
    "threads_pids": "thread -> process table, keyed by thread ids carried in records (shared with the formatter, C14)",
    "pids_names": "process -> name table, keyed by process ids carried in records",
    "global_strings": "string id -> text, keyed by the string id carried in the record",
    "tids_names": "thread -> name, keyed by the thread id carried in the record",
    "dyld_addresses": "sorted image load addresses (callstack attribution, C15)",
    "dyld_uuids": "image identities parallel to dyld_addresses",
}
CONFIG = {"trace_codes", "handlers", "qualifiers_actions"}


def emitting_tid_terms(event_params: Set[str]) -> List[T]:
    out = [T("attr", (T("sub", (EVENTS, const(0))), "tid")), T("attr", (T("sub", (EVENTS, const(-1))), "tid"))]
    for p in event_params:
        out.append(T("attr", (param(p), "tid")))
    return out


def is_tid(t: T, event_params: Set[str]) -> bool:
    if t in emitting_tid_terms(event_params):
        return True
    # any record of the window belongs to the emitting thread
    if t.op == "attr" and t.a[1] == "tid":
        b = t.a[0]
        if b.op == "sub" and b.a[0] == EVENTS:
            return True
        if b.op == "elem" and sym.contains(b, EVENTS):
            return True
        if b.op == "elem" and b.a[0].op == "param":
            return True          # feed_generator: the event being fed
    return False


def config_cache_store(e, first_key, event_params: Set[str]) -> bool:
    """Is this keyed store a memo of a value computed from the key and the parser's configuration only?

    Such a store cannot carry anything between threads: whoever stores it stores the same value.  A constant value
    (a 'seen' marker), a value containing record data other than the key, and every removal are NOT of this kind."""
    if e.kind != "sub-store" and not (e.kind == "mut-call" and e.key == "setdefault" and len(e.args) == 2):
        return False
    v = e.value if e.kind == "sub-store" else e.args[1]
    if v is None or first_key is None:
        return False
    KEY = T("memo-key", ())
    v2 = sym.subst(v, {first_key: KEY})
    uses_config = False
    for x in sym.walk(v2):
        if x == EVENTS or (x.op == "param" and x.a[0] in event_params) or x.op == "elem":
            return False
        if x.op == "attr" and x.a[0] in (PARSER, SELF) and x.a[1] in CONFIG:
            uses_config = True
        if x.op == "global" and x.a[0].startswith("pykdebugparser.") and x.a[0].endswith(".handlers"):
            uses_config = True
    return uses_config


def chain_of(path: T):
    """[root, step1, step2...] where steps are ('attr', name) or ('sub', key)."""
    steps = []
    cur = path
    while cur.op in ("attr", "sub"):
        steps.append(("attr", cur.a[1]) if cur.op == "attr" else ("sub", cur.a[1]))
        cur = cur.a[0]
    return cur, list(reversed(steps))


config_caches: Set[str] = set()
DIAG_SLOTS: Set[str] = set()


def analyse(run: Run, rec: sym.Record, module: str, scope: str, event_params: Set[str], state_params: Dict[str, str],
            slots_written: Dict, slots_read: Dict, tables_read: Set[str], seen: Set) -> int:
    n = 0
    for c in rec.calls:
        # errno.errorcode.setdefault(...), os.environ.update(...): an object of the standard library changed in place
        if c.func.op == "global" and c.func.a[0].count(".") >= 2 and c.func.a[0].split(".")[0] in ("errno", "signal", "socket", "os") \
                and c.func.a[0].rsplit(".", 1)[1] in ("setdefault", "update", "pop", "popitem", "clear", "append", "extend", "insert", "remove",
                                                     "add", "discard", "__setitem__", "__delitem__"):
            k_ = (c.where, "stdlib", c.func.a[0])
            if k_ not in seen:
                seen.add(k_)
                run.ob("R3", module, c.where.rsplit(".", 1)[-1], f"call {c.func.a[0]}", False,
                       f"{c.where.rsplit('.', 1)[-1]} calls {c.func.a[0]}(...): an object of the standard library, shared by the whole "
                       f"process, is changed in place - what one decode writes there is read back by every later one (of any thread, "
                       f"any parser)", line=c.lineno)
    for e in rec.effects:
        pth = e.path if e.path is not None else e.base
        if e.kind.startswith("memo-"):
            continue            # a store into a table proved to be a pure memo (vstatic/memo.py): not state
        r0_ = T("attr", (pth, e.key)) if (pth is not None and e.kind == "attr-store") else pth
        while r0_ is not None and r0_.op in ("sub", "mut"):
            r0_ = r0_.a[0]
        if r0_ is not None and r0_.op == "attr" and r0_.a[0] in (PARSER, SELF) and r0_.a[1] in DIAG_SLOTS:
            continue            # bookkeeping nobody reads (vstatic/shared.py diagnostic_slots): not state a result can depend on
        if pth is not None and state_params and e.kind in ("sub-store", "del-sub", "mut-call"):
            # a write to what a comprehension over the WHOLE table collected (`[w for ws in state.values() for w in ws.values()]`):
            # every thread's entries, unless the comprehension keeps the emitting thread's only (`... if tid == event.tid`)
            for comp in [x for x in sym.walk(sym.resolve_widens(rec, pth)) if x.op == "comp"]:
                for gi, (elem_, it_, conds_) in enumerate(comp.a[2]):
                    if it_.op == "call" and it_.a[0].op == "attr" and it_.a[0].a[1] in ("values", "items", "keys") \
                            and it_.a[0].a[0].op == "param" and it_.a[0].a[0].a[0] in state_params:
                        all_conds = [c_ for g_ in comp.a[2] for c_ in g_[2]]
                        own = any(x.op == "cmp" and x.a[0] == "==" and any(
                            y.op == "attr" and y.a[1] == "tid" and y.a[0].op == "param" and y.a[0].a[0] in event_params
                            for y in (x.a[1], x.a[2])) for c_ in all_conds for x in sym.walk(c_))
                        k_ = (e.func, "all-threads", e.lineno)
                        if not own and it_.a[0].a[1] != "keys" and k_ not in seen:
                            seen.add(k_)
                            run.ob("R1", module, e.func.rsplit(".", 1)[-1], f"{e.kind} at line {e.lineno}: only the emitting thread's entries are written", False,
                                   f"{e.func.rsplit('.', 1)[-1]} performs {e.key if isinstance(e.key, str) else e.kind} on what a comprehension over "
                                   f"{sym.pretty(it_)[:40]} collected - the entries of every thread in the table: a record of one thread changes "
                                   f"the windows of the others", line=e.lineno,
                                   witness="two threads with an open call each; one of them ends its call")
        if pth is not None and state_params and e.kind in ("sub-store", "del-sub", "mut-call") and any(x.op == "widen" for x in sym.walk(pth)):
            # a write through a name that a loop over the whole table rebinds (`for windows in state.values(): ...` and then
            # `windows[code] = []`): after the loop it names the entry of whichever thread came last, not the emitting one's
            res = sym.resolve_widens(rec, pth)
            stray = [x for x in sym.walk(res) if x.op == "elem" and isinstance(x.a[0], T) and x.a[0].op == "call"
                     and x.a[0].a[0].op == "attr" and x.a[0].a[0].a[1] in ("values", "items")
                     and x.a[0].a[0].a[0].op == "param" and x.a[0].a[0].a[0].a[0] in state_params
                     and (len(x.a) < 2 or x.a[1] not in e.loops)]
            if stray:
                k_ = (e.func, "stray", e.lineno)
                if k_ not in seen:
                    seen.add(k_)
                    run.ob("R1", module, e.func.rsplit(".", 1)[-1], f"{e.kind} at line {e.lineno}: the entry written is the emitting thread's", False,
                           f"{e.func.rsplit('.', 1)[-1]} writes through a name that a loop over {sym.pretty(stray[0].a[0])[:40]} has rebound: after "
                           f"that loop it is the entry of the thread that comes last in the table, so a record of one thread changes the "
                           f"windows of another - which one depends on the order the threads were first seen", line=e.lineno,
                           witness="two threads with an open call each; the first restarts its call")
        if e.kind == "global":
            run.ob("R3", module, scope, f"global {e.key}", False,
                   f"{scope} declares `global {e.key}`: module-level state shared by all threads", line=e.lineno)
            continue
        if pth is None:
            continue
        if e.kind == "attr-store":
            root, steps = chain_of(T("attr", (pth, e.key)))
        else:
            root, steps = chain_of(pth)
            if e.kind in ("sub-store", "del-sub"):
                steps = steps + [("sub", e.key)]
            elif e.kind == "mut-call":
                if e.key in ("setdefault", "pop") and e.args:
                    steps = steps + [("sub", e.args[0])]          # keyed mutation
                else:
                    steps = steps + [("call", e.key)]
        scope_fn = e.func.rsplit(".", 1)[-1]
        key = (e.func, e.kind, sym.pretty(pth)[:80], str(e.key)[:40])
        # ---- module-level / class-level objects, mutable default arguments
        if root.op == "default":
            if key not in seen:
                seen.add(key)
                run.ob("R3", module, scope_fn, f"{e.kind} default argument `{root.a[0]}`", False,
                       f"{scope_fn} mutates its mutable default argument `{root.a[0]}`: one object shared by every call, so what "
                       f"one decode stored is returned to another (of another thread, or of another kind)", line=e.lineno)
            continue
        if root.op == "global" and root.a[0].split(".")[0] in ("errno", "signal", "socket", "os", "sys") \
                and e.kind in ("sub-store", "del-sub", "mut-call") and not (e.kind == "mut-call" and root.a[0].startswith(("sys.std", "os.write"))):
            if key not in seen:
                seen.add(key)
                run.ob("R3", module, scope_fn, f"{e.kind} {sym.pretty(pth)[:60]}", False,
                       f"{scope_fn} changes {sym.pretty(root)}, an object of the standard library shared by the whole process: what one decode "
                       f"writes there is read back by every later one (of any thread, any parser)", line=e.lineno)
            continue
        if root.op in ("global", "class", "func") and (root.op != "global" or root.a[0].startswith("pykdebugparser.")):
            if key not in seen:
                seen.add(key)
                run.ob("R3", module, scope_fn, f"{e.kind} {sym.pretty(pth)[:60]}", False,
                       f"{scope_fn} mutates the module-level object {sym.pretty(root)}: state shared across threads and parses",
                       line=e.lineno)
            continue
        # ---- parser state
        table = None
        if root in (PARSER, SELF) and steps and steps[0][0] == "attr":
            table = steps[0][1]
            rest = steps[1:]
        elif root.op == "param" and root.a[0] in state_params:
            table = state_params[root.a[0]]
            rest = steps
        else:
            continue            # local objects, the decoded trace object, the record list ...
        if key in seen:
            continue
        seen.add(key)
        n += 1
        construct = f"{e.kind} {sym.pretty(pth)[:50]}{'.' + str(e.key) if e.kind in ('mut-call', 'attr-store') else '[' + sym.pretty(e.key)[:30] + ']'}"
        if not rest:
            # attribute rebind: a scalar slot
            if e.kind == "attr-store":
                slots_written.setdefault(table, []).append((module, scope_fn, e.lineno))
                continue
        if table in GLOBAL_BY_DESIGN:
            run.ob("R1", module, scope_fn, construct, True,
                   facts={"table": table, "by_design": GLOBAL_BY_DESIGN[table]}, nontrivial=False, line=e.lineno)
            continue
        if table in CONFIG:
            run.ob("R1", module, scope_fn, construct, False,
                   f"{scope_fn} modifies the parser's configuration table {table} while decoding", line=e.lineno)
            continue
        first = rest[0] if rest else None
        ok = first is not None and first[0] == "sub" and is_tid(first[1], event_params)
        if first is not None and first[0] == "call":
            ok = False
        if not ok and first is not None and first[0] == "sub" and config_cache_store(e, first[1], event_params):
            # a memo of values computed from the key and the parser's configuration only (code table, decoder registry):
            # whoever stores it stores the same value, so it cannot carry data between threads
            run.ob("R1", module, scope_fn, construct, True,
                   facts={"table": table, "note": "memo of a configuration-derived value"}, nontrivial=True, line=e.lineno)
            config_caches.add(table)
            continue
        if ok and e.value is not None and e.kind == "sub-store":
            vroot = sym.root_of(e.value)
            if vroot.op in ("class", "func") or (vroot.op == "global" and vroot.a[0].startswith("pykdebugparser.")):
                run.ob("R3", module, scope_fn, construct + " value", False,
                       f"{scope_fn} stores the shared module/class-level object {sym.pretty(e.value)[:60]} into per-thread "
                       f"state: all threads then mutate the same object", line=e.lineno)
        run.ob("R1", module, scope_fn, construct, ok,
               "" if ok else
               f"{scope_fn} writes parser.{table} " + (f"keyed first by {sym.pretty(first[1])[:50]}" if first and first[0] == 'sub'
                                                       else "as a whole") +
               ", not by the emitting thread's id: what one thread stores is seen (or overwritten) by another, so the result "
               "depends on how the per-CPU buffers were merged",
               facts={"table": table, "first_key": sym.pretty(first[1])[:60] if first and first[0] == "sub" else None},
               line=e.lineno)
    # ---- reads
    from ..sym import POp
    keyed_calls = []
    for c in rec.calls:
        if c.func.op == "attr" and c.func.a[1] in ("get",) and c.args:
            keyed_calls.append(POp("sub", c.func.a[0], c.args[0], c.pc, c.loops, c.trys, c.seq, c.where, c.lineno, c.col,
                                   c.func.a[0]))
    # a counter (`self.n += 1`, `self.n = self.n + k`) reads its slot only to write it back: nothing else depends on it
    counters = {(e.key, e.lineno) for e in rec.effects if e.kind == "attr-store" and (e.path or e.base) in (PARSER, SELF)
                and (e.aug is not None or (e.value is not None and e.value.op == "bin" and e.value.a[0] in ("+", "-")
                                           and T("attr", (e.path or e.base, e.key)) in (e.value.a[1], e.value.a[2])))}
    for p in list(rec.pops) + keyed_calls:
        base = p.path if p.path is not None else p.base
        if p.kind == "attr" and base in (PARSER, SELF):
            if (p.key, p.lineno) in counters:
                continue
            slots_read.setdefault(p.key, set()).add((module, p.func.rsplit(".", 1)[-1]))
        if p.kind == "sub":
            root, steps = chain_of(base)
            table = None
            if root in (PARSER, SELF) and steps and steps[0][0] == "attr":
                table = steps[0][1]
                rest = steps[1:] + [("sub", p.key)]
            elif root.op == "param" and root.a[0] in state_params:
                table = state_params[root.a[0]]
                rest = steps + [("sub", p.key)]
            if table is None or table in GLOBAL_BY_DESIGN or table in CONFIG or table in config_caches:
                if table in GLOBAL_BY_DESIGN:
                    tables_read.add(table)
                continue
            first = rest[0]
            k = (p.func, "read", sym.pretty(base)[:80], sym.pretty(first[1])[:40])
            if k in seen:
                continue
            seen.add(k)
            n += 1
            ok = is_tid(first[1], event_params)
            run.ob("R4", module, p.func.rsplit(".", 1)[-1], f"read {sym.pretty(base)[:50]}[{sym.pretty(p.key)[:30]}]", ok,
                   "" if ok else f"per-thread table {table} is read with first key {sym.pretty(first[1])[:50]}, not the emitting "
                                 f"thread's id", facts={"table": table}, line=p.lineno)
    return n


def learned_names(repo: Repo, run: Run) -> None:
    """"the process names learned from a thread's own new-thread/exec record pairs depend only on that thread's own event
    sequence": a name record files its text under the pid of the thread's OWN pending data record (the slot keyed by the
    emitting thread), not under whatever a table that other threads write holds at that moment - that is C14/R4, a necessary
    condition here."""
    if getattr(run, "is_probe", False):
        return          # (a check run for its own obligations does not take over in turn)
    from . import c14
    probe = Run("C14", run.tier, run.repo_root)
    probe.is_probe = True
    try:
        c14.check(repo, probe)
    except AnalysisError:
        pass            # the floor below fails if the obligations were not reached
    n = 0
    for o in probe.obligations:
        if o["rule"] == "R4" and ("pids_names[record's own id]" in o["construct"] or (
                o["construct"].startswith("decoder:") and "pids_names" in (o.get("what") or ""))):
            # (the second kind: a decoder that does something else to the name table - drops an entry, writes a second one)
            n += 1
            run.ob("R0", o["module"], o["scope"], f"learned names (C14/R4): {o['construct']}", o["ok"],
                   (o.get("what", "") + " - the name learned from a thread's own record pair then depends on what other threads "
                    "logged in between (the merge order of the per-CPU buffers)") if not o["ok"] else "", nontrivial=False)
    run.floor("R0", "name-learning obligations taken over from C14", n, 2)


def single_entry_caches(tp, interp) -> Dict[str, str]:
    """Slots of the parser used as a one-entry cache by one method: `if <inputs differ from the remembered ones>: self.key =
    <inputs>; self.value = F(<inputs>)`, then `self.value` is used.  slot -> '' when every input F reads is compared with its
    remembered copy in the refresh test, otherwise what is missing."""
    from .. import memo, render, guards as _g
    out: Dict[str, str] = {}
    for name, fn in tp.methods.items():
        if name == "__init__":
            continue
        rec = interp.run(tp.module, fn, self_cls=tp)
        stores = [e for e in rec.effects if e.kind == "attr-store" and (e.path or e.base) == SELF and e.func.endswith("." + name) and e.pc]
        groups: Dict[tuple, list] = {}
        for e in stores:
            groups.setdefault(e.pc, []).append(e)
        for pc, es in groups.items():
            def is_param_input(t):
                return memo._is_input(t) and sym.root_of(t).op == "param" and sym.root_of(t) != SELF
            slot_names = {e.key for e in es}

            def remembered(t):
                r = sym.root_of(t)
                x = t
                while x.op in ("sub", "attr") and not (x.op == "attr" and x.a[0] == SELF):
                    x = x.a[0]
                return x.op == "attr" and x.a[0] == SELF and x.a[1] in slot_names
            covered = set()
            for atom in [x for c, _pol in pc for x in sym.walk(c)]:
                if atom.op == "cmp" and atom.a[0] in ("==", "!=", "is", "is not"):
                    for a, b in ((atom.a[1], atom.a[2]), (atom.a[2], atom.a[1])):
                        if is_param_input(a) and remembered(b):
                            covered.add(a)
            if not covered:
                continue            # not the idiom: the stores are not made under a comparison with remembered inputs
            for e in es:
                v = e.value
                if v is None:
                    continue
                ins = {a for a in memo._inputs(v) if is_param_input(a)}
                missing = sorted(sym.pretty(a) for a in ins - covered)
                out[e.key] = "" if not missing else (f"refreshes it only when {sorted(sym.pretty(a) for a in covered)} changed, although it is "
                                                     f"computed from {missing} as well")
    # every slot of a group shares the verdict of its worst member
    if any(v for v in out.values()):
        worst = next(v for v in out.values() if v)
        out = {k: (v or worst) for k, v in out.items()}
    return out


def check(repo: Repo, run: Run) -> None:
    from .. import shared as _shared
    DIAG_SLOTS.clear()
    DIAG_SLOTS.update(_shared.diagnostic_slots(repo, repo.cls("traces_parser", "TracesParser")))
    learned_names(repo, run)
    from .c07 import Ctx
    ctx = Ctx(repo)
    interp = ctx.interp
    from .c04 import actions_get_the_tables
    actions_get_the_tables(repo, interp)
    seen: Set = set()
    slots_written: Dict = {}
    slots_read: Dict = {}
    tables_read: Set[str] = set()
    total = 0
    tp = repo.cls("traces_parser", "TracesParser")
    # ---- R5: the per-thread tables start out empty; in particular no construction hands ONE mutable object to several
    # keys (dict.fromkeys(keys, {}), [{}] * n): threads would then share a window table
    if "__init__" in tp.methods:
        irec = interp.run(tp.module, tp.methods["__init__"], self_cls=tp)
        n_init = 0
        for e in irec.effects:
            if e.kind != "attr-store" or (e.path or e.base) != sym.param("self") or e.value is None:
                continue
            n_init += 1
            shared = None
            for x in sym.walk(e.value):
                if x.op == "call" and x.a[0].op == "attr" and x.a[0].a[1] == "fromkeys" and len(x.a[1]) == 2 \
                        and x.a[1][1].op in ("dict", "list", "set", "comp", "new"):
                    shared = f"dict.fromkeys(..., {sym.pretty(x.a[1][1])[:20]}) gives every key the SAME object"
                if x.op == "bin" and x.a[0] == "*" and any(o.op == "list" and any(i.op in ("dict", "list", "set") for i in o.a[0])
                                                            for o in (x.a[1], x.a[2])):
                    shared = "[<mutable>] * n repeats ONE object"
            per_thread = str(e.key) in ("on_going_events", "on_going_traces", "last_data_newthread", "last_data_exec", "tids_names")
            if e.value.op == "new" and any(v.op in ("list", "dict", "set") for _, v in e.value.a[1]):
                # record-to-record state kept inside an object of a helper class: which thread a slot of it belongs to is
                # decided by that class's own methods, which the keyed-by-thread rules below do not follow
                raise AnalysisError(f"self.{e.key} is an object of {e.value.a[0].rsplit('.', 1)[1]} holding mutable containers: state "
                                    f"that lives in helper objects is not followed by the thread-keying rules")
            if per_thread or shared:
                run.ob("R5", tp.module.name, "TracesParser.__init__", f"{e.key} starts without shared per-thread objects", shared is None,
                       "" if shared is None else
                       f"self.{e.key} is built with {shared}: threads that are present from the start share one table, so the "
                       f"windows of one thread are reset and filled by the records of another",
                       line=e.lineno, witness=None if shared is None else
                       "a parser constructed with a non-empty thread map; two of those threads with overlapping calls of the same code")
        run.floor("R5", "attributes initialised by TracesParser.__init__", n_init, 8)
    # which table a state parameter of an action method stands for: both pairing tables (per-thread by design)
    for name, fn in tp.methods.items():
        if name == "__init__":
            continue
        rec = interp.run(tp.module, fn, self_cls=tp)
        ev_params = set()
        state_params = {}
        if len(fn.args.args) >= 2:
            ev_params.add(fn.args.args[1].arg)
        if name in ctx.action_methods and len(fn.args.args) >= 3:
            state_params[fn.args.args[2].arg] = "on_going_*"
        total += analyse(run, rec, tp.module.name, f"TracesParser.{name}", ev_params, state_params, slots_written,
                         slots_read, tables_read, seen)
    D = decoders.Decoders(repo)
    D.interp = interp
    per_decoder_tables = {}
    n_dec = 0
    for e in D.entries():
        d = D.decode(e)
        n_dec += 1
        tr: Set[str] = set()
        total += analyse(run, d.rec, e.module.name, e.func_name, set(), {}, slots_written, slots_read, tr, seen)
        if d.str_rec is not None:
            total += analyse(run, d.str_rec, e.module.name, f"{d.cls.name}.__str__", set(), {}, slots_written, slots_read,
                             tr, seen)
        for a in decoders.classify(d.ret):
            if a[0] == "TABLE" and a[1] in GLOBAL_BY_DESIGN:
                tr.add(a[1])
        if tr:
            per_decoder_tables[e.key] = sorted(tr)
    # ---- R2 scalar slots
    caches = single_entry_caches(tp, interp)
    for slot, writers in sorted(slots_written.items()):
        readers = slots_read.get(slot, set())
        other = {r for r in readers}
        ok = not other
        verdict = caches.get(slot)
        if other and verdict is not None:
            for (m, fn_name, ln) in writers:
                run.ob("R2", m, fn_name, f"parser.{slot}: a remembered value is reused only when everything it was computed from is the same",
                       verdict == "", "" if verdict == "" else
                       f"{fn_name} keeps `{slot}` from one record to the next and {verdict}: with two threads (or the two window tables) "
                       f"interleaved, a record is handled with what was looked up for another", line=ln,
                       witness="a thread's single record of one pairing domain followed by its single record of the other")
            continue
        for (m, fn_name, ln) in writers:
            run.ob("R2", m, fn_name, f"parser.{slot} = ...", ok,
                   "" if ok else
                   f"{fn_name} rebinds the parser-wide slot `{slot}` which {sorted(x[1] for x in other)} read(s) in a later "
                   f"invocation: with two threads interleaved, one thread's record is consumed by the other",
                   facts={"readers": sorted(x[1] for x in other)}, line=ln,
                   witness="threads A and B each emit <data, string>; order A,B,A,B pairs A's string with B's data")
    if not slots_written:
        run.ob("R2", tp.module.name, "TracesParser + decoders", "no scalar slot is written outside __init__", True)
    run.analysed.update({"decoders": n_dec, "state_writes_and_reads": total,
                         "decoders_reading_global_tables": per_decoder_tables})
    # ---- R3 over every helper function of the decoder modules (helpers with loops are not inlined into decoders)
    for mod in repo.modules.values():
        if not mod.name.startswith("pykdebugparser.trace_handlers."):
            continue
        for fname, fnode in mod.functions.items():
            rec = interp.run(mod, fnode)
            for e in rec.effects:
                pth = e.path if e.path is not None else e.base
                if pth is None:
                    continue
                root, _ = chain_of(pth if e.kind != "attr-store" else T("attr", (pth, e.key)))
                k = (e.func, e.kind, sym.pretty(pth)[:80], str(e.key)[:40])
                if root.op == "default" and k not in seen:
                    seen.add(k)
                    run.ob("R3", mod.name, e.func.split(".<locals>")[0].rsplit(".", 1)[-1],
                           f"{e.kind} default argument `{root.a[0]}`", False,
                           f"{e.func.rsplit('.', 1)[-1]} mutates the mutable default argument `{root.a[0]}` of "
                           f"{e.func.split('.<locals>')[0].rsplit('.', 1)[-1]}: one object shared by every call and every decoder "
                           f"built from it", line=e.lineno)
                elif root.op == "global" and root.a[0] == f"{mod.name}.handlers" and fname in registrars(mod):
                    continue        # a registration decorator fills the family's registry while the module is imported
                elif root.op == "global" and root.a[0].startswith("pykdebugparser.") and k not in seen \
                        and e.kind in ("sub-store", "mut-call", "del-sub", "attr-store"):
                    seen.add(k)
                    run.ob("R3", mod.name, fname, f"{e.kind} {sym.pretty(pth)[:60]}", False,
                           f"{fname} mutates the module-level object {sym.pretty(root)}", line=e.lineno)
    run.floor("R1", "decoders analysed", n_dec, 440)
    run.floor("R1", "state writes/reads classified", total, 10)
    check_class_level_containers(repo, run)
    from .. import shared
    found, n_m = shared.kept_mutable_defaults(repo)
    mine = [f for f in found if f.cls != "PyKdebugParser"]
    run.ob("R6", mine[0].module if mine else "pykdebugparser", mine[0].cls if mine else "all classes",
           "no constructor keeps a mutable default argument", not mine,
           "" if not mine else
           f"{mine[0].cls}.{mine[0].method} keeps the default object of its parameter `{mine[0].param}` (created once) as "
           f"self.{mine[0].attr}: every {mine[0].cls} built without that argument shares it, so what one decode leaves behind is "
           f"picked up by the next one, whichever thread or parser it belongs to", line=mine[0].lineno if mine else None,
           nontrivial=bool(mine))
    _canary(run, interp)


CANARY = '''
def handle_canary(parser, events):
    parser.last_path = events[0].values[0]
    parser.cache[events[0].eventid] = 1
    return None
'''


def check_class_level_containers(repo: Repo, run: Run) -> None:
    """R6: a mutable container written in a class BODY (`chunks = []`) is one object shared by every instance.  If the
    class never rebinds the attribute per instance (`self.chunks = ...` in __init__ / __post_init__) but a method changes it in place
    (`self.chunks.append(x)`, `self.chunks[k] = v`, `.clear()` ...), whatever one decode leaves in it is seen by the next
    decode - of another thread, or of another parser."""
    import ast
    MUT = {"append", "extend", "insert", "add", "update", "pop", "popitem", "clear", "remove", "discard", "setdefault",
           "sort", "reverse", "appendleft", "extendleft"}
    n = 0
    for ci in repo.all_classes():
        if ci.enum_kind:
            continue
        n += 1
        shared = {}
        for st in ci.node.body:
            tgt = val = None
            if isinstance(st, ast.Assign) and len(st.targets) == 1 and isinstance(st.targets[0], ast.Name):
                tgt, val = st.targets[0].id, st.value
            elif isinstance(st, ast.AnnAssign) and isinstance(st.target, ast.Name) and st.value is not None:
                tgt, val = st.target.id, st.value
            if tgt is None:
                continue
            is_container = isinstance(val, (ast.List, ast.Dict, ast.Set, ast.ListComp, ast.DictComp, ast.SetComp)) or (
                isinstance(val, ast.Call) and isinstance(val.func, ast.Name) and val.func.id in
                ("list", "dict", "set", "deque", "defaultdict", "OrderedDict", "bytearray", "Counter"))
            if is_container:
                shared[tgt] = st.lineno
        if not shared:
            continue
        rebound, mutated = set(), {}
        for m in ci.methods.values():
            self_name = m.args.args[0].arg if m.args.args else None
            for x in ast.walk(m):
                def is_self_attr(e, names=shared):
                    return isinstance(e, ast.Attribute) and isinstance(e.value, ast.Name) and e.value.id in (self_name, ci.name, "cls") \
                        and e.attr in names
                if isinstance(x, (ast.Assign, ast.AnnAssign)):
                    for t in (x.targets if isinstance(x, ast.Assign) else [x.target]):
                        for tt in (t.elts if isinstance(t, (ast.Tuple, ast.List)) else [t]):
                            if is_self_attr(tt) and m.name in ("__init__", "__post_init__", "__new__"):
                                rebound.add(tt.attr)
                            if isinstance(tt, ast.Subscript) and is_self_attr(tt.value):
                                mutated.setdefault(tt.value.attr, (m.name, x.lineno))
                if isinstance(x, ast.AugAssign) and is_self_attr(x.target) and isinstance(x.op, (ast.Add, ast.BitOr)):
                    mutated.setdefault(x.target.attr, (m.name, x.lineno))
                if isinstance(x, ast.Call) and isinstance(x.func, ast.Attribute) and x.func.attr in MUT and is_self_attr(x.func.value):
                    mutated.setdefault(x.func.value.attr, (m.name, x.lineno))
                if isinstance(x, ast.Delete):
                    for t in x.targets:
                        if isinstance(t, ast.Subscript) and is_self_attr(t.value):
                            mutated.setdefault(t.value.attr, (m.name, x.lineno))
        for name, ln in sorted(shared.items()):
            bad = name in mutated and name not in rebound
            run.ob("R6", ci.module.name, ci.name, f"class-level container `{name}`", not bad,
                   "" if not bad else
                   f"{ci.name}.{name} is created once in the class body (line {ln}) and changed in place by {mutated[name][0]} "
                   f"(line {mutated[name][1]}) without ever being rebound per instance: every {ci.name} object shares it, so what one "
                   f"decode leaves behind is picked up by the next one, whichever thread it belongs to", nontrivial=bad, line=ln,
                   witness="an operation that leaves the container non-empty (e.g. a lookup whose END record is missing), "
                           "followed by the same kind of operation on another thread")
    run.analysed["classes_scanned_for_shared_containers"] = n


def registrars(mod) -> set:
    """Names used as decorators (or decorator factories) of module-level functions of the module."""
    import ast
    out = set()
    for f in mod.functions.values():
        for d in f.decorator_list:
            n = d.func if isinstance(d, ast.Call) else d
            if isinstance(n, ast.Name):
                out.add(n.id)
    return out


def _canary(run: Run, interp) -> None:
    import ast
    from ..model import ModuleInfo
    from ..report import Run as R
    tree = ast.parse(CANARY)
    mod = ModuleInfo("pykdebugparser.__canary05__", "<canary>", CANARY, tree)
    rec = interp.run(mod, tree.body[0], {"parser": PARSER, "events": EVENTS})
    probe = R("C05", "quick", "/nonexistent")
    sw, sr = {}, {}
    analyse(probe, rec, mod.name, "handle_canary", set(), {}, sw, sr, set(), set())
    flagged = "last_path" in sw and any(not o["ok"] for o in probe.obligations)
    run.canary("R1", "scalar slot and table keyed by event id are flagged", flagged)
