"""C06 - truncated dumps: parsing terminates and reports a prefix of the full result."""
from __future__ import annotations

from typing import List, Optional

from .. import consteval, pipeline, render, sym
from ..model import AnalysisError, Repo
from ..report import Run, take_over
from ..sym import T, const, param

EXPLANATION = (
    "Termination, no-fabrication and laziness clauses; prefix equality itself is argued from them (the pipeline is a chain "
    "of lazy, deterministic, order-preserving stages), not decided. R1: every loop of kd_buf_parser whose body reads the "
    "stream must leave the loop when a read returns b'': (E1) a test of the raw read result followed by break/return/raise, "
    "(E2) an exit comparison of the raw read result against a non-empty constant, which b'' fails, or (E3) the raw read "
    "result flowing unpadded into a strict-size decoder (from_kd_buf / struct.unpack / a construct parse), which raises on "
    "a short read, or a call to a package function whose own read loops satisfy R1 and raise at end of stream. Every read "
    "inside a loop consumes a constant positive number of bytes (linear reading). R2: every argument of from_kd_buf is the "
    "raw result of read(KEVENT_SIZE) - no ljust/padding/concatenation/slicing - so nothing is fabricated from a partial "
    "record (from_kd_buf's exact-size unpack is C01's). R3: kevents/formatted_kevents/traces/formatted_traces/callstacks/"
    "formatted_callstacks/os_log_events/formatted_logs return filter/map chains over generator functions, "
    "TracesParser.feed_generator, CallstacksParser.feed_generator, parse_v2 and parse_v3 are generator functions, and no "
    "stage materialises or reorders the stream; print_with_count stops consuming when the count is reached and prints each "
    "element as it arrives."
)

MOD = "pykdebugparser.kd_buf_parser"


def read_calls(rec, reader: T):
    return [c for c in rec.calls if c.func == T("attr", (reader, "read"))]


def analyse_loops(repo: Repo, run: Run, interp, mod, fn, cls, reader: T, eof_raising: dict) -> int:
    """Check R1 for every loop of fn that reads the stream. Returns number of loops checked."""
    rec = interp.run(mod, fn, self_cls=cls)
    qn = f"{cls.name}.{fn.name}" if cls else fn.name
    reads = read_calls(rec, reader)
    n = 0
    raises_at_eof = False
    # loops of fn itself, and loops of the private generators it delegates to with `yield from` (expanded in place): those
    # are the loops that contain a yield of this generator
    yielding = {l_ for r in rec.returns if r.kind in ("yield", "yield_from") for l_ in r.loops}
    for lid, lr in rec.loops.items():
        if lr.kind not in ("while", "for") or not (lr.func.endswith(fn.name) or lid in yielding):
            continue
        inside_reads = [c for c in reads if lid in c.loops]
        parse_calls = [c for c in rec.calls if lid in c.loops and c.func.op == "attr" and c.func.a[1] == "parse_stream"
                       and c.args and c.args[0] == reader]
        pkg_calls = [c for c in rec.calls if lid in c.loops and c.func.op == "func" and c.args and reader in c.args]
        if not inside_reads and not parse_calls and not pkg_calls:
            continue
        n += 1
        from .. import streams
        ways = list(streams.exits_on_empty_read(rec, lr, reader))
        # E2 exits: comparison of the raw read result with a non-empty constant
        for kind, pc, seq, lineno in lr.exits:
            if kind not in ("break", "return", "raise"):
                continue
            for c, pol in pc:
                atom, apol = render.norm_bool(c)
                eff = pol if apol else not pol
                if atom.op == "cmp" and atom.a[0] == "==":
                    for x, y in ((atom.a[1], atom.a[2]), (atom.a[2], atom.a[1])):
                        if streams.is_any_read(x, reader) is not None and y.op == "const" and isinstance(y.a[0], bytes) \
                                and y.a[0] != b"" and eff is False:
                            ways.append(f"E2: `{kind}` unless the read result equals the {len(y.a[0])}-byte constant "
                                        f"(line {lineno}); b'' differs")
        if lr.kind == "while" and lr.test is not None:
            # `while flag:` with flag = (read(n) == <non-empty constant>) computed inside the loop
            tst = render.norm_bool(sym.resolve_widens(rec, lr.test))[0]
            if tst.op == "widen":
                for contrib in tst.a[2]:
                    atom, apol = render.norm_bool(contrib)
                    if atom.op == "cmp" and atom.a[0] == "==" and apol:
                        for x, y in ((atom.a[1], atom.a[2]), (atom.a[2], atom.a[1])):
                            if streams.is_any_read(x, reader) is not None and y.op == "const" and isinstance(y.a[0], bytes) and y.a[0]:
                                ways.append(f"E2: the loop continues only while the read result equals the {len(y.a[0])}-byte "
                                            f"constant (line {lr.lineno}); b'' differs")
        # E3 strict decoders fed with the raw read
        for rc in inside_reads:
            rt = T("call", (rc.func, rc.args, rc.kwargs))
            for c in rec.calls:
                if lid not in c.loops:
                    continue
                strict = (c.func.op == "func" and c.func.a[0].endswith("kevent.from_kd_buf")) or \
                         (c.func.op == "global" and c.func.a[0] in ("struct.unpack",)) or \
                         (c.func.op == "attr" and c.func.a[1] in ("parse", "unpack"))
                if strict and any(streams.raw_valued(a_, rt) for a_ in c.args) \
                        and not [x for x in c.pc if x not in rc.pc and x not in streams.loop_test_conditions(rec, c.loops)]:
                    ways.append(f"E3: raw read result goes into the strict-size decoder {sym.pretty(c.func)[:40]} (line {c.lineno})")
                    raises_at_eof = True
        for c in parse_calls:
            ways.append(f"E3: {sym.pretty(c.func)[:50]}(reader) raises at end of stream (line {c.lineno})")
        for c in pkg_calls:
            name = c.func.a[0].rsplit(".", 1)[-1]
            if eof_raising.get(name):
                ways.append(f"E3: {name}(reader, ...) raises at end of stream (its own loops satisfy R1)")
        ok = bool(ways)
        run.ob("R1", mod.name, qn, f"{lr.kind} loop at line {lr.lineno} leaves at end of stream", ok,
               "" if ok else
               f"the {lr.kind} loop at line {lr.lineno} reads the stream ({len(inside_reads)} read site(s)) but no exit fires when "
               f"read() returns b'': it spins forever on a dump cut inside it",
               facts={"exits": sorted(set(ways))[:4], "loop_test": sym.pretty(lr.test)[:80] if lr.test is not None else None},
               line=lr.lineno, witness=None if ok else "any dump truncated while this loop is scanning")
        # a relative seek inside the loop can undo the progress of the read: it needs a short-read exit
        back = [c for c in rec.calls if lid in c.loops and c.func == T("attr", (reader, "seek")) and len(c.args) == 2
                and c.args[1] == const(1) and not (c.args[0].op == "const" and isinstance(c.args[0].a[0], int) and c.args[0].a[0] >= 0)]
        if back:
            short_read_exit = False
            for kind, pc, seq, lineno in lr.exits:
                if kind not in ("break", "return", "raise"):
                    continue
                for c, pol in pc:
                    for x in sym.walk(c):
                        if x.op == "cmp" and x.a[0] in ("<", "<=", ">", ">=", "!=", "==") and any(
                                y.op == "call" and y.a[0] == T("builtin", ("len",)) and y.a[1] and y.a[1][0].op == "call"
                                and y.a[1][0].a[0] == T("attr", (reader, "read")) for y in sym.walk(x)):
                            short_read_exit = True
            run.ob("R1", mod.name, qn, f"{lr.kind} loop at line {lr.lineno}: seeking back keeps making progress", short_read_exit,
                   "" if short_read_exit else
                   f"the loop at line {lr.lineno} seeks backwards ({sym.pretty(back[0].args[0])[:40]}) after reading but never tests for a "
                   f"short read: at the end of the stream it re-reads the same tail forever (the empty-read exit is unreachable)",
                   facts={"seeks": [sym.pretty(c.args[0])[:40] for c in back]}, line=back[0].lineno,
                   witness="any dump that ends while this loop is scanning")
        # linear reading: constant positive sizes
        for rc in inside_reads:
            sz = rc.args[0] if rc.args else None
            okz = sz is not None and sz.op == "const" and isinstance(sz.a[0], int) and sz.a[0] > 0
            run.ob("R1", mod.name, qn, f"read at line {rc.lineno} consumes a constant positive size", okz,
                   f"read({sym.pretty(sz) if sz is not None else ''}) inside a loop: not a constant positive size",
                   facts={"size": sz.a[0] if okz else None}, nontrivial=False, line=rc.lineno)
    eof_raising[fn.name] = raises_at_eof
    return n


def strict_decoder(repo: Repo, run: Run, interp, ks: int) -> None:
    """R2 (premise of the record loops): the loops hand whatever read(64) returned to from_kd_buf and rely on it to reject a
    record that is cut short.  from_kd_buf does so when it unpacks the WHOLE buffer with a format of exactly that size
    (struct.unpack is strict about the length) or raises under `len(buffer) != size`.  A decoder built from operations that
    never fail on a short buffer (slices, int.from_bytes) turns a partial record into an event."""
    import struct as _struct
    kmod = repo.module("kevent")
    fn = repo.function("kevent", "from_kd_buf")
    inp = param(fn.args.args[0].arg)
    rec = interp.run(kmod, fn, {fn.args.args[0].arg: inp})
    strict = None
    for c in rec.calls:
        nm = c.func.a[0] if c.func.op == "global" else ""
        if nm in ("struct.unpack",) and len(c.args) == 2 and c.args[1] == inp and c.args[0].op == "const" and not c.pc:
            try:
                if _struct.calcsize(c.args[0].a[0]) == ks:
                    strict = f"struct.unpack({c.args[0].a[0]!r}, <the whole buffer>)"
            except (_struct.error, TypeError):
                pass
        if nm == "struct.unpack_from" and 2 <= len(c.args) <= 3 and c.args[1] == inp and c.args[0].op == "const" and not c.pc \
                and (len(c.args) == 2 or c.args[2].op == "const"):
            try:        # a read that reaches the last byte of the record fails on every shorter buffer (reads never give more)
                if (c.args[2].a[0] if len(c.args) == 3 else 0) + _struct.calcsize(c.args[0].a[0]) == ks:
                    strict = f"struct.unpack_from reaching byte {ks} of the buffer"
            except (_struct.error, TypeError):
                pass
    ln = T("call", (T("builtin", ("len",)), (inp,), ()))
    for r in rec.returns:
        if r.kind == "raise":
            for cnd, pol in r.pc:
                atom, apol = render.norm_bool(cnd)
                eff = pol if apol else not pol
                if atom.op == "cmp" and atom.a[0] == "==" and {atom.a[1], atom.a[2]} == {ln, const(ks)} and not eff and len(r.pc) == 1:
                    strict = f"raise when len(buffer) != {ks}"
    if strict is None:
        # (struct.unpack of a PART of the buffer rejects some short records, not all: it does not establish the premise)
        harmless = ("int.from_bytes", "bytes", "tuple", "list", "dict", "int", "len", "zip", "range", "enumerate", "struct.unpack",
                    "struct.unpack_from", "struct.calcsize")
        unknown_ops = []
        for c in rec.calls:
            nm = c.func.a[0] if c.func.op in ("global", "builtin") else sym.pretty(c.func)
            if c.func.op == "attr" and c.func.a[1] in ("from_bytes", "values", "items", "keys", "get"):
                continue
            inlined = c.func.op == "func" and c.result is not None and not (c.result.op == "call" and c.result.a[0] == c.func)
            is_nt = c.func.op == "global" and c.func.a[0].startswith("pykdebugparser.") and interp.namedtuple_fields(c.func.a[0]) is not None
            if nm in harmless or inlined or is_nt:
                continue
            unknown_ops.append(nm)
        if unknown_ops or any(r.kind == "raise" for r in rec.returns):
            run.floor_failures.append(f"C06/R2: whether from_kd_buf rejects a record that is cut short is not established (it uses "
                                      f"{sorted(set(unknown_ops))[:3]}): the record loops rely on that")
            return
    run.ob("R2", kmod.name, "from_kd_buf", "rejects a buffer that is not a whole record", strict is not None,
           "" if strict is not None else
           "from_kd_buf is built from operations that never fail on a short buffer (slices, int.from_bytes): the record loops hand it "
           "whatever read() returned, so a record cut short by the end of the dump is decoded into an event with the missing bytes "
           "read as zero - the truncated dump reports an event the complete dump does not",
           facts={"established_by": strict}, line=fn.lineno,
           witness="a version-2 dump cut in the middle of its last record")


def check(repo: Repo, run: Run) -> None:
    take_over(run, "c13", "C13", repo, lambda o: o["rule"] == "R5" and o["scope"] == "traces" and o["construct"] in ("source", "event source"),
              "R0", "a trace decoder of its own per request", "traces() decodes each dump with a TracesParser built for that call: a "
              "decoder kept between calls still holds the windows a cut dump left open, and reports them closed by the next dump's "
              "records - traces no parse of that dump alone contains", 2)
    take_over(run, "c13", "C13", repo, lambda o: o["rule"] == "R6", "R0", "objects of its own per parse",
              "state kept in an object every parser shares outlives the parse that wrote it: a cut dump parsed after the complete one "
              "reports what only the complete one contained", 1)
    take_over(run, "c15", "C15", repo, lambda o: o["rule"] == "R4" and "one pass over the sampled frames" in o["construct"], "R0",
              "a reported callstack is complete when it is reported", "frames that are resolved later, against image tables that keep "
              "growing as the rest of the dump is read, make a reported callstack depend on how far the dump was read", 1)
    take_over(run, "c14", "C14", repo, lambda o: o["rule"] == "R2" and o["scope"] == "PyKdebugParser.__init__", "R0",
              "tables of its own per parser", "tables that every parser object shares keep what an earlier parse learnt: a cut dump "
              "parsed after the complete one reports what only the complete one contained", 1)
    take_over(run, "c02", "C02", repo, lambda o: o["rule"] == "R1", "R0", "record framing of a version-2 dump",
              "a dump cut anywhere must report the records that are whole: framing that depends on anything but the bytes read so "
              "far (the size of the file, a seek) reports other records for the cut dump than for the complete one", 8)
    interp = sym.Interp(repo)
    mod = repo.module("kd_buf_parser")
    ks = consteval.evaluate(repo, mod, mod.constants.get("KEVENT_SIZE"))
    if not isinstance(ks, int):
        raise AnalysisError("kd_buf_parser.KEVENT_SIZE is missing or not a constant this analysis can evaluate")
    n_loops = 0
    eof_raising: dict = {}
    # module-level helpers first (seek_until), then the parser's methods
    import ast as _ast
    kb = repo.cls("kd_buf_parser", "KdBufParser")
    used_by_parser = {n.id for m in kb.methods.values() for n in _ast.walk(m) if isinstance(n, _ast.Name)}
    for fn in mod.functions.values():
        if fn.args.args:
            if fn.name in used_by_parser and any(isinstance(x, _ast.Yield) for x in _ast.walk(fn)):
                # a generator helper of the parse methods (`for raw in _read_records(reader, n): yield decode(raw)`): its loops
                # are judged where they run, together with what the consumer does with each raw record
                continue
            n_loops += analyse_loops(repo, run, interp, mod, fn, None, param(fn.args.args[0].arg), eof_raising)
    for name, fn in kb.methods.items():
        if len(fn.args.args) >= 2 and name.startswith("parse"):
            n_loops += analyse_loops(repo, run, interp, mod, fn, kb, param(fn.args.args[1].arg), eof_raising)
    run.floor("R1", "stream-reading loops", n_loops, 4)
    strict_decoder(repo, run, interp, ks)

    # ------------------------------------------------------------------ R2
    n_calls = 0
    seen_sites = set()
    from .. import streams as _st
    # the public parse methods first: a decode call inside a helper they drive (a generator over raw records, a map) is seen
    # there with its argument resolved; a helper looked at on its own only shows "an element of my parameter"
    units = [(kb, m) for n_, m in kb.methods.items() if n_.startswith("parse")] + \
        [(kb, m) for n_, m in kb.methods.items() if not n_.startswith("parse")] + [(None, f) for f in mod.functions.values()]
    for cls_, fn in units:
        rec = interp.run(mod, fn, self_cls=cls_)
        own_params = {param(a_.arg) for a_ in fn.args.args}
        # one call site may be recorded more than once (a generator helper seen as the comprehension it equals and again as
        # the loop it drives): the occurrence whose argument is resolved furthest is the one judged
        def _resolved(c_):
            return not any(x.op == "elem" and x.a[0].op == "call" and x.a[0].a[0].op == "func" for a_ in c_.args for x in sym.walk(a_))
        ordered = sorted(rec.calls, key=lambda c_: (0 if _resolved(c_) else 1, c_.seq))
        for c in ordered:
            if c.func.op == "func" and c.func.a[0].endswith("kevent.from_kd_buf") and (c.lineno, c.col) not in seen_sites:
                arg = c.args[0] if len(c.args) == 1 else None
                if arg is not None and not fn.name.startswith("parse") and any(
                        x.op == "elem" and sym.root_of(x.a[0]) in own_params for x in sym.walk(arg)):
                    continue        # an element of the helper's own parameter: judged where the helper is driven from
                seen_sites.add((c.lineno, c.col))
                n_calls += 1
                rd = None
                if arg is not None:
                    for x in sym.walk(arg):
                        if x.op == "param":
                            r_ = _st.is_any_read(arg, x)
                            if r_ is not None:
                                rd = r_
                if arg is not None:
                    arg = sym.resolve_widens(rec, arg)
                    rd = None
                    for x in sym.walk(arg):
                        if x.op == "param":
                            r_ = _st.is_any_read(arg, x)
                            if r_ is not None:
                                rd = r_
                ok = rd is not None and rd.a[1] == (const(ks),)
                if not ok and arg is not None and any(
                        x.op == "call" and ((x.a[0].op == "global" and x.a[0].a[0].split(".")[0] in ("itertools", "functools"))
                                            or x.a[0] in (T("builtin", ("map",)), T("builtin", ("iter",)))) for x in sym.walk(arg)) \
                        and any(x.op == "attr" and x.a[1] == "read" for x in sym.walk(arg)):
                    # the record comes out of library iterators wrapped around the stream's read (takewhile(bool, map(read,
                    # repeat(64))), iter(partial(read, 64), b'')): whether it is the unmodified read is theirs to say
                    run.floor_failures.append(f"C06/R2: from_kd_buf is given {sym.pretty(arg)[:70]} (line {c.lineno}): whether that is the "
                                              f"raw result of one read({ks}) is not decided")
                    continue
                run.ob("R2", mod.name, c.where.replace(mod.name + ".", ""), f"from_kd_buf argument at line {c.lineno}", ok,
                       "" if ok else f"from_kd_buf is given {sym.pretty(arg)[:80] if arg is not None else 'nothing'} instead of the "
                                     f"raw result of read({ks}): a partial record is padded/altered into an event",
                       facts={"argument": sym.pretty(arg)[:100] if arg is not None else None}, line=c.lineno)
    for name in ("parse_v2", "parse_v3"):
        fn = repo.method("kd_buf_parser", "KdBufParser", name)
        rec = interp.run(mod, fn, self_cls=kb)
        reader = param(fn.args.args[1].arg)
        raw = T("call", (T("attr", (reader, "read")), (const(ks),), ()))
        if not rec.is_generator:
            run.ob("R3", mod.name, f"KdBufParser.{name}", "generator function", False,
                   f"{name} is no longer a generator function: events are produced only after the whole dump was read",
                   line=fn.lineno)
        else:
            run.ob("R3", mod.name, f"KdBufParser.{name}", "generator function", True, nontrivial=False)
        # events are yielded as they are read: the yield of from_kd_buf(...) sits in the same loop as its read
        mats = [c for c in rec.calls if c.func.op == "builtin" and c.func.a[0] in pipeline.MATERIALISERS
                and any(sym.contains(a, raw) for a in c.args)
                and c.where.startswith(mod.name + ".")]         # not what the record decoder does with the bytes of ONE record
        run.ob("R3", mod.name, f"KdBufParser.{name}", "records are not collected before being yielded", not mats,
               f"{name} materialises records with {[c.func.a[0] for c in mats]}", nontrivial=False)
    run.floor("R2", "from_kd_buf call sites", n_calls, 2)

    # ------------------------------------------------------------------ R3 facade laziness
    pk = repo.cls("pykdebugparser", "PyKdebugParser")
    for name in ("kevents", "formatted_kevents", "traces", "formatted_traces", "callstacks", "formatted_callstacks",
                 "os_log_events", "formatted_logs"):
        fn = repo.method("pykdebugparser", "PyKdebugParser", name)
        rec = interp.run(pk.module, fn, self_cls=pk)
        if rec.is_generator:
            # a generator function is lazy as well, provided it does not materialise
            ret_ok = True
            stages = []
        else:
            src, stages = pipeline.parse(rec.return_term())
            ret_ok = True
        bad = [s for s in stages if s.kind not in ("filter", "map", "genexp")]
        mats = [c for c in rec.calls if c.func.op == "builtin" and c.func.a[0] in pipeline.MATERIALISERS and c.args
                and _is_stream(c.args[0])]
        ok = not bad and not mats
        run.ob("R3", pk.module.name, f"PyKdebugParser.{name}", "lazy pipeline", ok,
               "" if ok else f"{name} applies {[s.kind for s in bad] + [c.func.a[0] for c in mats]} to the stream: output k no "
                             f"longer depends only on the input up to its trigger (a truncated dump loses already-complete results)",
               facts={"stages": [s.kind for s in stages]}, line=fn.lineno)
    for modname, cname in (("traces_parser", "TracesParser"), ("callstacks_parser", "CallstacksParser")):
        ci = repo.cls(modname, cname)
        fn = repo.method(modname, cname, "feed_generator")
        rec = interp.run(ci.module, fn, self_cls=ci)
        gen = param(fn.args.args[1].arg)
        ylds = [r for r in rec.returns if r.kind in ("yield", "yield_from")]
        # the pass may live in a private generator that feed_generator delegates to (expanded in place)
        loops = [lr for lr in rec.loops.values() if lr.kind == "for" and lr.parent is None and
                 (lr.func.endswith("feed_generator") or any(lr.id in y.loops for y in ylds))]
        mats = [c for c in rec.calls if c.func.op == "builtin" and c.func.a[0] in pipeline.MATERIALISERS and gen in c.args]
        ok = rec.is_generator and len(loops) == 1 and loops[0].iter == gen and not mats
        run.ob("R3", ci.module.name, f"{cname}.feed_generator", "generator over its input, one pass", ok,
               f"{cname}.feed_generator is not a generator function making a single lazy pass over its input", line=fn.lineno)
    # print_with_count
    main = repo.module("__main__")
    fn = repo.function("__main__", "print_with_count")
    rec = interp.run(main, fn)
    gen, cnt = param(fn.args.args[0].arg), param(fn.args.args[1].arg)
    ENUM = T("builtin", ("enumerate",))

    TAKEWHILE = T("global", ("itertools.takewhile",))

    def _counted_takewhile(it):
        """takewhile(lambda pair: pair[0] != count, enumerate(generator)): the same pass, stopped when the index reaches
        the count - before that element is printed"""
        if it is not None and it.op == "call" and it.a[0] == TAKEWHILE and len(it.a[1]) == 2:
            pred, src = it.a[1]
            if src.op == "call" and src.a[0] == ENUM and src.a[1] and src.a[1][0] == gen and len(src.a[1]) == 1 \
                    and pred.op == "lambda" and len(pred.a) > 1:
                atom, pol = render.norm_bool(pred.a[1])
                if atom.op == "cmp" and atom.a[0] == "==" and not pol and cnt in (atom.a[1], atom.a[2]):
                    other = atom.a[1] if atom.a[2] == cnt else atom.a[2]
                    return other.op == "sub" and other.a[0].op == "bound" and other.a[1] == const(0)
        return False

    def over_gen(it):
        """the loop iterates the generator itself or enumerate(generator[, start]): returns how to get the element"""
        if it == gen:
            return lambda tgt: tgt
        if it is not None and it.op == "call" and it.a[0] == ENUM and it.a[1] and it.a[1][0] == gen:
            return lambda tgt: T("sub", (tgt, const(1)))
        if _counted_takewhile(it):
            return lambda tgt: T("sub", (tgt, const(1)))
        return None
    loops = [lr for lr in rec.loops.values() if lr.kind == "for" and over_gen(lr.iter) is not None]
    prints = [c for c in rec.calls if c.func == T("builtin", ("print",))]
    ok = len(loops) == 1 and len(prints) == 1 and prints[0].args == (over_gen(loops[0].iter)(loops[0].target),) \
        and loops[0].id in prints[0].loops
    brk = [e for lr in loops for e in lr.exits if e[0] in ("break", "return")]
    stops = bool(brk) and all(any(sym.contains(c, cnt) for c, _ in e[1]) for e in brk) and (not brk or brk[0][2] < prints[0].seq)
    if not brk and len(loops) == 1 and _counted_takewhile(loops[0].iter):
        stops = True
    mats = [c for c in rec.calls if c.func.op == "builtin" and c.func.a[0] in pipeline.MATERIALISERS and gen in c.args]
    if not loops and not prints and any(sym.pretty(c.func).endswith((".writelines", ".write")) for c in rec.calls) \
            and not mats:
        # the lines are handed to the stream by writelines() over a lazy pipeline (takewhile / islice / map): the same job done
        # by library iterators, which these rules do not follow
        run.floor_failures.append("C06/R3: print_with_count writes its lines through stream.writelines(<lazy pipeline>): whether each "
                                  "element is printed as it arrives and the count stops the reading is not decided")
        return
    run.ob("R3", main.name, "print_with_count", "prints each element as it arrives", ok and not mats,
           "print_with_count does not print each element of the generator inside a single loop over it", line=fn.lineno)
    run.ob("R3", main.name, "print_with_count", "stops consuming when the count is reached (test before print)", stops,
           "print_with_count does not break on the count before printing: limiting the count changes which lines are printed "
           "or consumes more input than needed", line=fn.lineno)
    check_reported_objects(repo, run)


def check_reported_objects(repo: Repo, run: Run) -> None:
    """R6: what was reported is not changed later.  A decoder may build and fill the object it returns, and it may put
    objects into the parser's tables; it may not store into an object it FETCHED from one of those tables - such an
    object was returned (and reported) by an earlier invocation, so a later record would rewrite a trace that a truncated
    dump had already reported differently."""
    from .. import decoders
    # the record list handed to a decoder (and kept in the reported trace) is the window the END action POPPED: nothing the
    # parser still holds refers to it (C04 K2 - only fresh lists are windows, K4 - the window is removed when it is reported)
    from .c09 import window_obligations
    window_obligations(repo, run, ("K2", "K4"),
                       "the record list of a reported trace can then still be appended to by later records: a trace reported from "
                       "a truncated dump differs from the one reported from the whole dump")
    D = decoders.Decoders(repo)
    n = 0
    for e in D.entries():
        d = D.decode(e)
        n += 1
        bad = []
        for ef in d.rec.effects:
            if ef.kind not in ("attr-store", "mut-call", "sub-store", "del-sub", "del-attr"):
                continue
            obj = ef.path if ef.path is not None else ef.base
            if obj is None:
                continue
            # peel what is stored INTO (attribute / item chains) down to the object that is being changed
            cur = obj
            while cur.op == "mut":
                cur = cur.a[0]
            fetched = None
            probe = cur
            while probe is not None and probe.op in ("attr", "sub", "call"):
                if probe.op == "call" and probe.a[0].op == "attr" and probe.a[0].a[1] in ("get", "pop", "setdefault") \
                        and _is_parser_table(probe.a[0].a[0]):
                    fetched = probe
                    break
                if probe.op == "sub" and _is_parser_table(probe.a[0]) and probe is not cur:
                    fetched = probe
                    break
                probe = probe.a[0] if probe.op != "call" else None
            if fetched is not None and ef.kind == "attr-store":
                bad.append((ef, fetched))
        run.ob("R6", e.module.name, e.func_name, f"{e.key}: changes only the object it builds", not bad,
               "" if not bad else
               f"the decoder stores `.{bad[0][0].key}` into {sym.pretty(bad[0][1])[:70]} - an object an earlier record's decoder "
               f"returned and that has already been reported: a dump cut between the two records shows that trace differently "
               f"from the complete dump", nontrivial=bool(bad), line=bad[0][0].lineno if bad else e.func.lineno,
               witness="a dump cut after the first of the two records")
    run.floor("R6", "decoders scanned", n, 400)


def _is_parser_table(t: T) -> bool:
    from ..decoders import PARSER
    return t.op == "attr" and t.a[0] == PARSER


def _is_stream(t: T) -> bool:
    """A term that denotes the event/trace stream (a pipeline over a parse / feed_generator call)."""
    for x in sym.walk(t):
        if x.op == "call" and x.a[0].op == "attr" and x.a[0].a[1] in ("parse", "feed_generator"):
            return True
    return False
