"""C07 - missing or unexpected context never aborts the trace stream."""
from __future__ import annotations

import ast
from typing import Dict, List, Optional, Set, Tuple

from .. import render, decoders, guards, registry, sym
from ..model import AnalysisError, Repo
from ..report import Run
from ..sym import T, const, param, POp

EXPLANATION = (
    "Every partial operation on 'context that may be missing' in the trace pipeline is enumerated from the symbolic "
    "interpretation of TracesParser's methods, CallstacksParser's methods, every registered decoder (run with the "
    "dispatcher's arguments) and the __str__ of the object each decoder returns (run on that object, so field values and "
    "their conditions are known). Tracked: (a) lookups table[key] in the parser's context tables and pairing windows - "
    "discharged only by a membership test of the same key on the path, iteration over the same table, .get, or a matching "
    "try/except (truthiness of the key is not membership); (b) constant indexes into lists that may be short - results of "
    "the nested-lookup parser, filtered comprehensions - discharged by a length fact on the path; (c) dereferences of values "
    "that may be None - parser slots initialised to None, results of functions with a None-returning path, fields whose "
    "symbolic value has a None alternative - discharged by `is not None`/truthiness on the path or by the field's own "
    "condition. Always safe by construction and not tracked: events[0], events[-1], trace.ktraces[0] (windows are never "
    "empty, C04), values[0..3]. Out of the property's premise: Enum(x) for undeclared x, .decode() of invalid text."
)

PARSER = param("parser")
EVENTS = param("events")
SELF = param("self")


class Ctx:
    def __init__(self, repo: Repo):
        self.repo = repo
        self.interp = sym.Interp(repo)
        tp = repo.cls("traces_parser", "TracesParser")
        init = repo.method("traces_parser", "TracesParser", "__init__")
        rec = self.interp.run(tp.module, init, self_cls=tp)
        self.tables: Set[str] = set()
        self.optional_slots: Set[str] = set()
        self.action_methods: Set[str] = set()
        for e in rec.effects:
            if e.kind != "attr-store" or (e.path or e.base) != SELF:
                continue
            v = e.value
            if v.op == "dict":
                self.tables.add(e.key)
                if e.key == "qualifiers_actions":
                    for _, fn in v.a[0]:
                        if fn.op == "attr" and fn.a[0] == SELF:
                            self.action_methods.add(fn.a[1])
            elif v.op == "param":
                self.tables.add(e.key)
            elif v.op == "call" and v.a[0].op == "builtin" and v.a[0].a[0] in ("dict", "list", "set") and len(v.a[1]) <= 1 \
                    and not v.a[2] and all(x.op in ("param", "dict", "list", "tuple", "const") for x in v.a[1]):
                self.tables.add(e.key)      # dict(given_table), dict(): a table all the same
            elif v == const(None):
                self.optional_slots.add(e.key)
        if not self.tables:
            raise AnalysisError("anchor vanished: TracesParser.__init__ initialises no tables")
        # functions with a None-returning path
        self.maybe_none_methods: Set[str] = set()
        for name, fn in tp.methods.items():
            r = self.interp.run(tp.module, fn, self_cls=tp)
            rets = [x for x in r.returns if x.kind == "return"]
            if not r.is_generator and (any(x.value == const(None) for x in rets) or not rets) and name != "__init__":
                if any(x.value != const(None) for x in rets):
                    self.maybe_none_methods.add(name)


def root_and_chain(t: T):
    chain = []
    while t.op in ("attr", "sub"):
        chain.append(t)
        t = t.a[0]
    return t, chain


def is_table_path(ctx: Ctx, t: Optional[T], state_params: Set[str]) -> Optional[str]:
    """Name of the context table a path lives in (the path may go through nested subscripts), or None."""
    if t is None:
        return None
    cur = t
    while True:
        if cur.op == "attr" and cur.a[0] in (PARSER, SELF) and cur.a[1] in ctx.tables:
            return cur.a[1]
        if cur.op == "param" and cur.a[0] in state_params:
            return cur.a[0]
        if cur.op == "sub":
            cur = cur.a[0]
            continue
        if cur.op == "call" and cur.a[0].op == "attr" and cur.a[0].a[1] in ("get", "setdefault"):
            cur = cur.a[0].a[0]          # the inner table obtained with .get / .setdefault
            continue
        if cur.op == "mut":
            cur = cur.a[0]
            continue
        if cur.op == "ite":
            return is_table_path(ctx, cur.a[1], state_params) or is_table_path(ctx, cur.a[2], state_params)
        return None


def may_be_short_list(t: T) -> Optional[str]:
    if t.op == "call" and t.a[0].op == "attr" and t.a[0].a[1] in ("parse_vnodes", "vnode_generator"):
        return "result of the nested-lookup parser (empty when the syscall failed before any lookup)"
    if t.op == "comp" and t.a[0] == "list":
        return "filtered list comprehension"
    if t.op == "call" and t.a[0].op == "builtin" and t.a[0].a[0] in ("list", "sorted", "tuple"):
        return "materialised sequence"
    if t.op == "slice":
        return "slice"
    if t.op in ("widen", "mut"):
        return "list built in a loop"
    if t.op == "call" and t.a[0].op == "attr" and t.a[0].a[1] in ("get", "pop", "setdefault") and len(t.a[1]) == 2 \
            and ((t.a[1][1].op in ("list", "tuple") and not t.a[1][1].a[0]) or t.a[1][1] in (const(""), const(b""), const(()))):
        return f".{t.a[0].a[1]}(key, <empty>) - empty when the key is absent"
    if t.op == "ite":
        return may_be_short_list(t.a[1]) or may_be_short_list(t.a[2])
    return None


SAFE_ATTRS_OF_RECORD = {"values", "data", "tid", "timestamp", "eventid", "debugid", "func_qualifier"}


def classify_pop(ctx: Ctx, p: POp, state_params: Set[str]):
    """Return (class, description) for a tracked partial operation, or None when it is not tracked."""
    if p.kind == "emptypop":
        if is_table_path(ctx, p.path, state_params) or is_table_path(ctx, p.base, state_params):
            return ("index", "list kept in a context table (may be empty)")
        return None
    if p.kind == "unpack" and isinstance(p.key, int):
        # `a, b = xs`: needs exactly len(xs) == 2; tracked when the length of xs can be worked out from how it is built
        base_ = p.base
        if base_.op == "call" and base_.a[0].op == "attr" and base_.a[0].a[0] in (PARSER, SELF) and not base_.a[2]:
            # the result of a method of the parser: its return term, with the constant arguments put in
            tp_ = ctx.repo.cls("traces_parser", "TracesParser")
            m_ = tp_.methods.get(base_.a[0].a[1])
            if m_ is not None and len(m_.args.args) == len(base_.a[1]) + 1:
                mrec = ctx.interp.run(tp_.module, m_, self_cls=tp_)
                rets_ = [r for r in mrec.returns if r.kind == "return"]
                if not mrec.notes and len(rets_) == 1 and not mrec.is_generator:
                    mapping = {param(a_.arg): v_ for a_, v_ in zip(m_.args.args[1:], base_.a[1]) if v_.op == "const"}
                    base_ = sym.subst(rets_[0].value, mapping)
        b = _len_bounds(base_, p.pc)
        if p.base == EVENTS and (b is None or b[1] is None or b[1] > p.key):
            # the window a decoder is handed holds one record or any number of them (START ... END, or every nested record a
            # composite selected): unpacking it into a fixed number of names raises for the others
            return ("unpack", f"the decoder's window, which holds any number of records (not always {p.key})")
        if b is not None and b[0] >= p.key and (b[1] is None or b[1] > p.key) and b[0] != INF and \
                any(may_be_short_list(x) for x in sym.walk(base_)):
            return ("unpack", f"a sequence of {b[0]} or more items (built from {may_be_short_list(_short_source(base_)) or 'a list of any length'}, "
                              f"padded but never cut)")
        if b is not None and b != (p.key, p.key) and b[0] < p.key:
            return ("unpack", f"a sequence of {b[0]}..{b[1] if b[1] is not None else 'any number of'} items (built from "
                              f"{may_be_short_list(_short_source(p.base)) or 'a list that may be short'})")
        return None
    if p.kind == "sub":
        base, key = p.base, p.key
        pth = p.path
        # (b) constant index into a list
        if key.op == "const" and isinstance(key.a[0], int) and not isinstance(key.a[0], bool):
            if base == EVENTS or (base.op == "attr" and base.a[1] in ("ktraces", "values", "data")):
                return None
            if base.op == "tuple" or base.op == "list":
                return None
            why = may_be_short_list(base)
            if why:
                return ("index", why)
            return None
        # (b') an index that is a parameter of the function (parse_vnode(events, index)): the caller decides how long the
        # list has to be, so the access needs `index < len(list)` (or a try) on its own path
        if key.op == "param" and may_be_short_list(base):
            return ("index-param", f"{may_be_short_list(base)}, indexed by the parameter `{key.a[0]}`")
        # (a) table lookups
        tname = is_table_path(ctx, pth, state_params) or is_table_path(ctx, base, state_params)
        if tname:
            if tname == "qualifiers_actions":
                return None          # constant table over the four qualifiers (C04/K7)
            return ("lookup", f"context table {tname}")
        return None
    if p.kind == "attr":
        base = p.base
        if base.op == "attr" and base.a[0] in (PARSER, SELF) and base.a[1] in ctx.optional_slots:
            return ("optional", f"parser slot {base.a[1]} (None until the matching record was seen)")
        if base.op == "call" and base.a[0].op == "attr" and base.a[0].a[0] in (PARSER, SELF) \
                and base.a[0].a[1] in ctx.maybe_none_methods:
            return ("optional", f"result of {base.a[0].a[1]}() (None when the record's kind has no decoder)")
        if base.op in ("ite", "widen") and guards.possible_none(base, ()):
            return ("optional", "value with a None alternative")
        if base.op == "call" and base.a[0].op == "attr" and base.a[0].a[1] == "get" and len(base.a[1]) == 1:
            return ("optional", ".get() without default")
    return None


INF = 10 ** 9


def _short_source(t: T) -> T:
    for x in sym.walk(t):
        if may_be_short_list(x) and x.op == "call":
            return x
    return t


def _len_bounds(t: T, pc=()):
    """(least, greatest or None) number of items of a sequence term, None when the way it is built is not followed; lengths
    established on the path (`if len(xs) >= 6:`) raise the least."""
    b = _len_bounds0(t, pc)
    known = guards.min_len(pc, t) if pc else 0
    if b is None:
        return (known, None) if known else None
    return (max(b[0], known), b[1])


def _len_bounds0(t: T, pc=()):
    def _len_bounds(x):        # (the recursive calls below go through the path-aware wrapper)
        return globals()["_len_bounds"](x, pc)

    def ci(x):
        return x.a[0] if x.op == "const" and isinstance(x.a[0], int) and not isinstance(x.a[0], bool) else None
    if t.op in ("tuple", "list"):
        if any(i.op == "star" for i in t.a[0]):
            return None
        return (len(t.a[0]), len(t.a[0]))
    if t.op == "const" and isinstance(t.a[0], (tuple, str, bytes)):
        return (len(t.a[0]), len(t.a[0]))
    if t.op == "call" and t.a[0].op == "attr" and t.a[0].a[1] in ("parse_vnodes", "vnode_generator"):
        return (0, None)
    if t.op == "call" and t.a[0].op == "builtin" and t.a[0].a[0] in ("list", "tuple", "sorted", "reversed") and len(t.a[1]) == 1:
        return _len_bounds(t.a[1][0])
    if t.op == "comp" and t.a[0] in ("list", "gen") and len(t.a[2]) == 1:
        b = _len_bounds(t.a[2][0][1])
        if b is None:
            return None
        return b if not t.a[2][0][2] else (0, b[1])
    if t.op == "bin" and t.a[0] == "+" and t.a[2].op == "bin" and t.a[2].a[0] == "*":
        # xs + [pad] * (K - len(xs)): padded up to K items, never cut down
        for lst_, n_ in ((t.a[2].a[1], t.a[2].a[2]), (t.a[2].a[2], t.a[2].a[1])):
            if lst_.op in ("list", "tuple") and len(lst_.a[0]) == 1 and n_.op == "bin" and n_.a[0] == "-" and ci(n_.a[1]) is not None \
                    and n_.a[2] == T("call", (T("builtin", ("len",)), (t.a[1],), ())):
                b_ = _len_bounds(t.a[1])
                if b_ is not None:
                    k_ = ci(n_.a[1])
                    return (max(b_[0], k_), None if b_[1] is None else max(b_[1], k_))
    if t.op == "bin" and t.a[0] == "+":
        l, r = _len_bounds(t.a[1]), _len_bounds(t.a[2])
        if l is None or r is None:
            return None
        return (l[0] + r[0], None if l[1] is None or r[1] is None else l[1] + r[1])
    if t.op == "slice" and len(t.a) == 3:
        b = _len_bounds(t.a[0])
        lo = 0 if t.a[1] == sym.NONE else ci(t.a[1])
        hi = None if t.a[2] == sym.NONE else ci(t.a[2])
        if b is None or lo is None or lo < 0 or (t.a[2] != sym.NONE and (hi is None or hi < 0)):
            return None
        least = max(0, (b[0] if hi is None else min(b[0], hi)) - lo)
        most = None if b[1] is None and hi is None else max(0, (hi if b[1] is None else b[1] if hi is None else min(b[1], hi)) - lo)
        return (least, most)
    if t.op == "call" and t.a[0] == T("global", ("itertools.repeat",)):
        if len(t.a[1]) == 1:
            return (INF, None)
        n = ci(t.a[1][1]) if len(t.a[1]) == 2 else None
        return None if n is None else (n, n)
    if t.op == "call" and t.a[0] == T("global", ("itertools.chain",)):
        bs = [_len_bounds(x) for x in t.a[1]]
        if any(b is None for b in bs):
            return None
        return (sum(b[0] for b in bs), None if any(b[1] is None for b in bs) else sum(b[1] for b in bs))
    if t.op == "call" and t.a[0] == T("global", ("itertools.islice",)) and len(t.a[1]) == 2 and ci(t.a[1][1]) is not None:
        b, n = _len_bounds(t.a[1][0]), ci(t.a[1][1])
        if b is None:
            return None
        return (min(b[0], n), n if b[1] is None else min(b[1], n))
    if t.op == "ite":
        l = globals()["_len_bounds"](t.a[1], tuple(pc) + ((t.a[0], True),))
        r = globals()["_len_bounds"](t.a[2], tuple(pc) + ((t.a[0], False),))
        if l is None or r is None:
            return None
        return (min(l[0], r[0]), None if l[1] is None or r[1] is None else max(l[1], r[1]))
    return None


def judge(ctx: Ctx, p: POp, cls: str, rec: sym.Record) -> Optional[str]:
    if cls == "unpack":
        if guards.in_try(p, ("ValueError", "Exception", "BaseException")):
            return "enclosing try/except ValueError"
        return None
    if cls == "lookup":
        return guards.member_guarded(p, rec)
    if cls == "index":
        return guards.index_guarded(p)
    if cls == "index-param":
        if guards.in_try(p, guards.INDEX_EXC):
            return "enclosing try/except IndexError"
        ln = T("call", (T("builtin", ("len",)), (p.base,), ()))
        a = guards.assumptions(p.pc)
        for c in (T("cmp", ("<", p.key, ln)), T("cmp", (">", ln, p.key))):
            if render.assume_lookup(a, c) is True:
                return "index < len(list) established on the path"
        for c in (T("cmp", (">=", p.key, ln)), T("cmp", ("<=", ln, p.key))):
            if render.assume_lookup(a, c) is False:
                return "index < len(list) established on the path"
        return None
    if cls == "optional":
        if p.base.op in ("ite", "widen"):
            if not guards.possible_none(p.base, p.pc):
                return "the None alternative is excluded by the path condition"
        return guards.none_guarded(p, p.base)
    return None


def removal_pops(rec: sym.Record) -> List[POp]:
    """table.pop(key) without default / del table[key]: partial in the same way as table[key]."""
    out = []
    for e in rec.effects:
        if e.kind == "mut-call" and e.key == "pop" and len(e.args) == 1:
            out.append(POp("sub", e.base, e.args[0], e.pc, e.loops, e.trys, e.seq, e.func, e.lineno, e.col, e.path))
        elif e.kind == "del-sub":
            out.append(POp("sub", e.base, e.key, e.pc, e.loops, e.trys, e.seq, e.func, e.lineno, e.col, e.path))
        elif e.kind == "mut-call" and e.key == "pop" and len(e.args) == 0:
            # list.pop() on a list kept in a context table: IndexError when it is empty
            out.append(POp("emptypop", e.base, const(-1), e.pc, e.loops, e.trys, e.seq, e.func, e.lineno, e.col, e.path))
    return out


def _index_alternatives(p: POp):
    """`xs[3 if c else 0]`: one access per alternative of the index, each under its own condition."""
    if p.kind != "sub" or p.key.op != "ite":
        return [p]
    import dataclasses
    out = []

    def go(key, pc):
        if key.op == "ite" and len(out) < 8:
            go(key.a[1], pc + ((key.a[0], True),))
            go(key.a[2], pc + ((key.a[0], False),))
        else:
            out.append(dataclasses.replace(p, key=key, pc=pc))
    go(p.key, tuple(p.pc))
    return out


def analyse_record(ctx: Ctx, run: Run, rec: sym.Record, module: str, root: str, state_params: Set[str], seen: Dict) -> int:
    n = 0
    for p in [q for p0 in list(rec.pops) + removal_pops(rec) for q in _index_alternatives(p0)]:
        c = classify_pop(ctx, p, state_params)
        if c is None:
            continue
        cls, desc = c
        n += 1
        why = judge(ctx, p, cls, rec)
        fn = p.func.replace("pykdebugparser.", "")
        scope = fn.split(".", 1)[1] if fn.count(".") >= 1 and fn.split(".")[0] in ("traces_parser", "callstacks_parser") else fn
        scope = p.func.rsplit(".", 1)[-1] if not p.func.endswith("__str__") else ".".join(p.func.rsplit(".", 2)[-2:])
        expr = f"{sym.pretty(p.path if p.path is not None else p.base)[:70]}" + \
               (f"[{sym.pretty(p.key)[:40]}]" if p.kind == "sub" else (".pop()" if p.kind == "emptypop" else
                                                                        f" unpacked into {p.key} names" if p.kind == "unpack" else f".{p.key}"))
        construct = f"{cls}: {expr}"
        key = (module_of(p.func), scope, construct)
        prev = seen.get(key)
        ok = why is not None
        if prev is not None and (prev or not ok):
            # already recorded with the same or a worse verdict
            if prev is True and not ok:
                pass
            else:
                continue
        seen[key] = ok
        cond = " and ".join(sym.pretty(c_)[:60] if v else f"not {sym.pretty(c_)[:60]}" for c_, v in p.pc) or "always"
        what = ""
        if not ok:
            kind = {"lookup": "raises KeyError when the key was never announced",
                    "index": "raises IndexError when the list is shorter",
                    "index-param": "raises IndexError when the list has no element at that position",
                    "unpack": "raises ValueError (not enough / too many values to unpack) when it holds another number",
                    "optional": "raises AttributeError/TypeError when the value is None"}[cls]
            what = f"{expr} ({desc}) is evaluated when [{cond}] without a guard that covers it: {kind}"
        run.ob("R1", module_of(p.func), scope, construct, ok, what,
               facts={"class": cls, "source": desc, "path_condition": cond[:200], "discharged_by": why, "root": root},
               line=p.lineno)
    # next(iterator) without a default is partial too: on an exhausted iterator it raises StopIteration, which inside a
    # generator body becomes RuntimeError (PEP 479) and ends the whole trace stream
    for c in rec.calls:
        if c.func == T("builtin", ("next",)) and len(c.args) == 1 and not c.kwargs:
            src = c.args[0]
            while src.op == "call" and src.a[0] == T("builtin", ("iter",)) and len(src.a[1]) == 1:
                src = src.a[1][0]
            if src.op == "attr" and src.a[1] == "values":
                # an iterator over the four argument words of ONE record (fixed arity, like values[k]): how many words a
                # decoder may take is C09's business, missing context cannot make it shorter
                continue
            guarded = any(any(nm.split(".")[-1] in ("StopIteration", "Exception", "BaseException") for nm in names)
                          for names in c.trys)
            scope = c.where.rsplit(".", 1)[-1]
            key = (module_of(c.where), scope, f"next: line {c.lineno}")
            if key in seen:
                continue
            seen[key] = guarded
            n += 1
            run.ob("R1", module_of(c.where), scope, f"next({sym.pretty(c.args[0])[:40]}) without a default", guarded,
                   "" if guarded else
                   f"next({sym.pretty(c.args[0])[:40]}) is called without a default and outside try/except StopIteration: when the "
                   f"records run out (a lookup whose END record was dropped) it raises StopIteration - RuntimeError inside a "
                   f"generator - and the trace stream ends", facts={"class": "next"}, line=c.lineno)
    return n


def module_of(qual: str) -> str:
    parts = qual.split(".")
    # pykdebugparser.trace_handlers.bsd.handle_x  /  pykdebugparser.traces_parser.TracesParser.feed
    for i in range(len(parts), 0, -1):
        cand = ".".join(parts[:i])
        if cand.startswith("pykdebugparser") and (cand.count(".") >= 1):
            if parts[i - 1][:1].islower() and not parts[i - 1].startswith("handle_") and i < len(parts):
                return cand
    return ".".join(parts[:-1])


def check(repo: Repo, run: Run) -> None:
    ctx = Ctx(repo)
    run.analysed.update({"context_tables": sorted(ctx.tables), "optional_slots": sorted(ctx.optional_slots),
                         "maybe_none_methods": sorted(ctx.maybe_none_methods)})
    seen: Dict = {}
    total = 0
    # ---- parser methods
    tp = repo.cls("traces_parser", "TracesParser")
    # R7 the lookup that never happened has the shape of a lookup: the decoders of two-path calls test `record not in
    # first.ktraces` and read `.path` of what parse_vnode gives back when the window holds no lookup at all
    if "parse_vnode" in tp.methods:
        prec = ctx.interp.run(tp.module, tp.methods["parse_vnode"], self_cls=tp)
        n_fb = 0
        for r_ in prec.returns:
            v = r_.value
            fields_ = None
            if r_.kind != "return":
                continue
            if v.op == "new":
                f_ = repo.lookup(v.a[0]) if isinstance(v.a[0], str) else None
                if f_ and f_[0] == "class" and "__post_init__" in f_[2].methods:
                    run.floor_failures.append(f"C07/R7: the empty lookup is a {f_[2].name} whose fields are settled in __post_init__: its "
                                              f"shape is not decided")
                    n_fb += 1
                    continue
                fields_ = dict(v.a[1])
            elif v.op == "call" and v.a[0].op == "global" and v.a[0].a[0].endswith(".Vnode"):
                names_ = ctx.interp.namedtuple_fields(v.a[0].a[0]) or []
                fields_ = dict(zip(names_, v.a[1]))
                fields_.update(dict(v.a[2]))
            if fields_ is None:
                continue
            n_fb += 1
            kt, pth_ = fields_.get("ktraces"), fields_.get("path")
            bad = [nm for nm, val in (("ktraces", kt), ("path", pth_)) if val is not None and val == const(None)]
            run.ob("R7", tp.module.name, "TracesParser.parse_vnode", "the lookup that never happened is an empty lookup, not a hole", not bad,
                   "" if not bad else
                   f"parse_vnode gives back a lookup whose {bad[0]} is None when the window holds no lookup: the decoders of two-path calls "
                   f"(link, rename, mount ...) test `record not in first.ktraces` and raise TypeError, ending the whole stream",
                   line=r_.lineno, nontrivial=bool(bad), witness="a rename() that failed before any path lookup")
        run.floor("R7", "fallback results of parse_vnode", n_fb, 1)
    for name, fn in tp.methods.items():
        if name == "__init__":
            continue
        rec = ctx.interp.run(tp.module, fn, self_cls=tp)
        state_params = set()
        if name in ctx.action_methods and len(fn.args.args) >= 3:
            state_params.add(fn.args.args[2].arg)
        total += analyse_record(ctx, run, rec, tp.module.name, f"TracesParser.{name}", state_params, seen)
    cp = repo.cls("callstacks_parser", "CallstacksParser")
    for name, fn in cp.methods.items():
        rec = ctx.interp.run(cp.module, fn, self_cls=cp)
        total += analyse_record(ctx, run, rec, cp.module.name, f"CallstacksParser.{name}", set(), seen)
    # ---- decoders and their renderings
    D = decoders.Decoders(repo)
    D.interp = ctx.interp
    n_dec = 0
    for e in D.entries():
        d = D.decode(e)
        n_dec += 1
        if d.problems and d.segs is None:
            run.note(f"{e.key}: {d.problems[0]}")
        total += analyse_record(ctx, run, d.rec, e.module.name, e.func_name, set(), seen)
        if d.str_rec is not None:
            total += analyse_record(ctx, run, d.str_rec, e.module.name, f"{d.cls.name}.__str__", set(), seen)
    # ---- the line builders of the facade: every emitted trace is also rendered as a line, whose process column is looked
    # up in the shared thread / process tables - a thread or a pid the dump never named must give an empty or fallback
    # column, not a KeyError that ends the listing
    from .. import guards
    pk = repo.cls("pykdebugparser", "PyKdebugParser")
    SELF_ = sym.param("self")
    shared = {T("attr", (SELF_, "threads_pids")), T("attr", (SELF_, "pids_names"))}
    n_fac = 0
    for name, fn in pk.methods.items():
        if name == "__init__":
            continue
        rec = ctx.interp.run(pk.module, fn, self_cls=pk)
        for p in rec.pops:
            if p.kind != "sub" or not ({p.base, p.path} & shared) or not p.func.endswith("." + name):
                continue
            n_fac += 1
            why = guards.member_guarded(p, rec)
            tbl = sym.pretty(p.base if p.base in shared else p.path)
            run.ob("R6", pk.module.name, f"PyKdebugParser.{name}", f"lookup: {tbl}[{sym.pretty(p.key)[:50]}]", why is not None,
                   "" if why is not None else
                   f"{name} indexes {tbl} with {sym.pretty(p.key)[:60]} without a membership test or .get: a thread / process the "
                   f"dump never named raises KeyError and ends the formatted listing",
                   facts={"discharged_by": why}, line=p.lineno, nontrivial=False,
                   witness="a thread announced by TRACE_DATA_NEWTHREAD whose process is never named")
    run.analysed["facade_table_lookups"] = n_fac
    run.analysed.update({"decoders": n_dec, "tracked_partial_operations": total})
    run.floor("R1", "decoders analysed", n_dec, 440)
    run.floor("R1", "tracked partial operations", len(seen), 6)
    _canary(repo, run, ctx)


CANARY = '''
def handle_canary(parser, events):
    nodes = parser.parse_vnodes(events)
    first = nodes[0].path if nodes else ''
    return first + nodes[1].path + parser.global_strings[events[0].values[1]]
'''


def _canary(repo: Repo, run: Run, ctx: Ctx) -> None:
    from ..model import ModuleInfo
    tree = ast.parse(CANARY)
    mod = ModuleInfo("pykdebugparser.__canary07__", "<canary>", CANARY, tree)
    mod.functions["handle_canary"] = tree.body[0]
    rec = ctx.interp.run(mod, tree.body[0], {"parser": PARSER, "events": EVENTS})
    flagged = []
    for p in rec.pops:
        c = classify_pop(ctx, p, set())
        if c and judge(ctx, p, c[0], rec) is None:
            flagged.append((c[0], sym.pretty(p.key)))
    run.canary("R1", "unguarded nodes[1] and global_strings[id] flagged, guarded nodes[0] not",
               sorted(flagged) == [("index", "1"), ("lookup", "events[0].values[1]")])
