"""C08 - paths and strings split over several records are reassembled exactly, once."""
from __future__ import annotations

from typing import Dict, List, Optional, Tuple

from .. import normal, decoders, render, sym
from ..model import AnalysisError, Repo
from ..report import Run, take_over
from ..sym import T, const, param

EXPLANATION = (
    "Three structural clauses. R1 (header/offset agreement): in each reassembly routine (TracesParser.vnode_generator, "
    "handle_trace_string_global) the symbolic value of the reassembled text is matched against the form "
    "`acc + (record.data[K:] if record has the START bit else record.data)`, NULs removed, then decoded; K must equal 8 x the "
    "number of argument words the START branch consumes as header (values[0] -> 8, values[0..1] -> 16); the accumulator is the "
    "left operand (list order); the vnode id / string id are the START record's header words. R2 (continuation records never "
    "produce traces of their own): the decoders that reassemble (they test START/END bits of window records or join .data "
    "over the window) are found from their symbolic records; for each, either the NONE-qualifier action does not go straight "
    "to parse_event_list([event]) or the decoder has a None-returning path for a window without a START-bit record; if "
    "neither, a NONE-qualified fragment necessarily yields a trace. R3 (lookup order): in every path-taking decoder the "
    "ordinals of the looked-up paths increase with the rendered position, the second path of a pair is computed from the "
    "records not consumed by the first, and path holes show the path (not the vnode id). Byte-exact text for every length is "
    "not decided."
)

EVENTS = param("events")
PARSER = param("parser")
START_BIT, END_BIT = 1, 2


def _bit_test(c: T, ev: T, bit: int) -> bool:
    fq = T("attr", (ev, "func_qualifier"))
    return c in (T("bin", ("&", fq, const(bit))), T("bin", ("&", const(bit), fq)))


def find_accumulation(text: T):
    """Inside a reassembled-text term find ite(START-bit(ev), acc + ev.data[K:], acc + ev.data). Returns
    (ev, K, acc_left_ok, nul_removed, decoded) or None."""
    nul_removed = decoded = False
    cur = text
    # peel decode / replace wrappers
    while cur.op == "call" and cur.a[0].op == "attr" and cur.a[0].a[1] in ("decode", "replace", "strip", "rstrip", "translate",
                                                                          "join"):
        if cur.a[0].a[1] == "join":
            # b''.join(<list built by appending the pieces>) is the concatenation of the pieces
            if cur.a[0].a[0] == const(b"") and len(cur.a[1]) == 1 and not cur.a[2]:
                cur = _concat_view(cur.a[1][0])
            break
        if cur.a[0].a[1] == "decode":
            decoded = True
        if cur.a[0].a[1] == "translate" and cur.a[1][:2] == (const(None), const(b"\x00")) and not cur.a[2]:
            nul_removed = True          # bytes.translate(None, b'\0') deletes every NUL, like replace(b'\0', b'')
        if cur.a[0].a[1] == "replace" and cur.a[1][:2] == (const(b"\x00"), const(b"")):
            nul_removed = True
        if cur.a[0].a[1] in ("strip", "rstrip") and cur.a[1][:1] == (const(b"\x00"),):
            nul_removed = "trailing-only"
        cur = cur.a[0].a[0]
    def cases(x):
        """(cond, then-term, else-term) views of a conditional accumulation: ite(c, acc+X, acc+Y) or acc + ite(c, X, Y)."""
        if x.op == "ite":
            yield x.a
        if x.op == "bin" and x.a[0] == "+":
            l, r = x.a[1], x.a[2]
            if r.op == "ite":
                yield (r.a[0], T("bin", ("+", l, r.a[1])), T("bin", ("+", l, r.a[2])))
            if l.op == "ite":
                yield (l.a[0], T("bin", ("+", l.a[1], r)), T("bin", ("+", l.a[2], r)))
            if r.op == "slice" and len(r.a) == 3 and r.a[1].op == "ite" and r.a[2] == const(None):
                # acc + data[(K if start else 0):] is acc + data[K:] on the START record and acc + data otherwise
                def _cut(k):
                    return r.a[0] if k == const(0) else T("slice", (r.a[0], k, r.a[2]))
                yield (r.a[1].a[0], T("bin", ("+", l, _cut(r.a[1].a[1]))), T("bin", ("+", l, _cut(r.a[1].a[2]))))

    for x0 in sym.walk(cur):
        for (c, a, b) in cases(x0):
          if True:
            if not (a.op == "bin" and a.a[0] == "+" and b.op == "bin" and b.a[0] == "+"):
                continue
            sl = a.a[2]
            if sl.op == "slice" and sl.a[0].op == "attr" and sl.a[0].a[1] == "data":
                ev = sl.a[0].a[0]
                if _bit_test(c, ev, START_BIT) and b.a[2] == T("attr", (ev, "data")):
                    lo, hi = sl.a[1], sl.a[2]
                    K = lo.a[0] if lo.op == "const" else None
                    left_ok = a.a[1].op == "widen" and b.a[1].op == "widen"
                    return ev, K, left_ok and hi == const(None), nul_removed, decoded
            # accumulator on the right (reversed order)
            sl = a.a[1]
            if sl.op == "slice" and sl.a[0].op == "attr" and sl.a[0].a[1] == "data":
                ev = sl.a[0].a[0]
                if _bit_test(c, ev, START_BIT):
                    return ev, (sl.a[1].a[0] if sl.a[1].op == "const" else None), False, nul_removed, decoded
    return None


def _concat_view(t: T) -> T:
    """A list built from [] by append(piece) steps, seen as the bytes it joins to: [] is b'', append is +."""
    def rule(x: T) -> T:
        if x.op == "mut" and x.a[1] == "append" and len(x.a[2]) == 1:
            return T("bin", ("+", x.a[0], x.a[2][0]))
        if x.op == "list" and not x.a[0]:
            return const(b"")
        return x
    return normal.rewrite(t, rule)


def header_words(terms: List[T], ev: T) -> List[int]:
    """Indexes i of ev.values[i] taken under the START-bit condition in the given header terms."""
    out = []
    for t in terms:
        for x in sym.walk(t):
            if x.op == "ite" and _bit_test(x.a[0], ev, START_BIT):
                v = x.a[1]
                if v.op == "sub" and v.a[0] == T("attr", (ev, "values")) and v.a[1].op == "const":
                    out.append(v.a[1].a[0])
    return sorted(set(out))




def check(repo: Repo, run: Run) -> None:
    take_over(run, "c04", "C04", repo, lambda o: o["rule"] == "K6" and o["construct"] == "domain selection", "R0",
              "pairing domain of the string records", "the kernel trace-string records pair among themselves: a record of another "
              "kind that is put into their windows has its argument bytes joined into the reassembled text", 1)
    take_over(run, "c04", "C04", repo, lambda o: o["rule"] == "K11" and "VFS_LOOKUP" in o["construct"], "R0",
               "lookup trace", "a reassembled lookup (of any length, the empty path included) then gives no lookup trace "
               "at all", 1)
    interp = sym.Interp(repo)
    # the path arguments of an enclosing call are assembled from the lookup records INSIDE its window: that every record
    # of the thread (START, continuation, END alike) is appended to every open window is the pairing machine's contract
    from .c09 import window_obligations
    window_obligations(repo, run, ("K3", "K4", "K5", "K7"),
                       "lookup records of a split path then do not all reach the window of the enclosing call, whose path "
                       "arguments are assembled from them")
    # ------------------------------------------------------------------ R1
    tp = repo.cls("traces_parser", "TracesParser")
    vg = repo.method("traces_parser", "TracesParser", "vnode_generator")
    rec = interp.run(tp.module, vg, self_cls=tp)
    ys = [r for r in rec.returns if r.kind == "yield"]
    if len(ys) != 1 or ys[0].value.op != "call" or len(ys[0].value.a[1]) + len(ys[0].value.a[2]) != 3:
        raise AnalysisError("vnode_generator does not yield exactly one Vnode(events, id, path)")
    yv = ys[0].value
    vfields = _namedtuple_fields(repo, "traces_parser", "Vnode")
    bound = dict(zip(vfields, yv.a[1]))
    bound.update(dict(yv.a[2]))
    routines = [("pykdebugparser.traces_parser", "TracesParser.vnode_generator", bound.get("path"), [bound.get("vnode_id")],
                 {"vnode id": (bound.get("vnode_id"), 0)}, ys[0])]
    tr = repo.home("trace_handlers.trace", "handle_trace_string_global")
    gs = repo.function("trace_handlers.trace", "handle_trace_string_global")
    grec = interp.run(tr, gs, {"parser": PARSER, "events": EVENTS})
    gobj = grec.return_term()
    if gobj.op != "new":
        raise AnalysisError("handle_trace_string_global does not return a constructed trace object")
    gf = dict(gobj.a[1])
    routines.append(("pykdebugparser.trace_handlers.trace", "handle_trace_string_global", gf.get("vstr"),
                     [gf.get("debugid"), gf.get("str_id")], {"debug id": (gf.get("debugid"), 0), "string id": (gf.get("str_id"), 1)},
                     None))
    gated = set()
    for module, scope, text, hdr_terms, ids, y in routines:
        if text is None:
            raise AnalysisError(f"{scope}: reassembled text not found")
        in_object = [x for t_ in [text] + [h for h in hdr_terms if h is not None] for x in sym.walk(t_)
                     if x.op == "widen" and "." in str(x.a[0])]
        pending = []

        def judge(ob):
            # obligations of this routine are collected first: when the state lives in a helper object and one of them would
            # fail, the failure says that the accumulation form was not read off the object's fields - undecided
            acc = find_accumulation(text)
            ob("R1", module, scope, "text = acc + (data[K:] on the START record, whole data otherwise)", acc is not None,
                   "the reassembled text is not built as `acc + record.data[K:]` on the START record and `acc + record.data` on "
                   "continuation records", facts={"text": sym.pretty(text)[:300]})
            if acc is None:
                return False
            ev, K, order_ok, nul, dec = acc
            words = header_words([h for h in hdr_terms if h is not None], ev)
            want = 8 * len(words)
            ok = K == want and words == list(range(len(words))) and len(words) >= 1
            ob("R1", module, scope, f"text starts after the {len(words)} header word(s): data[{want}:]", ok,
                   "" if ok else f"the START record contributes data[{K}:] but its branch consumes header word(s) {words} "
                                 f"({want} bytes): " + ("header bytes are taken for text" if (K or 0) < want else "text bytes are lost"),
                   facts={"K": K, "header_words": words},
                   witness="a path/string whose first chunk is full (24 / 16 text bytes): compare the first characters")
            whole = T("attr", (ev, "data"))

            def _start_takes_whole(t, not_start):
                if t.op == "ite":
                    atom, pol = render.norm_bool(t.a[0])
                    if _bit_test(atom, ev, START_BIT):
                        return _start_takes_whole(t.a[1], not pol if not not_start else True) or \
                            _start_takes_whole(t.a[2], pol if not not_start else True)
                    return _start_takes_whole(t.a[1], not_start) or _start_takes_whole(t.a[2], not_start)
                return t.op == "bin" and t.a[0] == "+" and t.a[2] == whole and not not_start
            shadow = any(x.op == "ite" and _start_takes_whole(x, False) for x in sym.walk(text))
            ob("R1", module, scope, "no branch gives a START record's whole data to the text", not shadow,
                   "a record carrying the START bit can take a branch that appends its whole data (the branch is chosen by another "
                   "test first): the header bytes of a text that fits one record (START and END on the same record) become text",
                   witness="a text short enough for one record: qualifier START|END")
            ob("R1", module, scope, "chunks concatenated in record order", order_ok,
                   "chunks are not appended to the right of the accumulated text (order reversed or slice bounded)", nontrivial=False)
            ob("R1", module, scope, "every NUL removed before decoding", nul is True and dec,
                   "the text is not `.replace(b'\\x00', b'')` (all NULs, also between chunks) followed by decode"
                   if nul is not True else "the text is not decoded", nontrivial=False)
            for label, (t, idx) in ids.items():
                okid = t is not None and any(
                    x.op == "ite" and _bit_test(x.a[0], ev, START_BIT) and
                    x.a[1] == T("sub", (T("attr", (ev, "values")), const(idx))) for x in sym.walk(t))
                ob("R1", module, scope, f"{label} is the START record's word {idx}", okid,
                       f"the {label} is not taken from values[{idx}] of the record that carries the START bit",
                       facts={"term": sym.pretty(t)[:160] if t is not None else None})
            # (recognised: the accumulation was found, its offset is a number and the header words were located)
            return isinstance(K, int) and len(words) >= 1
        recognised = judge(lambda *a_, **k_: pending.append((a_, k_)))
        piped = [x for t_ in [text] + [h for h in hdr_terms if h is not None] for x in sym.walk(t_)
                 if x.op == "call" and ((x.a[0].op == "global" and x.a[0].a[0].startswith(("itertools.", "functools.", "operator.")))
                                        or x.a[0] in (T("builtin", ("map",)), T("builtin", ("filter",)), T("builtin", ("zip",))))]
        if piped and not recognised and any(not a_[4] for a_, _ in pending):
            # the pieces go through a pipeline of library iterators (accumulate / groupby / reduce ...): the accumulation form
            # these rules read is not there to be found
            run.floor_failures.append(f"C08/R1: {scope} reassembles the text through {sym.pretty(piped[0].a[0])}(...): the "
                                      f"header/offset agreement is not decided")
            gated.add(scope)
            continue
        if in_object and not recognised and any(not a_[4] for a_, _ in pending):
            run.floor_failures.append(f"C08/R1: {scope} keeps the reassembly state in a helper object "
                                      f"({str(in_object[0].a[0])}): the header/offset agreement is not decided")
            gated.add(scope)
            continue
        for a_, k_ in pending:
            run.ob(*a_, **k_)
    # vnode_generator emits on the END bit and resets
    y = ys[0]
    inner = []
    for c, pol in y.pc:
        atom, apol = render.norm_bool(c)
        if (pol if apol else not pol):
            inner.append(atom)
    ev_t = None
    for lid in y.loops:
        lr = rec.loops[lid]
        if lr.kind == "for":
            ev_t = lr.target
    ok_end = ev_t is not None and any(_bit_test(c, ev_t, END_BIT) for c in inner) and len(y.pc) == 1
    if "TracesParser.vnode_generator" not in gated:
        run.ob("R1", "pykdebugparser.traces_parser", "TracesParser.vnode_generator", "one lookup emitted per END-bit record", ok_end,
               "a lookup is not emitted exactly when a record carries the END bit", nontrivial=False)
    # parse_vnodes selects lookup records by name from the supplied table
    pv = repo.method("traces_parser", "TracesParser", "parse_vnodes")
    prec = interp.run(tp.module, pv, self_cls=tp)
    pv_term = normal.accum_to_comp(prec, prec.return_term())
    comp = [x for x in sym.walk(pv_term) if x.op == "comp"]
    okf = False
    selections = []
    for x in comp:
        elemvar, it, conds = x.a[2][0]
        if it == param(pv.args.args[1].arg) and x.a[1] == elemvar and len(conds) == 1:
            selections.append((elemvar, conds[0]))
    from .. import pipeline
    for x in sym.walk(pv_term):
        # filter(self.is_lookup, events) / filter(lambda e: ..., events): the same selection as a filter stage
        if x.op == "call" and x.a[0] == pipeline.FILTER and len(x.a[1]) == 2 and x.a[1][1] == param(pv.args.args[1].arg):
            body_ = pipeline.resolve_predicate(repo, interp, tp, x.a[1][0])
            if body_ is not None:
                bv_ = {y for y in sym.walk(body_) if y.op in ("bound", "elem")}
                if len(bv_) == 1:
                    selections.append((bv_.pop(), body_))
    for elemvar, c in selections:
        c, pol_ = render.norm_bool(c)           # `not (name != 'X')` is `name == 'X'`
        if pol_:
            tc = T("attr", (param("self"), "trace_codes"))
            eid = T("attr", (elemvar, "eventid"))
            names = [T("call", (T("attr", (tc, "get")), (eid,), ())), T("call", (T("attr", (tc, "get")), (eid, const("")), ())),
                     T("call", (T("attr", (tc, "get")), (eid, const(None)), ()))]
            # name == 'VFS_LOOKUP'   or   name in ('VFS_LOOKUP',) / ['VFS_LOOKUP'] / {'VFS_LOOKUP'}
            if c.op == "cmp" and c.a[0] == "==" and ((c.a[1] in names and c.a[2] == const("VFS_LOOKUP"))
                                                     or (c.a[2] in names and c.a[1] == const("VFS_LOOKUP"))):
                okf = True
            if c.op == "cmp" and c.a[0] == "in" and c.a[1] in names and (
                    (c.a[2].op in ("tuple", "list", "set") and c.a[2].a[0] == (const("VFS_LOOKUP"),))
                    or c.a[2] == const(("VFS_LOOKUP",))):
                okf = True
    run.ob("R1", "pykdebugparser.traces_parser", "TracesParser.parse_vnodes", "lookup records = window records named VFS_LOOKUP", okf,
           "parse_vnodes does not select exactly the window's records whose table name is VFS_LOOKUP, in order", nontrivial=False)

    # parse_vnode(events) = the first of parse_vnodes(events), or the empty Vnode when there is none
    pvn = repo.method("traces_parser", "TracesParser", "parse_vnode")
    nrec = interp.run(tp.module, pvn, self_cls=tp)
    evp = param(pvn.args.args[1].arg)
    all_lookups = interp.run(tp.module, pv, {pv.args.args[1].arg: evp}, self_cls=tp).return_term()
    opaque_all = T("call", (T("attr", (param("self"), "parse_vnodes")), (evp,), ()))
    rets = [r for r in nrec.returns if r.kind == "return"]
    firsts, fallbacks, strange = [], [], []
    for r_ in rets:
        v = r_.value
        for pc_, leaf in normal.guarded_leaves(v):
            base = leaf.a[0] if leaf.op == "sub" and leaf.a[1] == const(0) else None

            def _empty_vnode(x):
                return x.op == "call" and x.a[0].op == "global" and x.a[0].a[0].endswith(".Vnode") and (
                    x.a[1] == (T("list", ((),)), const(0), const("")) or
                    (not x.a[1] and dict(x.a[2]) == {"ktraces": T("list", ((),)), "vnode_id": const(0), "path": const("")}))
            if leaf.op == "call" and leaf.a[0] == T("builtin", ("next",)) and len(leaf.a[1]) == 2 and not leaf.a[2] \
                    and _empty_vnode(leaf.a[1][1]):
                # next(iter(parse_vnodes(events)), Vnode([], 0, '')): the first lookup, or the empty Vnode
                src_ = leaf.a[1][0]
                while src_.op == "call" and src_.a[0] == T("builtin", ("iter",)) and len(src_.a[1]) == 1:
                    src_ = src_.a[1][0]
                if src_ == opaque_all or sym.canon(src_) == sym.canon(all_lookups):
                    firsts.append(r_)
                    fallbacks.append(r_)
                    continue
            if base is not None and (base == opaque_all or sym.canon(base) == sym.canon(all_lookups)):
                firsts.append(r_)
            elif leaf.op == "call" and leaf.a[0].op == "global" and leaf.a[0].a[0].endswith(".Vnode") and (
                    leaf.a[1] == (T("list", ((),)), const(0), const("")) or
                    (not leaf.a[1] and dict(leaf.a[2]) == {"ktraces": T("list", ((),)), "vnode_id": const(0), "path": const("")})):
                fallbacks.append(r_)
            else:
                strange.append(leaf)
    okv = bool(firsts) and not strange
    run.ob("R1", "pykdebugparser.traces_parser", "TracesParser.parse_vnode", "first lookup = parse_vnodes(events)[0], else the empty Vnode", okv,
           "" if okv else "parse_vnode does not return the first element of parse_vnodes(events) (all lookup records of the window, "
                          "reassembled in order) or the empty Vnode: "
                          + (f"it returns {sym.pretty(strange[0])[:120]}" if strange else "no such return"),
           line=pvn.lineno, witness="a lookup whose records are separated by an unrelated record of the same thread")

    # ------------------------------------------------------------------ R2
    D = decoders.Decoders(repo)
    D.interp = interp
    reassemblers = []
    for e in D.entries():
        d = D.decode(e)
        uses_bits = any(sym.contains(t, EVENTS) and x.op == "attr" and x.a[1] == "func_qualifier"
                        for t in _all_terms(d.rec) for x in sym.walk(t))
        joins = any(x.op == "comp" and x.a[1].op == "attr" and x.a[1].a[1] == "data" and x.a[2][0][1] == EVENTS
                    for t in _all_terms(d.rec) for x in sym.walk(normal.accum_to_comp(d.rec, sym.resolve_widens(d.rec, t))))
        via_vnode = d.ret.op == "new" and any(sym.contains(v, T("call", (T("attr", (PARSER, "parse_vnode")), (EVENTS,), ())))
                                              for _, v in d.ret.a[1]) and e.family == "fsystem"
        if uses_bits or joins or via_vnode:
            reassemblers.append((e, d))
    run.floor("R2", "reassembling decoders", len(reassemblers), 3)
    # R4: a decoder that joins the payloads of its window takes every record of the split text: a condition that selects
    # among the window's records may only ask for "the same code as the first / last record" (or the code's name) - any
    # test of a field that differs between the START, continuation and END records of one text (debugid, func_qualifier,
    # values, timestamp ...) drops chunks
    n_joins = 0
    for e, d in reassemblers:
        seen_j = set()
        for t in _all_terms(d.rec):
            for x in sym.walk(normal.accum_to_comp(d.rec, sym.resolve_widens(d.rec, t))):
                if not (x.op == "comp" and len(x.a[2]) == 1 and x.a[2][0][1] == EVENTS and x not in seen_j
                        and any(y.op == "attr" and y.a[1] == "data" and y.a[0] == x.a[2][0][0] for y in sym.walk(x.a[1]))):
                    continue
                seen_j.add(x)
                n_joins += 1
                elemvar, _, conds = x.a[2][0]
                bad = []
                for c in conds:
                    fields_read = {y.a[1] for y in sym.walk(c) if y.op == "attr" and y.a[0] == elemvar}
                    if not fields_read <= {"eventid"}:
                        bad.append((sym.pretty(c)[:70], sorted(fields_read - {"eventid"})))
                run.ob("R4", e.module.name, e.func_name, f"{e.key}: every record of the window contributes its chunk", not bad,
                       "" if not bad else
                       f"the chunks are taken only from records where {bad[0][0]}: `{bad[0][1][0]}` differs between the START, "
                       f"continuation and END records of one text, so part of the text is dropped", line=e.func.lineno,
                       witness="a text long enough to need a START and an END record")
    run.analysed["payload_joins"] = n_joins
    run.floor("R4", "payload joins over the window", n_joins, 1)
    # the NONE action
    from .c04 import action_of
    none_action = action_of(repo, interp, 0)
    if none_action is None or none_action not in tp.methods:
        raise AnalysisError("the action for DBG_FUNC_NONE was not found")
    na = tp.methods[none_action]
    narec = interp.run(tp.module, na, self_cls=tp)
    evp = param(na.args.args[1].arg)
    pel = tp.methods["parse_event_list"]
    straight = interp.run(tp.module, pel, {"self": param("self"), pel.args.args[1].arg: T("list", ((evp,),))},
                          self_cls=tp).return_term()
    dispatcher_passes = sym.canon(narec.return_term()) == sym.canon(straight)
    for e, d in reassemblers:
        rets = [r for r in d.rec.returns if r.kind == "return"]
        has_none_path = any(r.value == const(None) for r in rets)
        ok = (not dispatcher_passes) or has_none_path
        run.ob("R2", e.module.name, e.func_name, f"{e.key}: continuation records do not become traces", ok,
               "" if ok else
               f"a NONE-qualified {e.key} record (a middle chunk) is handed by {none_action} straight to this decoder, which has "
               f"no None-returning path: every continuation chunk yields a trace of its own",
               facts={"none_action": none_action, "decoder_has_none_path": has_none_path}, line=e.func.lineno,
               witness="a text split over START, NONE, END records: the NONE chunk emits an extra (empty or partial) trace")

    # ------------------------------------------------------------------ R3 lookup order in path-taking decoders
    first_lookup = T("call", (T("attr", (PARSER, "parse_vnode")), (EVENTS,), ()))
    n_paths = 0
    del UNDECIDED[:]
    for e in D.entries():
        if not e.key.startswith("BSC_"):
            continue
        d = D.decode(e)
        if d.segs is None:
            continue
        try:
            vs = render.variants(d.segs)
        except ValueError:
            continue
        worst = None
        for _, flat in vs:
            sh = render.parse_call(flat)
            if sh is None:
                continue
            ords = []
            for p, hs in enumerate(sh.depths):
                for (t, depth, q) in hs:
                    o = lookup_ordinal(decoders.strip_conditions(t), first_lookup)
                    if o is not None:
                        ords.append((p, o, t))
            if not ords:
                continue
            n_paths += len(ords)
            seq = [o[0] for _, o, _ in ords]
            notpath = [sym.pretty(t)[:50] for _, o, t in ords if not o[1]]
            mono = all(seq[i] < seq[i + 1] for i in range(len(seq) - 1))
            if not mono or notpath:
                worst = (seq, notpath)
        uses_lookups = any(x.op == "call" and x.a[0].op == "attr" and x.a[0].a[0] == PARSER and x.a[0].a[1] in ("parse_vnode", "parse_vnodes")
                           for x in sym.walk(d.ret)) if d.ret is not None else False
        if uses_lookups and not any(lookup_ordinal(decoders.strip_conditions(h), first_lookup) is not None for h in render.holes(d.segs)):
            # the decoder asks for the nested lookups but none of its rendered arguments is a lookup picked by position or by
            # "the rest" (paths drawn one by one from an iterator with next(), zipped, ...): which lookup lands where is not followed
            run.floor_failures.append(f"C08/R3: the decoder of {e.key} takes its paths from the nested lookups in a form these rules do "
                                      f"not follow: their order is not decided")
        if any(lookup_ordinal(decoders.strip_conditions(h), first_lookup) is not None
               for h in render.holes(d.segs)):
            ok = worst is None
            run.ob("R3", e.module.name, e.func_name, f"{e.key}: looked-up paths in lookup order", ok,
                   "" if ok else (f"path arguments use lookups in order {worst[0]} by rendered position (must be increasing: the "
                                  f"second path comes from the lookups not used by the first)" if not worst[1] else
                                  f"a path position shows {worst[1]} instead of the looked-up path"),
                   line=e.func.lineno)
    run.floor("R3", "rendered path arguments", n_paths, 100)
    # ------------------------------------------------------------------ R6 no lookup is located by counting records
    # the records of another class that land inside a window are not the same in every run (a class filter removes them):
    # a decoder that finds "the rest" of its window by the NUMBER of records an earlier lookup used reads another place when
    # such a record lies in between
    n_r6 = 0
    for e in D.entries():
        if not e.key.startswith("BSC_"):
            continue
        d = D.decode(e)
        if d.ret is None:
            continue
        n_r6 += 1
        counted = [x for x in sym.walk(d.ret) if x.op == "slice" and x.a[0] == EVENTS and any(
            y.op == "call" and y.a[0] == T("builtin", ("len",)) and len(y.a[1]) == 1 and y.a[1][0].op == "attr"
            and y.a[1][0].a[1] == "ktraces" for b in x.a[1:] if isinstance(b, T) for y in sym.walk(b))]
        if counted:
            run.ob("R6", e.module.name, e.func_name, f"{e.key}: no part of the window is located by counting another lookup's records",
                   False, f"the decoder of {e.key} reads {sym.pretty(counted[0])[:80]}: a position found by counting the records of "
                          f"an earlier lookup is shifted by every other record the thread logged in between (an interrupt, a sample)",
                   line=e.func.lineno, witness="a record of another class between the START and the end of the first lookup")
    run.ob("R6", "pykdebugparser.trace_handlers.bsd", "all decoders", "no part of a window is located by counting another lookup's records",
           True, "", nontrivial=False)
    run.floor("R6", "decoders scanned for positions found by counting", n_r6, 300)
    # ------------------------------------------------------------------ R5 a path argument the kernel does not look up
    nodes = T("call", (T("attr", (PARSER, "parse_vnodes")), (EVENTS,), ()))
    n_r5 = 0
    for e in D.entries():
        if e.key not in FIRST_PATH_NOT_LOOKED_UP:
            continue
        d = D.decode(e)
        if d.ret is None or d.ret.op != "new":
            run.floor_failures.append(f"C08/R5: the result of the decoder of {e.key} is not followed")
            continue
        fields = [(k, v) for k, v in d.ret.a[1] if sym.contains(v, nodes)]
        shown = [(k, _with_n_lookups(v, nodes, 1)) for k, v in fields]
        if len(fields) < 2 or any(sh is None for _, sh in shown):
            run.floor_failures.append(f"C08/R5: which path argument of {e.key} shows the only lookup of a window is not decided "
                                      f"({[(k, sym.pretty(v)[:50]) for k, v in fields]})")
            continue
        n_r5 += 1
        ok = shown[-1][1] == 0 and all(sh == "none" for _, sh in shown[:-1])
        run.ob("R5", e.module.name, e.func_name, f"{e.key}: a window with one lookup shows it as the last path argument", ok,
               "" if ok else
               f"{e.key}: with exactly one nested lookup the path arguments show "
               f"{[(k, 'no lookup' if sh == 'none' else f'lookup {sh}') for k, sh in shown]}; {FIRST_PATH_NOT_LOOKED_UP[e.key]}, so "
               f"the one lookup of an ordinary call is the LAST path argument", line=e.func.lineno,
               witness="START, one complete VFS_LOOKUP, END")
    run.floor("R5", "decoders with a path argument that is not looked up", n_r5, 1)
    if UNDECIDED:
        run.floor_failures.append(f"C08/R3: {UNDECIDED[0]}: whether these are exactly the records the first lookup left is not decided")


UNDECIDED: list = []

# Darwin: path arguments that are plain strings to the kernel (never resolved, so no VFS_LOOKUP record belongs to them)
FIRST_PATH_NOT_LOOKED_UP = {
    "BSC_symlinkat": "symlinkat(2) stores its first argument as the link's contents without resolving it (bsd/vfs/vfs_syscalls.c, "
                     "symlinkat_internal: only the link path goes through namei)",
}


def _with_n_lookups(v: T, nodes: T, n: int):
    """What a field shows when the nested-lookup parser returned exactly n lookups: the index of the lookup, 'none' when the
    field does not read one, None when that cannot be worked out."""
    LEN = T("call", (T("builtin", ("len",)), (nodes,), ()))

    def truth(c):
        if c == nodes or c == LEN:
            return n > 0
        if c.op == "not":
            t = truth(c.a[0])
            return None if t is None else not t
        if c.op == "bool":
            ts = [truth(x) for x in c.a[1]]
            if any(t is None for t in ts):
                return None
            return all(ts) if c.a[0] == "and" else any(ts)
        if c.op == "slice" and len(c.a) == 3 and c.a[0] == nodes and c.a[2] == sym.NONE:
            lo = 0 if c.a[1] == sym.NONE else c.a[1].a[0] if c.a[1].op == "const" and isinstance(c.a[1].a[0], int) else None
            return None if lo is None or lo < 0 else n > lo
        if c.op == "cmp" and c.a[0] in ("<", ">", "<=", ">=", "==", "!="):
            l, r = c.a[1], c.a[2]
            lv = n if l == LEN else l.a[0] if l.op == "const" and isinstance(l.a[0], int) else None
            rv = n if r == LEN else r.a[0] if r.op == "const" and isinstance(r.a[0], int) else None
            if lv is None or rv is None:
                return None
            return {"<": lv < rv, ">": lv > rv, "<=": lv <= rv, ">=": lv >= rv, "==": lv == rv, "!=": lv != rv}[c.a[0]]
        return None

    def value(t):
        if t.op == "ite":
            c = truth(t.a[0])
            if c is None:
                return None
            return value(t.a[1] if c else t.a[2])
        reads = [x for x in sym.walk(t) if x.op == "sub" and x.a[0] == nodes]
        if not sym.contains(t, nodes):
            return "none"
        if len(reads) != 1 or any(x.op == "ite" for x in sym.walk(t)):
            return None
        k = reads[0].a[1]
        if k.op != "const" or not isinstance(k.a[0], int) or not -n <= k.a[0] < n:
            return None
        return k.a[0] % n
    return value(v)


def _after_last_consumed(lo: T, consumed: T) -> bool:
    """lo == events.index(consumed[-1]) + 1, possibly as `... if consumed else 0`."""
    want = T("bin", ("+", T("call", (T("attr", (EVENTS, "index")), (T("sub", (consumed, const(-1))),), ())), const(1)))
    if lo == want:
        return True
    # (the caller has replaced the condition of an `ite` by True: only the two values are looked at)
    if lo.op == "ite" and (lo.a[0] == const(True) or render.norm_bool(lo.a[0]) == (consumed, True)) and lo.a[1] == want \
            and lo.a[2] == const(0):
        return True
    return False


def _rest_kind(it: T, consumed: T, by_identity: bool, has_conds: bool) -> str:
    """How the records handed to the second lookup are chosen: 'ok' (what the first lookup left), 'wrong' (recognisably
    something else), 'undecided'."""
    if it.op == "ite":
        ks = {_rest_kind(it.a[1], consumed, by_identity, has_conds), _rest_kind(it.a[2], consumed, by_identity, has_conds)}
        return "ok" if ks == {"ok"} else "wrong" if ks == {"wrong"} else "undecided"
    if it == EVENTS or (it.op == "slice" and len(it.a) == 3 and it.a[0] == EVENTS and it.a[1] in (sym.NONE, const(0))
                        and it.a[2] == sym.NONE):
        return "ok" if by_identity else "wrong"     # not computed from the remainder: it re-reads the first lookup
    if it.op == "slice" and len(it.a) == 3 and it.a[0] == EVENTS and it.a[2] == sym.NONE:
        lo = it.a[1]        # the remainder is taken from a suffix of the window
        if _after_last_consumed(lo, consumed) and (by_identity or not has_conds):
            return "ok"     # everything up to the last record of the first lookup is dropped: no record of a later lookup is
        if any(y.op == "call" and y.a[0] == T("builtin", ("len",)) and y.a[1] == (consumed,) for y in sym.walk(lo)) and not by_identity:
            return "wrong"  # a suffix found by COUNTING the first lookup's records: other records in between shift it
    return "undecided"


def lookup_ordinal(t: T, first_lookup: T) -> Optional[Tuple[float, bool]]:
    """(ordinal of the lookup a hole shows, is it the .path attribute) or None when the hole is not a lookup."""
    best = None
    for x in sym.walk(t):
        if x.op == "attr" and x.a[0].op in ("call", "sub"):
            base = x.a[0]
            o = None
            if base == first_lookup:
                o = 0.0
            elif base.op == "call" and base.a[0] == first_lookup.a[0] and base.a[1] and base.a[1][0].op == "comp":
                comp = base.a[1][0]
                elemvar, it, conds = comp.a[2][0]
                consumed = T("attr", (first_lookup, "ktraces"))
                by_identity = comp.a[1] == elemvar and conds == (T("cmp", ("not in", elemvar, consumed)),)
                kind = _rest_kind(it, consumed, by_identity, bool(conds)) if comp.a[1] == elemvar else "undecided"
                if kind == "undecided":
                    UNDECIDED.append(f"the records of the second lookup are taken from {sym.pretty(it)[:70]}")
                o = 0.0 if kind == "wrong" else 1.0
            elif base.op == "sub" and base.a[0].op == "call" and base.a[0].a[0] == T("attr", (PARSER, "parse_vnodes")) \
                    and base.a[1].op == "const":
                k = base.a[1].a[0]
                o = float(k) if k >= 0 else 1e9 + k
            if o is not None:
                cand = (o, x.a[1] == "path")
                if best is None or cand[0] > best[0]:
                    best = cand
    return best


def _all_terms(rec: sym.Record):
    for r in rec.returns:
        yield r.value
        for c, _ in r.pc:
            yield c
    for lr in rec.loops.values():
        for ex in lr.exits:
            for c, _ in ex[1]:
                yield c


def _namedtuple_fields(repo: Repo, modname: str, name: str):
    import ast
    from .. import consteval
    node = repo.constant(modname, name)
    if not (isinstance(node, ast.Call) and len(node.args) >= 2):
        raise AnalysisError(f"{name} is not a namedtuple(...) call")
    v = consteval.evaluate(repo, repo.module(modname), node.args[1])
    if isinstance(v, str):
        v = v.replace(",", " ").split()
    return list(v)
