"""C09 - syscall arguments are rendered from the matching START argument, in order."""
from __future__ import annotations

from .. import decoders, normal, render, sym
from ..decoders import classify, fmt_atoms
from ..model import AnalysisError, Repo
from ..report import Run, take_over
from ..sym import T, const

EXPLANATION = (
    "For every registry key BSC_* / MSC_* the handler is resolved (through functools.partial), interpreted "
    "symbolically with the dispatcher's arguments, its constructor call is bound to the dataclass fields, and the "
    "class's __str__ is interpreted on that object, giving the rendered text as a template of literals and holes whose "
    "terms are expressions over events[0].values[i], events[-1].values[i], lookups and tables. The template is split "
    "at depth-1 commas into positions for every alternative (no_cancel, optional segments, result forms). "
    "R1: every START word used in position p is word p. R2: the call part uses only START words, nested-lookup paths "
    "and constants (never the END record, another record, a thread id or a parser table). R3: constructor arity "
    "matches the dataclass. R4: a purely numeric hole is the word itself in decimal, hex or signed (ctypes.c_intNN) "
    "form - no other arithmetic. Each fact covers all argument tuples at once."
)

ALLOWED_EXT_PREFIX = ("ctypes.",)
# host-platform enums in call positions are C18's subject (output must not depend on the host), not C09's
HOST_EXT_PREFIX = ("socket.", "signal.", "errno.")

# R4: frozen single-site exceptions, one line of reason each
NUMERIC_EXCEPTIONS = {
    ("MSC_semaphore_timedwait_trap", 1): "`unsigned int sec` is a 32-bit argument: upper half of the word is undefined, "
                                         "the decoder masks it with 0xffffffff",
}

SIGNED = {"ctypes.c_int8", "ctypes.c_int16", "ctypes.c_int32", "ctypes.c_int64", "ctypes.c_uint8", "ctypes.c_uint16",
          "ctypes.c_uint32", "ctypes.c_uint64", "ctypes.c_long", "ctypes.c_ulong", "ctypes.c_longlong",
          "ctypes.c_ulonglong", "ctypes.c_int", "ctypes.c_uint", "ctypes.c_short", "ctypes.c_ushort"}


def is_start_word(t: T) -> bool:
    return (t.op == "sub" and t.a[0].op == "attr" and t.a[0].a[1] == "values"
            and t.a[0].a[0] == T("sub", (decoders.EVENTS, const(0))) and t.a[1].op == "const")


def numeric_form(t: T):
    """Return 'num' if t is START[k] in decimal/hex/signed form, 'arith' if it is arithmetic over START words
    that is not such a form, None if the term involves a symbolic decoder (enum, join, table, lookup...)."""
    if is_start_word(t):
        return "num"
    if t.op == "call":
        f, args = t.a[0], t.a[1]
        if f.op == "builtin" and f.a[0] in ("hex", "int", "str") and len(args) == 1 and not t.a[2]:
            return numeric_form(args[0])
    v = normal.view_of_word(t)
    if v is not None:
        # a fixed-width view of the word: the full 64 bits (signed or not) are the argument itself, fewer bits are not
        inner = numeric_form(v[0])
        if inner == "num":
            return "num" if v[1] >= 64 else "narrow"
        return inner
    if t.op == "ite" and _arith_cond(t.a[0]):
        # a choice between two renderings of the word (hex above 9, decimal below) is still the word; a choice
        # between the word and arithmetic on it (a hand-written sign conversion of the wrong width) is not
        forms = (numeric_form(t.a[1]), numeric_form(t.a[2]))
        if forms == ("num", "num"):
            return "num"
        if all(f is not None for f in forms):
            return "narrow" if "narrow" in forms else "arith"
    # arithmetic-only?
    if _arith_only(t):
        return "arith"
    return None


def _arith_cond(c: T) -> bool:
    if c.op == "not":
        return _arith_cond(c.a[0])
    if c.op == "bool":
        return all(_arith_cond(x) for x in c.a[1])
    if c.op == "cmp":
        return _arith_only(c.a[1]) and _arith_only(c.a[2])
    return _arith_only(c)


def _arith_only(t: T) -> bool:
    if is_start_word(t) or t.op == "const":
        return True
    if t.op in ("bin",):
        return _arith_only(t.a[1]) and _arith_only(t.a[2])
    if t.op == "un":
        return _arith_only(t.a[1])
    if t.op == "call" and t.a[0].op == "builtin" and t.a[0].a[0] in ("hex", "int", "str", "abs"):
        return all(_arith_only(x) for x in t.a[1])
    if t.op == "attr" and t.a[1] == "value" and t.a[0].op == "call" and t.a[0].a[0].op == "global" \
            and t.a[0].a[0].a[0] in SIGNED:
        return all(_arith_only(x) for x in t.a[0].a[1])
    return False


def in_scope(key: str) -> bool:
    return key.startswith("BSC_") or key.startswith("MSC_")


def _shows_names(repo, t) -> bool:
    """The value at this position is shown through the members of an enumeration (flag names, a mode name)."""
    for x in sym.walk(t):
        if x.op == "enum":
            return True
        if x.op == "class":
            found = repo.lookup(x.a[0])
            if found is not None and found[0] == "class" and found[2].enum_kind:
                return True
    return False


def analyse(D: decoders.Decoders, e, run: Run, facts_out=None) -> int:
    d = D.decode(e)
    mod = e.module.name
    scope = e.func_name
    if d.segs is None or d.cls is None:
        # not a verdict about the property: the analysis cannot see what this decoder renders
        raise AnalysisError(f"{e.key} ({scope}): decoder result / rendering could not be derived: {d.problems[:2]}")
    # R3 arity
    bad_fields = [k for k, _ in d.ret.a[1] if k.startswith("<")]
    missing = [k for k, v in d.ret.a[1] if v.op == "unknown" and str(v.a[0]).startswith("missing-field")]
    ok = not bad_fields and not missing
    run.ob("R3", mod, scope, f"{e.key}:constructor", ok,
           "" if ok else f"constructor call of {d.cls.name} does not match its fields: extra={bad_fields} missing={missing}",
           facts={"class": d.cls.name, "fields": d.cls.field_names()}, nontrivial=False, line=e.func.lineno)
    try:
        vs = render.variants(d.segs)
    except ValueError as ex:
        run.ob("R3", mod, scope, e.key, False, f"rendering has too many alternatives to enumerate: {ex}")
        return 0
    npos = 0
    shapes = []
    for choices, flat in vs:
        sh = render.parse_call(flat)
        shapes.append(sh)
    if any(sh is None for sh in shapes):
        # not rendered as name(p0, ...): outside the property's scope, recorded
        run.note(f"{e.key}: rendering is not call-shaped, outside C09's scope: {render.text_of(d.segs)[:80]}")
        return 0
    seen = set()
    for (choices, flat), sh in zip(vs, shapes):
        for p, hs in enumerate(sh.depths):
            for (t, depth, in_q) in hs:
                key = (p, t)
                if key in seen:
                    continue
                seen.add(key)
                opaque_fn = None
                for x in sym.walk(t):
                    if x.op == "call" and x.a[0].op == "func":
                        ks = {a[1] for a in classify(x) if a[0] == "START"}
                        if ks - {p}:
                            opaque_fn = x.a[0].a[0]        # it is handed START words of other positions
                    if x.op in ("sub", "slice") and x.a[0].op in ("call", "mut", "widen", "ite", "bin", "comp") \
                            and {a[1] for a in classify(x.a[0]) if a[0] == "START"} - {p}:
                        # an item picked out of an intermediate container that holds several START words and was not reduced
                        # to a literal: which word the item is cannot be read off the term
                        raise AnalysisError(f"{e.key} ({scope}): position {p} is an item of an intermediate container the interpreter "
                                            f"did not reduce ({sym.pretty(x)[:80]}): the provenance of the value is not decided")
                if opaque_fn is not None:
                    # a helper of the package that could not be interpreted in place (loops with early returns ...): which
                    # of its arguments the shown value comes from is not known
                    raise AnalysisError(f"{e.key} ({scope}): position {p} is computed by {opaque_fn.rsplit('.', 1)[1]}(...), a helper "
                                        f"the interpreter could not follow: the provenance of the value is not decided")
                atoms = classify(t)
                # R1 is about the value shown: selectors (ite conditions) may look at other words, e.g. the socket
                # option name is decoded symbolically only when the level word says SOL_SOCKET
                value_atoms = classify(decoders.strip_conditions(t))
                starts = sorted(a[1] for a in value_atoms if a[0] == "START")
                wrong = [i for i in starts if i != p]
                construct = f"{e.key}:pos{p}"
                f = {"decoder": e.func_name, "class": d.cls.name, "position": p, "hole": sym.pretty(t)[:160],
                     "atoms": fmt_atoms(atoms), "symbolic": _shows_names(D.repo, t)}
                if facts_out is not None:
                    facts_out.append(f)
                run.ob("R1", mod, scope, construct, not wrong,
                       "" if not wrong else
                       f"{sh.name}(): position {p} is rendered from START word(s) {wrong} (events[0].values[{wrong[0]}]), "
                       f"not word {p}",
                       facts=f, line=e.func.lineno,
                       witness=None if not wrong else f"START values with values[{wrong[0]}] != values[{p}] render the wrong word")
                mixed = ("LOOKUP",) in value_atoms and bool(starts)
                run.ob("R5", mod, scope, construct + ": a path or an argument word, not one or the other", not mixed,
                       "" if not mixed else
                       f"{sh.name}(): position {p} shows a looked-up path for some windows and START word {starts[0]} for others "
                       f"({sym.pretty(t)[:80]}): which one depends on the records nested in the window, not on the call",
                       facts=f, line=e.func.lineno, nontrivial=mixed,
                       witness="the same call once with and once without a nested VFS_LOOKUP")
                forbidden = []
                for a in atoms:
                    if a[0] in ("START", "LOOKUP"):
                        continue
                    if a[0] == "EXT" and (a[1].startswith(ALLOWED_EXT_PREFIX) or a[1].startswith(HOST_EXT_PREFIX)
                                          or a[1].startswith("pykdebugparser.")):
                        continue
                    forbidden.append(a)
                run.ob("R2", mod, scope, construct, not forbidden,
                       "" if not forbidden else
                       f"{sh.name}(): position {p} depends on {fmt_atoms(set(forbidden))}; the call part must be a function "
                       f"of the START arguments and nested lookups only",
                       facts=f, line=e.func.lineno)
                if depth == 1 and not in_q:
                    nf = numeric_form(t)
                    if nf is not None:
                        exc = NUMERIC_EXCEPTIONS.get((e.key, p)) if nf in ("arith", "narrow") else None
                        okn = nf == "num" or exc is not None
                        run.ob("R4", mod, scope, construct, okn,
                               "" if okn else
                               (f"{sh.name}(): position {p} shows only the low bits of START word {p} "
                                f"({sym.pretty(t)[:70]}): a 64-bit argument is cut" if nf == "narrow" else
                                f"{sh.name}(): position {p} shows {sym.pretty(t)[:80]}, which is not the START word in "
                                f"decimal, hexadecimal or signed form"),
                               facts=dict(f, exception=exc) if exc else f, line=e.func.lineno)
                npos += 1
    return npos


def window_obligations(repo: Repo, run: Run, wanted, why: str) -> None:
    """The decoders index their window by position: events[0] must be the matching START record and events[-1] the END
    record.  That is the pairing machine's contract (C04 K3/K4); its obligations are necessary conditions here too."""
    if getattr(run, "is_probe", False):
        return          # (a check run for its own obligations does not take over in turn)
    from . import c04
    probe = Run("C04", run.tier, run.repo_root)
    probe.is_probe = True
    try:
        c04.check(repo, probe)
    except AnalysisError as ex:
        # the pairing machine is not decided: this check cannot rely on the window contract (exit 2 in the end), but what its
        # own rules find in structures they do recognise is still judged and reported first
        run.floor_failures.append(f"{run.prop}/R0: the window contract taken from C04 is not decided: {str(ex)[:200]}")
        return
    for o in probe.obligations:
        if o["rule"] in wanted:
            run.ob("R0", o["module"], o["scope"], f"window contract {o['rule']}: {o['construct']}", o["ok"],
                   (o.get("what", "") + " - " + why) if not o["ok"] else "", nontrivial=False)


def lookup_obligations(repo: Repo, run: Run, why: str) -> None:
    """Path arguments are taken from `parse_vnode(s)(events)`: that those are assembled from the window's VFS_LOOKUP records and
    from nothing else (C08/R1) is what makes a path argument "a function of the nested lookups only".  C08's obligations about
    the assembler are necessary conditions here; where C08 cannot decide the assembler this check cannot rely on it either."""
    if getattr(run, "is_probe", False):
        return          # (a check run for its own obligations does not take over in turn)
    from . import c08
    probe = Run("C08", run.tier, run.repo_root)
    probe.is_probe = True
    try:
        c08.check(repo, probe)
    except AnalysisError as ex:     # the assembler is not decided: exit 2 in the end, own rules are judged first
        run.floor_failures.append(f"{run.prop}/R0: the lookup-assembly contract taken from C08 is not decided: {str(ex)[:200]}")
        return
    n = 0
    for o in probe.obligations:
        if o["rule"] == "R1":
            n += 1
            run.ob("R0", o["module"], o["scope"], f"lookup assembly (C08/R1): {o['construct']}", o["ok"],
                   (o.get("what", "") + " - " + why) if not o["ok"] else "", nontrivial=False)
    run.floor("R0", "lookup-assembly obligations taken over from C08", n, 3)


def check(repo: Repo, run: Run) -> None:
    take_over(run, "c05", "C05", repo, lambda o: o["rule"] == "R3" and o["module"].endswith(("trace_handlers.bsd", "trace_handlers.mach")),
              "R0", "no state kept between renderings", "what a decoder or a rendering helper leaves in a module-level object is there "
              "for the next call: the text of a call then shows words of an earlier one", 0)
    window_obligations(repo, run, ("K3", "K9"),
                       "the decoder's events[0] is then not the START record of the call being rendered")
    lookup_obligations(repo, run, "a path argument is then not (only) what the nested lookup records of the call spell")
    D = decoders.Decoders(repo)
    n_bsc = n_msc = 0
    npos = 0
    facts = [] if run.tier == "thorough" else None
    for e in D.entries():
        if not in_scope(e.key):
            continue
        if e.key.startswith("BSC_"):
            n_bsc += 1
        else:
            n_msc += 1
        npos += analyse(D, e, run, facts)
    run.analysed.update({"BSC_decoders": n_bsc, "MSC_decoders": n_msc, "decoder_positions": npos})
    run.floor("R1", "BSC_* decoders", n_bsc, 320)
    run.floor("R1", "MSC_* decoders", n_msc, 34)
    run.floor("R1", "(decoder, position, hole) facts", npos, 900)
    if facts is not None:
        run.extra["all_position_facts"] = facts
    _canary(repo, run)


CANARY_SRC = '''
from dataclasses import dataclass
from typing import List

@dataclass
class Canary:
    ktraces: List
    a: int
    b: int
    def __str__(self):
        return f'canary({self.a}, {hex(self.b)})'

def handle_canary(parser, events):
    args = events[0].values
    return Canary(events, args[0], args[0])
'''


def _canary(repo: Repo, run: Run) -> None:
    """Embedded positive fixture: position 1 rendered from word 0 must be flagged by the same machinery."""
    import ast
    from ..model import ModuleInfo
    tree = ast.parse(CANARY_SRC)
    mod = ModuleInfo("pykdebugparser.__canary__", "<canary>", CANARY_SRC, tree)
    repo.modules[mod.name] = mod
    try:
        repo._index_module(mod)
        interp = sym.Interp(repo)
        rec = interp.run(mod, mod.functions["handle_canary"], {"parser": sym.param("parser"), "events": sym.param("events")})
        obj = rec.return_term()
        ci = mod.classes["Canary"]
        srec = interp.run(mod, ci.methods["__str__"], {"self": obj}, self_cls=ci)
        segs = render.flatten(srec.return_term())
        flagged = False
        for _, flat in render.variants(segs):
            sh = render.parse_call(flat)
            for p, hs in enumerate(sh.depths):
                for (t, depth, q) in hs:
                    if any(a[0] == "START" and a[1] != p for a in classify(t)):
                        flagged = True
        run.canary("R1", "position 1 rendered from events[0].values[0]", flagged)
    finally:
        del repo.modules[mod.name]
