"""C10 - syscall results: errors take precedence and come only from the END record."""
from __future__ import annotations

from .. import decoders, render, sym
from ..decoders import classify, fmt_atoms, EVENTS
from ..model import AnalysisError, Repo
from ..report import Run, take_over
from ..sym import T, const

EXPLANATION = (
    "End-to-end symbolic rendering of every BSC_* decoder (handler through functools.partial -> dataclass -> __str__, "
    "shared result serializer inlined) gives the text as alternatives guarded by conditions on record words. "
    "With E = events[-1].values[0] (END error word) and R = events[-1].values[1] (END return word): "
    "R1 every non-exempt decoder's text splits on E on every path (a decoder that never consults E cannot give errors "
    "precedence); R2 on every alternative with E non-zero the text after the call contains 'errno: ', every hole there "
    "is E itself or a name looked up by exactly E, and no other END word appears; R3 on every alternative with E zero "
    "the text contains no 'errno', no hole depends on E and every END-derived hole is a rendering of R (plus the "
    "second return word for pipe); R4 the call part never depends on the END record; R5 no word of the END record "
    "other than E and R (pipe: also word 2) is rendered. The exempt set is the property's own list, frozen by registry "
    "key. Each fact quantifies over all START and END tuples."
)

# the property's own list ("getpid-style getters, umask, sync, getdtablesize, getlogin, execve, vfork, thread create, abort")
EXEMPT = {
    "BSC_getpid": "cannot fail", "BSC_getuid": "cannot fail", "BSC_geteuid": "cannot fail", "BSC_getppid": "cannot fail",
    "BSC_getegid": "cannot fail", "BSC_getgid": "cannot fail", "BSC_getpgrp": "cannot fail", "BSC_sync": "cannot fail",
    "BSC_umask": "cannot fail", "BSC_sys_getdtablesize": "cannot fail", "BSC_getlogin": "returns through a buffer",
    "BSC_execve": "does not return on success", "BSC_vfork": "returns twice",
    "BSC_bsdthread_create": "thread create returns the new thread in another word",
    "BSC_abort_with_payload": "does not return",
}
# success holes may show END word 2 only here
SECOND_RETURN_WORD = {"BSC_pipe": "pipe returns two descriptors in retval[0] and retval[1]"}

END = T("sub", (EVENTS, const(-1)))
E_WORD = T("sub", (T("attr", (END, "values")), const(0)))
R_WORD = T("sub", (T("attr", (END, "values")), const(1)))


def _has_arith(t: T, word: T) -> bool:
    """True when `word` occurs under an arithmetic operator inside t.  A full-width (64-bit) signed or unsigned view of
    the word, however it is spelled (ctypes, two's-complement arithmetic), is the word itself."""
    from .. import normal

    def full_view(x: T) -> T:
        v = normal.view_of_word(x)
        return v[0] if v is not None and v[1] >= 64 else x
    t = normal.rewrite(t, full_view)
    for x in sym.walk(t):
        if x.op in ("bin", "un") and sym.contains(x, word):
            return True
    return False


def _name_lookup_of(t: T, word: T) -> bool:
    """table[word] / table.get(word, ...) for a table that is not record data."""
    if t.op == "sub" and t.a[1] == word and not sym.contains(t.a[0], EVENTS):
        return True
    if t.op == "call" and t.a[0].op == "attr" and t.a[0].a[1] == "get" and t.a[1] and t.a[1][0] == word \
            and not sym.contains(t.a[0].a[0], EVENTS):
        return all(not sym.contains(x, EVENTS) or x == word for x in t.a[1][1:])
    if t.op == "call" and t.a[0].op == "global" and t.a[0].a[0].endswith(".get") and t.a[1] and t.a[1][0] == word:
        return all(not sym.contains(x, EVENTS) for x in t.a[1][1:])
    if t.op == "attr" and t.a[1] == "name" and t.a[0].op == "call" and t.a[0].a[1] == (word,):
        return True
    return False


def analyse(D, e, run: Run) -> bool:
    d = D.decode(e)
    mod, scope = e.module.name, e.func_name
    if d.segs is None:
        raise AnalysisError(f"{e.key} ({scope}): rendering could not be derived: {d.problems[:2]}")
    try:
        vs = render.variants(d.segs)
    except ValueError as ex:
        run.ob("R1", mod, scope, e.key, False, f"too many rendering alternatives: {ex}")
        return False
    exempt = e.key in EXEMPT
    shapes = [(dict(ch), render.parse_call(flat), flat) for ch, flat in vs]
    if any(sh is None for _, sh, _ in shapes):
        run.ob("R1", mod, scope, e.key, exempt, f"rendering is not call-shaped: {render.text_of(d.segs)[:100]}",
               line=e.func.lineno)
        return False
    # ---- R4 call part independent of END
    bad = set()
    for ch, sh, flat in shapes:
        for p, hs in enumerate(sh.depths):
            for (t, dep, q) in hs:
                for a in classify(t):
                    if a[0].startswith("END") or a[0].startswith("EV"):
                        bad.add((p, a))
    # ... nor may the END record decide WHICH alternative of the call part is shown: two alternatives that differ only in
    # the value of one choice and have different call parts make that choice part of the call part's inputs
    def call_part(sh):
        return (sh.name, tuple(tuple(pos) for pos in sh.positions), sh.closed)
    def end_dep(c):
        return any(a[0].startswith("END") or a[0].startswith("EV") for a in classify(c))
    for i, (ch1, sh1, _) in enumerate(shapes):
        free1 = {k: v for k, v in ch1.items() if not end_dep(k)}
        for ch2, sh2, _ in shapes[i + 1:]:
            if call_part(sh1) == call_part(sh2):
                continue
            free2 = {k: v for k, v in ch2.items() if not end_dep(k)}
            if any(free1[k] != free2[k] for k in set(free1) & set(free2)):
                continue            # told apart by something other than the END record
            # the same START words and nested records can give either call part: only END-dependent choices differ
            diff = [p for p, (x, y) in enumerate(zip(sh1.positions, sh2.positions)) if x != y] or [0]
            for c in set(ch1) | set(ch2):
                if end_dep(c) and ch1.get(c) != ch2.get(c):
                    for a in classify(c):
                        if a[0].startswith("END") or a[0].startswith("EV"):
                            bad.add((diff[0], a))
    run.ob("R4", mod, scope, f"{e.key}:call-part", not bad,
           "" if not bad else f"the call part depends on the END record / other records: "
                              f"{sorted((p, fmt_atoms({a})[0]) for p, a in bad)}",
           line=e.func.lineno)
    if exempt:
        # exempt decoders: only R4 and 'no errno text fabricated from something else'
        run.ob("R1", mod, scope, e.key, True, facts={"exempt": EXEMPT[e.key]}, nontrivial=False)
        return True
    # ---- R1 splits on E on every path
    unsplit = [render.text_of(flat)[:120] for ch, sh, flat in shapes if E_WORD not in ch]
    ok1 = not unsplit
    if unsplit:
        # the result text comes out of something the interpreter did not reduce (a helper object it lost track of, a table
        # filled at import time): whether that something looks at the error word is not read off the rendering
        for ch, sh, flat in shapes:
            if E_WORD in ch:
                continue
            for seg in sh.tail:
                if seg[0] == "hole" and any(x.op in ("unknown", "widen") or (x.op == "call" and x.a[0].op == "func")
                                            or (x.op == "global" and x.a[0].startswith("pykdebugparser."))
                                            for x in sym.walk(seg[1])):
                    raise AnalysisError(f"{e.key} ({scope}): the result part is computed through a structure that is not reduced to "
                                        f"the END record's words ({sym.pretty(seg[1])[:100]}): the precedence of errors is not decided")
    run.ob("R1", mod, scope, e.key, ok1,
           "" if ok1 else f"the rendering does not consult the END record's error word (events[-1].values[0]) on "
                          f"{len(unsplit)} of {len(shapes)} alternatives, e.g. {unsplit[0]!r}: errors cannot take "
                          f"precedence",
           facts={"alternatives": len(shapes), "conditions": sorted({sym.pretty(c) for ch, _, _ in shapes for c in ch})},
           line=e.func.lineno)
    if not ok1:
        return True
    # ---- R2 / R3 / R5 per alternative
    for ch, sh, flat in shapes:
        tail = sh.tail
        text = "".join(s[1] for s in tail if s[0] == "lit")
        tail_holes = [s[1] for s in tail if s[0] == "hole"]
        def undecided_if_unreduced(problems_):
            # a table of the package filled at import time, a comprehension the interpreter left standing, a helper it could
            # not follow: what the result part shows is then not reduced to the END record's words, and a finding about it
            # would be a finding about the analysis
            if not problems_:
                return
            for h_ in tail_holes:
                if any(x.op in ("unknown", "widen", "elem") or (x.op == "call" and x.a[0].op == "func")
                       or (x.op == "global" and x.a[0].startswith("pykdebugparser.")) for x in sym.walk(h_)):
                    raise AnalysisError(f"{e.key} ({scope}): the result part is computed through a structure that is not reduced "
                                        f"to the END record's words ({sym.pretty(h_)[:100]}): errors / return values are not decided")
        e_true = ch[E_WORD]
        cond_txt = ", ".join(f"{sym.pretty(c)}={v}" for c, v in ch.items())
        construct = f"{e.key}:{'error' if e_true else 'success'}[{cond_txt[:80]}]"
        f = {"tail": render.text_of(tail)[:160], "under": cond_txt[:200]}
        if e_true:
            problems = []
            if "errno: " not in text:
                problems.append("no 'errno: ' text although the error word is non-zero")
            exact = False
            for t in tail_holes:
                atoms = classify(t)
                end_atoms = {a for a in atoms if a[0].startswith("END") or a[0].startswith("EV")}
                if not end_atoms:
                    continue            # START/lookup derived extras (e.g. fsgetpath path) are not the result
                if t == E_WORD:
                    exact = True
                    continue
                if _name_lookup_of(t, E_WORD):
                    continue
                if end_atoms - {("END", 0)}:
                    problems.append(f"shows {sym.pretty(t)[:60]} (a success/other END word) on the error path")
                else:
                    problems.append(f"shows {sym.pretty(t)[:60]}: not exactly the error code or its name")
            if not exact and "errno: " in text:
                problems.append("the error code itself (events[-1].values[0]) is not shown")
            undecided_if_unreduced(problems)
            run.ob("R2", mod, scope, construct, not problems, "; ".join(problems), facts=f, line=e.func.lineno)
        else:
            problems = []
            if "errno" in text:
                problems.append("text contains 'errno' although the error word is zero")
            allowed = {("END", 1)}
            if e.key in SECOND_RETURN_WORD:
                allowed.add(("END", 2))
            for t in tail_holes:
                atoms = classify(t)
                end_atoms = {a for a in atoms if a[0].startswith("END") or a[0].startswith("EV")}
                if ("END", 0) in end_atoms:
                    problems.append(f"success path shows a value derived from the error word: {sym.pretty(t)[:60]}")
                extra = end_atoms - allowed - {("END", 0)}
                if extra:
                    problems.append(f"success value {sym.pretty(t)[:60]} is not a rendering of the END return word "
                                    f"(uses {fmt_atoms(extra)})")
                if ("END", 1) in end_atoms and _has_arith(t, R_WORD):
                    problems.append(f"success value {sym.pretty(t)[:60]} applies arithmetic to the return word")
            undecided_if_unreduced(problems)
            run.ob("R3", mod, scope, construct, not problems, "; ".join(problems), facts=f, line=e.func.lineno)
    return True


def check(repo: Repo, run: Run) -> None:
    take_over(run, "c05", "C05", repo, lambda o: o["rule"] == "R3", "R0", "no state kept between results",
              "what a decoder, a rendering helper or the dispatcher leaves in a module-level object (its own or the standard library's, "
              "such as errno.errorcode) is there for the next call: the result part then depends on what was decoded before, "
              "not on the END record alone", 0)
    from .c09 import window_obligations
    window_obligations(repo, run, ("K3", "K4"),
                       "the decoder's events[-1] is then not (only) the END record of the call being rendered")
    from .c09 import lookup_obligations
    lookup_obligations(repo, run, "the call part (its path arguments) can then contain bytes of records that are not lookups, the "
                                  "call's own END record included")
    D = decoders.Decoders(repo)
    n = n_ex = 0
    for e in D.entries():
        if not e.key.startswith("BSC_"):
            continue
        if analyse(D, e, run):
            n += 1
            if e.key in EXEMPT:
                n_ex += 1
    run.analysed.update({"BSC_decoders": n, "exempt": n_ex, "result_bearing": n - n_ex})
    run.floor("R1", "result-bearing BSC_* decoders", n - n_ex, 300)
    # exempt keys must still exist (a vanished anchor is not a silent pass)
    keys = {e.key for e in D.entries()}
    gone = sorted(k for k in EXEMPT if k not in keys)
    if gone:
        run.note(f"exempt keys no longer registered: {gone}")
