"""C11 - flag words and packed fields decode to exactly the names of the bits set."""
from __future__ import annotations

import ast

from typing import Dict, List, Optional, Tuple

from .. import consteval, decoders, normal, render, sym
from ..model import AnalysisError, ClassInfo, Repo
from ..oracles import darwin
from ..report import Run, take_over
from ..sym import T, const, param

EXPLANATION = (
    "R1: every enum member of the decoder modules whose name is in the Darwin reference table has the reference value. "
    "R2-R4: every place that selects enum members by looking at a word (comprehensions and loops over an enum class, over "
    "list(Enum), over Enum.__members__.values() or over an explicit tuple of members) is found in the symbolic terms; the "
    "set of members the iteration really yields is computed (a plain Enum skips aliases; iterating an enum.Flag class yields "
    "only canonical single-bit members on Python >= 3.11); the selection condition is partially evaluated for every member, "
    "leaving a residual condition on the word: `word & c` (bit test) or `(word & MASK) == c` (field equality). A member shown "
    "by a bit test must be a single bit equal to its value (otherwise the name appears without all its bits set); a field "
    "value must be compared against the member's own value; and every declared non-zero member of the family must be shown "
    "by its own test or, for a composite outside any field mask, be covered by shown single bits - otherwise a set bit "
    "with a declared name is never shown. R5: the ioctl request split found in BscIoctl.__str__ is compared with _IOC's "
    "inverse (number = x & 0xff, group = (x >> 8) & 0xff, length = (x >> 16) & 0x1fff, direction = x & 0xe0000000); the "
    "fields must be disjoint, cover 32 bits, and the direction table must name IOC_VOID/OUT/IN/INOUT. R7: when a decoder "
    "splits one record word into several fields by shifts and masks, the bit sets reaching the fields are pairwise "
    "disjoint (a field shifted out without its mask is decoded together with its neighbour's bits)."
)

TH = "pykdebugparser.trace_handlers."


def popcount(v: int) -> int:
    return bin(v).count("1")


# ------------------------------------------------------------------ sites
class Site:
    def __init__(self, scope: str, module: str, line: int, source: T, elem: T, selections):
        self.scope, self.module, self.line = scope, module, line
        self.source, self.elem = source, elem
        self.selections = selections          # list of (conds [(term, pol)], selected term)
        self.enum: Optional[ClassInfo] = None
        self.yielded: List[Tuple[str, int]] = []
        self.how = ""


def enum_source(repo: Repo, src: T, py311: bool = True):
    """(ClassInfo, [(name, value)] actually iterated, description) or None."""
    def cls_of(t):
        if t.op == "class":
            f = repo.lookup(t.a[0])
            if f and f[0] == "class" and f[2].enum_kind:
                return f[2]
        return None

    inner = src
    while inner.op == "call" and inner.a[0].op == "builtin" and inner.a[0].a[0] in ("list", "tuple", "iter", "sorted", "reversed") \
            and len(inner.a[1]) == 1:
        inner = inner.a[1][0]
    if inner.op == "global":
        # a module-level tuple / list of members, e.g. _OPEN_OPTION_FLAGS = (E.A, E.B, ...)
        found = repo.lookup(inner.a[0])
        if found and found[0] == "const" and isinstance(found[2], (ast.Tuple, ast.List)):
            fr = sym._Frame(sym.Interp(repo), found[1], None, None, sym.Record(), "module-constant", 0, ())
            inner = fr.eval(found[2], sym.State({}, {}, ()))
    ci = cls_of(inner)
    if ci is not None:
        members = []
        seen_vals = set()
        for n, v in ci.members:
            if v in seen_vals:
                continue          # alias: not yielded by iteration
            seen_vals.add(v)
            if ci.enum_kind in ("Flag", "IntFlag") and py311 and (not isinstance(v, int) or v == 0 or popcount(v) != 1):
                continue          # Flag iteration yields canonical (single-bit) members only
            members.append((n, v))
        how = f"iteration of the {ci.enum_kind} class" + (" (canonical single-bit members only on Python >= 3.11)"
                                                          if ci.enum_kind in ("Flag", "IntFlag") else "")
        return ci, members, how
    # E.__members__.values()
    if inner.op == "call" and inner.a[0].op == "attr" and inner.a[0].a[1] == "values" and inner.a[0].a[0].op == "attr" \
            and inner.a[0].a[0].a[1] == "__members__":
        ci = cls_of(inner.a[0].a[0].a[0])
        if ci is not None:
            return ci, list(ci.members), "E.__members__.values() (every declared member)"
    if inner.op in ("tuple", "list") and inner.a[0] and all(x.op == "enum" for x in inner.a[0]):
        qn = {x.a[0] for x in inner.a[0]}
        if len(qn) == 1:
            ci = repo.lookup(qn.pop())[2]
            md = ci.member_dict()
            return ci, [(x.a[1], md[x.a[1]]) for x in inner.a[0]], "explicit tuple of members"
    return None


def _derived_rows(repo: Repo, site: "Site") -> bool:
    """`_TABLE = tuple((m, f(m)) for m in E)`: a module table of rows computed from an enum class, one row per member with
    columns derived from the member.  The site iterating over the table is rewritten as a site iterating over the class, each
    column replaced by the expression that computes it."""
    inner = site.source
    while inner.op == "call" and inner.a[0].op == "builtin" and inner.a[0].a[0] in ("list", "tuple", "iter") and len(inner.a[1]) == 1:
        inner = inner.a[1][0]
    if inner.op != "global":
        return False
    found = repo.lookup(inner.a[0])
    if not (found and found[0] == "const"):
        return False
    node = found[2]
    if isinstance(node, ast.Call) and isinstance(node.func, ast.Name) and node.func.id in ("tuple", "list") and len(node.args) == 1 \
            and not node.keywords:
        node = node.args[0]
    if not (isinstance(node, (ast.GeneratorExp, ast.ListComp)) and len(node.generators) == 1 and isinstance(node.elt, ast.Tuple)):
        return False
    fr = sym._Frame(sym.Interp(repo), found[1], None, None, sym.Record(), "module-constant", 0, ())
    ct = fr.eval(node, sym.State({}, {}, ()))
    if ct.op != "comp" or len(ct.a[2]) != 1 or ct.a[1].op != "tuple":
        return False
    elem2, it2, conds2 = ct.a[2][0]
    if enum_source(repo, it2) is None:
        return False
    cols = ct.a[1].a[0]
    table = {T("sub", (site.elem, const(i))): c for i, c in enumerate(cols)}
    if any(sym.contains(c, site.elem) and not any(sym.contains(c, k) for k in table) for cs, _ in site.selections for c, _ in cs):
        return False
    sub = lambda t: sym.subst(t, table)       # noqa: E731
    site.selections = [([(sub(c), p) for c, p in cs] + [(c, True) for c in conds2], sub(e)) for cs, e in site.selections]
    site.source, site.elem = it2, elem2
    return True


def find_sites(repo: Repo, interp: sym.Interp) -> List[Site]:
    sites: List[Site] = []
    seen = set()
    # a generic helper (`def _decode_flags(enum_cls, value): return [m for m in enum_cls if m.value & value]`) iterates over
    # its parameter: its loop is a selection site of every function that calls it with an enum class, seen there
    generic = set()
    for mod in repo.modules.values():           # the helper may live anywhere in the package (a shared utilities module)
        for fn in mod.functions.values():
            rec = interp.run(mod, fn)
            for lr in rec.loops.values():
                if lr.func.split(".")[-1] != fn.name:
                    continue
                it = lr.term.a[2][0][1] if (lr.kind == "comp" and lr.term is not None and len(lr.term.a[2]) == 1) else lr.iter
                if it is not None and sym.root_of(it).op == "param":
                    generic.add((lr.func, lr.lineno))
    for mod in repo.modules.values():
        if not mod.name.startswith(TH):
            continue
        units = [(None, f) for f in mod.functions.values()]
        for cname, cnode in mod.constants.items():
            # `to_x_flags = _flags_decoder(XFlag)`: a decoder made by a factory of the package is a unit like a function
            if isinstance(cnode, ast.Call) and not cnode.keywords and cname.isidentifier():
                dn = repo.dotted(mod, cnode.func) or ""
                f_ = repo.lookup(dn) if dn.startswith("pykdebugparser.") else None
                if f_ and f_[0] == "func" and any(isinstance(x, (ast.FunctionDef, ast.Lambda)) for x in ast.walk(f_[2]) if x is not f_[2]):
                    w = ast.parse(f"def {cname}(word):\n    return {cname}(word)\n").body[0]
                    for x in ast.walk(w):
                        if hasattr(x, "lineno"):
                            x.lineno = x.end_lineno = getattr(cnode, "lineno", 1)
                    w._generated_decoder = True
                    units.append((None, w))
        for ci in mod.classes.values():
            units.extend((ci, m) for m in ci.methods.values() if m.name == "__str__")
        for ci, fn in units:
            rec = interp.run(mod, fn, self_cls=ci)
            qn = f"{ci.name}.{fn.name}" if ci else fn.name

            called = {n.id for n in ast.walk(fn) if isinstance(n, ast.Name)} | \
                {n.attr for n in ast.walk(fn) if isinstance(n, ast.Attribute)}
            # ... and what the utility helpers it calls call in turn (`decode_flags_or` -> `decode_flags` in a shared module):
            # helpers outside the decoder modules, or generic themselves, are transparent
            generic_names = {f_.split(".")[-1] for f_, _ in generic}
            todo_ = list(called)
            while todo_:
                nm_ = todo_.pop()
                for m2 in repo.modules.values():
                    f2 = m2.functions.get(nm_)
                    if f2 is not None and (not m2.name.startswith(TH) or nm_ in generic_names):
                        more_ = ({n.id for n in ast.walk(f2) if isinstance(n, ast.Name)} |
                                 {n.attr for n in ast.walk(f2) if isinstance(n, ast.Attribute)}) - called
                        called |= more_
                        todo_.extend(more_)

            def here(lr):
                """the loop runs in this function's own frame, or in a generic helper this function calls itself"""
                if getattr(fn, "_generated_decoder", False):
                    return True         # everything the generated decoder runs is its own
                return lr.func.split(".")[-1] == fn.name or ((lr.func, lr.lineno) in generic and lr.func.split(".")[-1] in called)
            # comprehension sites evaluated in this function's own frame (not in an inlined callee)
            for lid, lr in rec.loops.items():
                if lr.kind != "comp" or lr.term is None or not here(lr) or len(lr.term.a[2]) != 1:
                    continue
                key = ("comp", lr.func if lr.func.split(".")[-1] == fn.name else qn + "<-" + lr.func, lr.lineno, sym.canon(lr.term))
                if key in seen:
                    continue
                seen.add(key)
                x = lr.term
                elemvar, it, conds = x.a[2][0]
                sites.append(Site(qn, mod.name, lr.lineno, it, elemvar, [([(c, True) for c in conds], x.a[1])]))
            # `list(filter(lambda m: m.value & word, E))`: the predicate is the selection condition of a comprehension
            if ci is None and not getattr(fn, "_generated_decoder", False) and "filter" in called:
                rt_ = rec.return_term()
                for x in (sym.walk(rt_) if rt_ is not None else ()):
                    if x.op == "call" and x.a[0] == T("builtin", ("filter",)) and len(x.a[1]) == 2 and not x.a[2] \
                            and x.a[1][0].op == "lambda" and len(x.a[1][0].a) > 1:
                        lam = x.a[1][0]
                        bound_ = {y for y in sym.walk(lam.a[1]) if y.op == "bound" and y.a[1] == lam.a[0]}
                        if len(bound_) != 1:
                            continue
                        key = ("filter", qn, sym.canon(x))
                        if key in seen:
                            continue
                        seen.add(key)
                        ev_ = bound_.pop()
                        sites.append(Site(qn, mod.name, fn.lineno, x.a[1][1], ev_, [([(lam.a[1], True)], ev_)]))
            # loop sites: for loops whose body appends / adds the element under conditions
            for lid, lr in rec.loops.items():
                if lr.kind != "for" or not here(lr) or lr.iter is None:
                    continue
                key = ("loop", lr.func if lr.func.split(".")[-1] == fn.name else qn + "<-" + lr.func, lr.lineno)
                if key in seen:
                    continue
                seen.add(key)
                sels = []
                for e in rec.effects:
                    if lid in e.loops and e.kind == "mut-call" and e.key in ("append", "add") and e.args:
                        # conditions introduced inside the loop
                        sels.append((list(e.pc), e.args[0]))
                if not sels and lr.target is not None and lr.break_envs:
                    # `for m in (A, B): if word & m.value: break` - the member the loop stops at is the one selected
                    # (the loop variable is read after the loop)
                    survives = any(w.op == "widen" and lr.target in w.a[2] for w in lr.carried.values())
                    if survives:
                        sels = [(list(bpc), lr.target) for bpc, benv in lr.break_envs if lr.target in benv.values()]
                if sels:
                    s = Site(qn, mod.name, lr.lineno, lr.iter, lr.target, sels)
                    s.exits = lr.exits
                    sites.append(s)
    return sites


# ------------------------------------------------------------------ partial evaluation
class Residual:
    def __init__(self, kind, c=None, mask=None, word=None):
        self.kind, self.c, self.mask, self.word = kind, c, mask, word   # kind: true/false/bit/field/unknown

    def __repr__(self):
        if self.kind == "bit":
            return f"word & {self.c:#x}"
        if self.kind == "field":
            return f"(word & {self.mask:#x}) == {self.c:#x}"
        return self.kind


def pe(t: T, elem: T, value: int, name: str) -> T:
    """Substitute the member (value, name) for the iteration variable and fold constants."""
    def go(x):
        if isinstance(x, T):
            if x.op == "attr" and x.a[0] == elem and x.a[1] == "value":
                return const(value)
            if x.op == "attr" and x.a[0] == elem and x.a[1] == "name":
                return const(name)
            na = go(x.a)
            y = x if na is x.a else T(x.op, na)
            if y.op == "bin" and y.a[1].op == "const" and y.a[2].op == "const":
                f = sym._fold_bin(y.a[0], y.a[1].a[0], y.a[2].a[0])
                if f is not None:
                    return const(f)
            if y.op == "bin" and y.a[0] == "&" and const(0) in (y.a[1], y.a[2]):
                return const(0)             # 0 & word: the member without bits never matches
            if y.op == "cmp" and y.a[1].op == "const" and y.a[2].op == "const":
                f = sym._fold_cmp(y.a[0], y.a[1].a[0], y.a[2].a[0])
                if f is not None:
                    return const(f)
            if y.op == "not" and y.a[0].op == "const":
                return const(not y.a[0].a[0])
            if y.op == "ite" and y.a[0].op == "const":
                return y.a[1] if y.a[0].a[0] else y.a[2]
            if y.op == "call" and y.a[0] == T("builtin", ("bool",)) and len(y.a[1]) == 1 and not y.a[2]:
                # bool(x) in a selection condition: same truth value as x
                return const(bool(y.a[1][0].a[0])) if y.a[1][0].op == "const" else y.a[1][0]
            if y.op == "bool":
                vals = list(y.a[1])
                if y.a[0] == "and":
                    if any(v.op == "const" and not v.a[0] for v in vals):
                        return const(False)
                    vals = [v for v in vals if v.op != "const"]
                else:
                    if any(v.op == "const" and v.a[0] for v in vals):
                        return const(True)
                    vals = [v for v in vals if v.op != "const"]
                if not vals:
                    return const(y.a[0] == "and")
                if len(vals) == 1:
                    return vals[0]
                return T("bool", (y.a[0], tuple(vals)))
            return y
        if isinstance(x, tuple):
            new = tuple(go(e) for e in x)
            return x if all(n is o for n, o in zip(new, x)) else new
        return x
    return go(t)


_REPO: list = []
CONFIRMED_FAMILIES = {"AsynchronousSystemTrapsReason", "BscAccessFlags", "BscChangeableFlags", "BscOpenFlags", "CallstackFlag",
                      "FlockOperation", "KperfTiState", "RtldFlag", "SamplerAction", "SocketMsgFlags", "StatFlags", "ThreadState",
                      "VmProtection"}


def residual_of(conds, elem: T, value: int, name: str) -> Residual:
    """Conjunction of (cond, polarity) after substituting the member; at most one non-constant conjunct is supported."""
    rest = []
    for c, pol in conds:
        r = pe(c, elem, value, name)
        if r.op == "const":
            if bool(r.a[0]) != pol:
                return Residual("false")
            continue
        rest.append((r, pol))
    if not rest:
        return Residual("true")
    if len(rest) > 1:
        # "the word is not zero" adds nothing to a positive test of one of its bits (an early `if word == 0: return ...`
        # followed by the bit loop)
        def nonzero_of(r_, p_):
            while r_.op == "not":
                r_, p_ = r_.a[0], not p_
            if r_.op == "cmp" and r_.a[0] in ("==", "!=") and const(0) in (r_.a[1], r_.a[2]):
                x = r_.a[1] if r_.a[2] == const(0) else r_.a[2]
                return x if (r_.a[0] == "!=") == p_ else None
            return r_ if p_ and r_.op in ("param", "attr", "sub", "bound") else None

        def bit_word(r_, p_):
            while r_.op == "not":
                r_, p_ = r_.a[0], not p_
            if p_ and r_.op == "bin" and r_.a[0] == "&":
                return {r_.a[1], r_.a[2]}
            return set()
        words = set()
        for r_, p_ in rest:
            words |= bit_word(r_, p_)
        rest = [(r_, p_) for r_, p_ in rest if not (nonzero_of(r_, p_) is not None and nonzero_of(r_, p_) in words)]
    if len(rest) > 1:
        # "the word is above c" (the negation of an early `if word <= c: break`) adds nothing to a positive test of a bit
        # above c of the same word
        def above(r_, p_):
            while r_.op == "not":
                r_, p_ = r_.a[0], not p_
            if r_.op == "cmp" and r_.a[2].op == "const" and isinstance(r_.a[2].a[0], int):
                if (r_.a[0] == "<=" and not p_) or (r_.a[0] == ">" and p_):
                    return r_.a[1], r_.a[2].a[0]
                if (r_.a[0] == "<" and not p_) or (r_.a[0] == ">=" and p_):
                    return r_.a[1], r_.a[2].a[0] - 1
            if r_.op == "cmp" and r_.a[1].op == "const" and isinstance(r_.a[1].a[0], int):
                # the constant on the left: `c > W` false is `W >= c`
                if (r_.a[0] == ">=" and not p_) or (r_.a[0] == "<" and p_):
                    return r_.a[2], r_.a[1].a[0]
                if (r_.a[0] == ">" and not p_) or (r_.a[0] == "<=" and p_):
                    return r_.a[2], r_.a[1].a[0] - 1
            return None
        tests = []
        for r_, p_ in rest:
            x = r_
            while x.op == "not":
                x, p_ = x.a[0], not p_
            if p_ and x.op == "bin" and x.a[0] == "&":
                for w_, m_ in ((x.a[1], x.a[2]), (x.a[2], x.a[1])):
                    if m_.op == "const" and isinstance(m_.a[0], int) and m_.a[0] > 0:
                        tests.append((w_, m_.a[0] & -m_.a[0]))
        rest = [(r_, p_) for r_, p_ in rest
                if not (above(r_, p_) is not None and any(w_ == above(r_, p_)[0] and low > above(r_, p_)[1] for w_, low in tests))]
    if len(rest) > 1:
        # several conditions remain.  A necessary condition can still be judged: the word that consists of exactly this
        # member's value must show the member - evaluate the conditions for that word
        params = {x for r_, _ in rest for x in sym.walk(r_) if x.op == "param"}
        if len(params) == 1 and value:
            w_ = next(iter(params))
            vals = [(pe(sym.subst(r_, {w_: const(value)}), elem, value, name), p_) for r_, p_ in rest]
            if all(v_.op == "const" for v_, _ in vals) and not all(bool(v_.a[0]) == p_ for v_, p_ in vals):
                return Residual("self-miss")
        return Residual("unknown")
    r, pol = rest[0]
    # not (x) / bool(x) / x != 0 / x == 0 around a bit test: the same test, possibly with the opposite polarity
    while True:
        if r.op == "not":
            r, pol = r.a[0], not pol
        elif r.op == "call" and r.a[0] == T("builtin", ("bool",)) and len(r.a[1]) == 1 and not r.a[2]:
            r = r.a[1][0]
        elif r.op == "cmp" and r.a[0] in ("!=", "==", ">") and const(0) in (r.a[1], r.a[2]) and \
                (r.a[1] if r.a[2] == const(0) else r.a[2]).op == "bin" and (r.a[0] != ">" or r.a[2] == const(0)):
            inner = r.a[1] if r.a[2] == const(0) else r.a[2]
            r, pol = inner, (pol if r.a[0] in ("!=", ">") else not pol)
        else:
            break
    if sym.contains(r, elem):
        return Residual("unknown")
    # a loop-carried word is the word itself for this member only if the loop does nothing to it but clear the bits of the
    # members it names, and no other member shares a bit with this one
    for w_ in sym.walk(r):
        if w_.op == "widen":
            cw = _cleared_word(w_, _REPO[0], values=True) if _REPO else None
            if cw is None or any(v_ != value and v_ & value for v_ in cw[1]):
                return Residual("unknown")
    # word & c   (either order)
    if r.op == "bin" and r.a[0] == "&" and pol:
        l, rr = r.a[1], r.a[2]
        if l.op == "const" and isinstance(l.a[0], int):
            return Residual("bit", c=l.a[0], word=rr) if l.a[0] else Residual("false")
        if rr.op == "const" and isinstance(rr.a[0], int):
            return Residual("bit", c=rr.a[0], word=l) if rr.a[0] else Residual("false")
    # (word & MASK) == c
    if r.op == "cmp" and r.a[0] == "==" and pol:
        l, rr = r.a[1], r.a[2]
        if rr.op != "const":
            l, rr = rr, l
        if rr.op == "const" and l.op == "bin" and l.a[0] == "&":
            a, b = l.a[1], l.a[2]
            if b.op != "const":
                a, b = b, a
            if b.op == "const" and isinstance(b.a[0], int) and isinstance(rr.a[0], int):
                return Residual("field", c=rr.a[0], mask=b.a[0], word=a)
        if rr.op == "const" and isinstance(rr.a[0], int) and not sym.contains(l, elem):
            return Residual("whole", c=rr.a[0], word=l)
    return Residual("unknown")


# ------------------------------------------------------------------ check
def check(repo: Repo, run: Run) -> None:
    take_over(run, "c09", "C09", repo, lambda o: o["rule"] == "R1" and (o.get("facts") or {}).get("symbolic"), "R0",
              "the word whose bits are named", "the names shown at a position stand for the bits of the argument at that position: "
              "decoded from another argument's word they are the names of bits that word has, not of the bits set in the value", 30)
    take_over(run, "c20", "C20", repo, lambda o: o["rule"] == "R1" and o["construct"] == "pid/protection rendered whenever present",
              "R0", "protections of a page fault shown whenever recorded", "the protections of the nested record are a flag word "
              "shown by name: hidden for pid 0 the set bits with a declared name are not shown", 1)
    interp = sym.Interp(repo)
    _REPO[:] = [repo]
    # ---------------- R1 Darwin values
    n_known = n_unknown = 0
    unknown = []
    for ci in repo.enum_classes():
        if not ci.module.name.startswith(TH):
            continue
        for name, val in ci.members:
            if name in darwin.ALL:
                n_known += 1
                if not isinstance(val, int):
                    # the member's value is not a number this analysis can evaluate.  Taken from a module outside the package
                    # (`MSG_EOR = socket.MSG_EOR`) it is whatever the machine running the tool defines: reported.  Computed
                    # inside the package in a way that is not followed: undecided.
                    ext = None
                    for st_ in ci.node.body:
                        if isinstance(st_, ast.Assign) and any(isinstance(t_, ast.Name) and t_.id == name for t_ in st_.targets):
                            for x in ast.walk(st_.value):
                                if isinstance(x, (ast.Attribute, ast.Name)) and isinstance(getattr(x, "ctx", None), ast.Load):
                                    dn = repo.dotted(ci.module, x)
                                    if dn and "." in dn and not dn.startswith("pykdebugparser.") and (dn.split(".")[0] in set(ci.module.imports.values()) | set(ci.module.imports)):
                                        ext = dn
                    if ext is None:
                        run.floor_failures.append(f"C11/R1: the value of {ci.name}.{name} is computed in a way this analysis does not "
                                                  f"evaluate: whether it is Darwin's {darwin.ALL[name]:#x} is not decided")
                        continue
                    run.ob("R1", ci.module.name, ci.name, name, False,
                           f"{ci.name}.{name} is not given as a number (its value is computed or imported): the names of a flag word "
                           f"must carry Darwin's values ({darwin.HEADER_OF[name]}: {darwin.ALL[name]:#x}) on every host",
                           facts={"header": darwin.HEADER_OF[name]}, line=ci.node.lineno)
                    continue
                ok = val == darwin.ALL[name]
                run.ob("R1", ci.module.name, ci.name, name, ok,
                       "" if ok else f"{ci.name}.{name} = {val:#x} but Darwin's {darwin.HEADER_OF[name]} defines {darwin.ALL[name]:#x}",
                       facts={"value": val, "header": darwin.HEADER_OF[name]}, line=ci.node.lineno)
            else:
                n_unknown += 1
                unknown.append(f"{ci.name}.{name}")
    for cname in ("S_IFMT",):
        bsd = repo.module("trace_handlers.bsd")
        cfound = repo.lookup(f"{bsd.name}.{cname}")
        if cfound and cfound[0] == "const":
            v = consteval.evaluate(repo, cfound[1], cfound[2])
            run.ob("R1", bsd.name, "constants", cname, v == darwin.ALL[cname],
                   f"{cname} = {v!r} but Darwin defines {darwin.ALL[cname]:#o}", facts={"value": v})
    run.analysed.update({"enum_members_with_reference": n_known, "enum_members_without_reference": n_unknown})
    run.floor("R1", "enum members compared with the Darwin table", n_known, 120)

    # ---------------- R6 decoding a word is a pure function of the word: no memo shared between families / calls
    n_helpers = 0
    for mod in repo.modules.values():
        if not mod.name.startswith(TH):
            continue
        for fname, fnode in mod.functions.items():
            rec = interp.run(mod, fnode)
            selects = any(lr.kind == "comp" and lr.term is not None and any(
                x.op == "attr" and x.a[1] == "value" and x.a[0].op == "elem" for c in lr.term.a[2][0][2] for x in sym.walk(c))
                for lr in rec.loops.values())
            if not selects:
                continue
            n_helpers += 1
            bad = []
            for e in rec.effects:
                root = sym.root_of(e.path if e.path is not None else e.base) if (e.path is not None or e.base is not None) else None
                if root is not None and (root.op == "default" or (root.op == "global" and root.a[0].startswith("pykdebugparser."))):
                    bad.append((e, root))
            run.ob("R6", mod.name, fname, "flag decoding keeps no state between calls", not bad,
                   "" if not bad else
                   f"{bad[0][0].func.rsplit('.', 1)[-1]} stores into {sym.pretty(bad[0][1])[:40]} (shared by every call"
                   + (" and every decoder built from this factory" if "<locals>" in bad[0][0].func else "")
                   + "): the names shown for a word depend on what was decoded before, not only on the bits set",
                   line=bad[0][0].lineno if bad else fnode.lineno)
    run.floor("R6", "flag-selection helper functions", n_helpers, 10)

    # ---------------- R2-R4 selection sites
    deferred: List[str] = []
    sites = find_sites(repo, interp)
    by_enum: Dict[str, List[Site]] = {}
    n_sites = 0
    for s in sites:
        es = enum_source(repo, s.source)
        if es is None and _derived_rows(repo, s):
            es = enum_source(repo, s.source)
        if es is None:
            continue
        s.enum, s.yielded, s.how = es
        # only sites that select by looking at the member's value
        if not any(any(sym.contains(c, T("attr", (s.elem, "value"))) for c, _ in conds) for conds, _ in s.selections):
            continue
        n_sites += 1
        by_enum.setdefault(s.enum.qualname + "@" + s.scope, []).append(s)
    # members appended one by one under their own conditions (a loop over a table of rows that the interpreter unrolled, a
    # chain of ifs): each append is a selection of that one member
    for mod in repo.modules.values():
        if not mod.name.startswith(TH):
            continue
        for fname, fnode in mod.functions.items():
            frec = interp.run(mod, fnode)
            per_enum: Dict[str, List[Site]] = {}
            for e in frec.effects:
                if e.kind == "mut-call" and e.key in ("append", "add") and len(e.args) == 1 and e.args[0].op == "enum" \
                        and not e.loops and e.func.rsplit(".", 1)[-1] == fname:
                    f_ = repo.lookup(e.args[0].a[0])
                    if not f_ or f_[0] != "class":
                        continue
                    ci_ = f_[2]
                    key_ = ci_.qualname + "@" + fname
                    if key_ in by_enum:
                        continue
                    st_ = Site(fname, mod.name, e.lineno, T("tuple", ((e.args[0],),)), T("no-elem", ()),
                               [(list(e.pc), T("no-elem", ()))])
                    st_.enum, st_.yielded, st_.how = ci_, [(e.args[0].a[1], ci_.member_dict()[e.args[0].a[1]])], \
                        "members appended one by one"
                    per_enum.setdefault(key_, []).append(st_)
            for key_, sts in per_enum.items():
                if len(sts) >= 3:                      # a decoder of the family, not a single special case
                    by_enum[key_] = sts
                    n_sites += len(sts)
    run.analysed["selection_sites"] = n_sites
    run.floor("R2", "enum selection sites", n_sites, 10)
    # every flag family that had a recognised selection site on the reviewed tree and still exists must still have one: a
    # decoder rewritten into a form the rules do not follow (a walk over the set bits, a by-value table) is not judged
    have = {k.split("@")[0].rsplit(".", 1)[1] for k in by_enum}
    for fam in sorted(CONFIRMED_FAMILIES):
        exists = any(fam in m.classes and m.classes[fam].enum_kind for m in repo.modules.values() if m.name.startswith(TH))
        if exists and fam not in have:
            deferred.append(f"no recognised member-selection site for the flag family {fam} (it had one on the reviewed tree): its "
                            f"decoding is in a form these rules do not follow")

    # group sites per (function, enum): a function may cover an enum with several loops (open flags)
    for key, group in sorted(by_enum.items()):
        ci = group[0].enum
        scope = group[0].scope
        mod = group[0].module
        md = ci.member_dict()
        shown_bits = 0          # bits shown by bit tests
        field_masks = 0
        shown_members = set()
        mentioned = set()
        for s in group:
            for name, val in s.yielded:
                mentioned.add(name)
                residuals = []
                for conds, sel in s.selections:
                    if not (sel == s.elem or (sel.op == "attr" and sel.a[0] == s.elem)):
                        continue
                    residuals.append(residual_of(conds, s.elem, val, name))
                live = [r for r in residuals if r.kind != "false"]
                if any(r.kind == "unknown" for r in live):
                    # not a verdict: raised after the rules that can be judged independently of it
                    deferred.append(f"{scope}: selection condition for {ci.name}.{name} is outside the supported forms")
                    live = [r for r in live if r.kind != "unknown"]
                    shown_members.add(name)
                for r in live:
                    if r.kind == "bit":
                        ok = r.c == val and popcount(val) == 1
                        what = ""
                        if r.c != val:
                            what = (f"{ci.name}.{name} ({val:#x}) is shown when the word has bits {r.c:#x}: not the bits of "
                                    f"its own value")
                        elif popcount(val) != 1:
                            what = (f"{ci.name}.{name} = {val:#x} has {popcount(val)} bits but is shown whenever ANY of them "
                                    f"is set: the name appears without its value being present")
                        run.ob("R2", mod, scope, f"{ci.name}.{name}: bit test", ok, what,
                               facts={"residual": repr(r), "iteration": s.how}, line=s.line)
                        if ok:
                            shown_bits |= val
                            shown_members.add(name)
                    elif r.kind == "field":
                        ok = r.c == val and (val & ~r.mask) == 0
                        run.ob("R3", mod, scope, f"{ci.name}.{name}: field equality", ok,
                               "" if ok else f"{ci.name}.{name} ({val:#x}) is shown when (word & {r.mask:#x}) == {r.c:#x}",
                               facts={"residual": repr(r), "iteration": s.how}, line=s.line)
                        field_masks |= r.mask
                        if ok:
                            shown_members.add(name)
                    elif r.kind == "whole":
                        run.ob("R2", mod, scope, f"{ci.name}.{name}: bit test", False,
                               f"{ci.name}.{name} is shown only when the whole word equals {r.c:#x}: a word with several "
                               f"flags set shows none of their names", facts={"residual": f"word == {r.c:#x}"}, line=s.line)
                    elif r.kind == "self-miss":
                        run.ob("R2", mod, scope, f"{ci.name}.{name}: bit test", False,
                               f"{ci.name}.{name} ({val:#x}) is not shown for the word {val:#x} itself - the word that has exactly "
                               f"its bits set: an extra condition (a loop left early, a comparison with the whole word) hides the "
                               f"name of a set bit", facts={"iteration": s.how}, line=s.line, witness=f"word = {val:#x}")
                        shown_members.add(name)
                    elif r.kind == "true":
                        shown_members.add(name)
        # members chosen one by one (`E.A if word & E.A.value else ...`) instead of by iterating the class
        fnode = repo.module(mod.split(".", 1)[1]).functions.get(scope) if "." in mod else None
        if fnode is not None:
            frec = interp.run(repo.module(mod.split(".", 1)[1]), fnode)
            roots = [r.value for r in frec.returns if r.value is not None] + [a for e in frec.effects for a in e.args]
            seen_direct = set()
            def own_condition(c: T, outer) -> T:
                """Drop the conjuncts that only repeat "the earlier alternatives of this if/elif chain were not taken"."""
                parts = list(c.a[1]) if c.op == "bool" and c.a[0] == "and" else [c]
                keep = [p_ for p_ in parts if not (p_.op == "not" and p_.a[0] in outer)]
                if not keep:
                    return const(True)
                return keep[0] if len(keep) == 1 else T("bool", ("and", tuple(keep)))

            chains = []          # (ite node, conditions of the enclosing alternatives that were not taken)

            def visit(x, outer):
                if x.op == "ite":
                    chains.append((x, outer))
                    visit(x.a[1], ())
                    visit(x.a[2], outer + (own_condition(x.a[0], outer),))
                else:
                    for ch in sym.children(x):
                        visit(ch, ())
            for root in roots:
                visit(root, ())
            for x, outer in chains:
                if True:
                    if x.a[1].op != "enum" or x.a[1].a[0] != ci.qualname or x.a[1].a[1] in shown_members:
                        continue
                    name = x.a[1].a[1]
                    val = md.get(name)
                    r = residual_of([(own_condition(x.a[0], outer), True)], T("no-elem", ()), val, name)
                    if r.kind != "bit" or (name, r.c) in seen_direct:
                        continue
                    seen_direct.add((name, r.c))
                    ok = r.c == val and popcount(val) == 1
                    run.ob("R2", mod, scope, f"{ci.name}.{name}: bit test", ok,
                           "" if ok else f"{ci.name}.{name} ({val:#x}) is chosen when the word has bits {r.c:#x}: not exactly the "
                                         f"single bit of its own value",
                           facts={"residual": repr(r), "iteration": "member named directly"}, line=fnode.lineno)
                    if ok:
                        shown_bits |= val
                        shown_members.add(name)
        # members chosen by looking a field of the word up in a table of members: `MODES.get(word & 3, E.DEFAULT)`
        if fnode is not None:
            for c, keys, dflt in _member_table_lookups(repo, interp, frec):
                if not all(v.a[0] == ci.qualname for v in keys.values()):
                    continue
                kt = c.args[0]
                m = None
                if kt.op == "bin" and kt.a[0] == "&":
                    for x, y in ((kt.a[1], kt.a[2]), (kt.a[2], kt.a[1])):
                        if y.op == "const" and isinstance(y.a[0], int) and x.op == "param":
                            m = y.a[0]
                if m is not None:
                    field_masks |= m
                    for k, v in keys.items():
                        if (k & ~m) == 0:
                            shown_members.add(v.a[1])
                            # every declared name of a value the table has a row for is answered by that row
                            shown_members.update(nm_ for nm_, val_ in ci.members if val_ == k)
                    if dflt is not None and dflt.op == "enum":
                        shown_members.add(dflt.a[1])
                elif _cleared_word(kt, repo) is not None:
                    # judged by R9; the members are named by this function
                    shown_members.update(v.a[1] for v in keys.values())
                    shown_members.update(nm_ for nm_, val_ in ci.members if val_ in keys)
                    if dflt is not None and dflt.op == "enum":
                        shown_members.add(dflt.a[1])
        # the zero member (X_NONE = 0) has no bit of its own: a function that names it explicitly may show it exactly when
        # the word is zero - not whenever "no declared name matched", which also holds for words made of undeclared bits
        zero_names = [nm_ for nm_, v_ in ci.members if isinstance(v_, int) and not isinstance(v_, bool) and v_ == 0]
        if fnode is not None and zero_names and len(fnode.args.args) == 1:
            word = param(fnode.args.args[0].arg)
            for r_ in frec.returns:
                if r_.kind != "return" or r_.value is None:
                    continue
                for pc_, leaf in normal.guarded_leaves(normal.value_bool_to_ite(r_.value)):
                    zs = [z for z in zero_names if leaf in (T("list", ((T("enum", (ci.qualname, z)),),)),
                                                              T("tuple", ((T("enum", (ci.qualname, z)),),)),
                                                              T("enum", (ci.qualname, z)))]
                    if not zs:
                        continue
                    conds = [(c_, p_) for c_, p_ in tuple(r_.pc) + tuple(pc_)]
                    zero_tests = 0
                    other = []
                    for c_, p_ in conds:
                        atom, pol = render.norm_bool(c_)
                        eff = p_ if pol else not p_
                        if atom == word and not eff:
                            zero_tests += 1                               # `not word`
                        elif atom.op == "cmp" and {atom.a[1], atom.a[2]} == {word, const(0)} and \
                                ((atom.a[0] == "==" and eff) or (atom.a[0] == "!=" and not eff)):
                            zero_tests += 1                               # `word == 0`
                        else:
                            other.append(sym.pretty(c_ if p_ else T("not", (c_,)))[:70])
                    ok = zero_tests >= 1
                    run.ob("R8", mod, scope, f"{ci.name}.{zs[0]}: shown exactly when the word is zero", ok,
                           "" if ok else
                           f"{ci.name}.{zs[0]} (value 0) is returned when {' and '.join(other) or 'always'}, which is not `word == 0`: a "
                           f"non-zero word none of whose bits has a declared name is shown as {zs[0]}",
                           facts={"conditions": other}, line=fnode.lineno,
                           witness="a word with only an undeclared bit set, e.g. the highest bit")
        # coverage of the whole family
        md_ = dict(ci.members)
        for name, val in ci.members:
            if not isinstance(val, int) or val == 0 or name in shown_members:
                continue
            if any(md_.get(sn) == val for sn in shown_members):
                continue        # a second name for a value that is shown (an Enum alias is the same member)
            in_field = bool(val & field_masks)
            covered = (not in_field) and popcount(val) > 1 and (val & ~shown_bits) == 0
            is_mask_name = popcount(val) > 1 and not in_field and (val & ~shown_bits) == 0
            ok = covered or is_mask_name
            why = ""
            if not ok:
                if in_field:
                    why = (f"{ci.name}.{name} = {val:#o} is a value of the multi-bit field masked with {field_masks:#o} but the "
                           f"iteration never yields it ({group[0].how}): that value is shown without its name")
                else:
                    why = (f"{ci.name}.{name} = {val:#x} is declared but {scope} never tests it: the bit is set without its "
                           f"name being shown")
            run.ob("R4", mod, scope, f"{ci.name}.{name}: shown", ok, why,
                   facts={"value": val, "iteration": group[0].how, "tested": sorted(mentioned)}, line=group[0].line,
                   witness=None if ok else f"word = {val:#x}")

    # ---------------- R5 ioctl
    check_ioctl(repo, run, interp)
    check_packed_words(repo, run)
    check_value_lookups(repo, run, interp)
    if deferred:
        raise AnalysisError(deferred[0] + (f" (+{len(deferred) - 1} more)" if len(deferred) > 1 else ""))


def extract(t: T, req: T) -> Optional[Tuple[int, int]]:
    """(shift, mask) such that t == (req >> shift) & mask, for the forms the decoder may use."""
    if t == req:
        return (0, (1 << 64) - 1)
    if t.op == "bin" and t.a[0] == "&":
        l, r = t.a[1], t.a[2]
        if l.op == "const":
            l, r = r, l
        if r.op == "const" and isinstance(r.a[0], int):
            inner = extract(l, req)
            if inner is not None:
                return (inner[0], inner[1] & r.a[0])
    if t.op == "bin" and t.a[0] == ">>" and t.a[2].op == "const":
        inner = extract(t.a[1], req)
        if inner is not None:
            return (inner[0] + t.a[2].a[0], inner[1] >> t.a[2].a[0])
    return None


def _ci(t: T):
    return t.a[0] if t.op == "const" and isinstance(t.a[0], int) and not isinstance(t.a[0], bool) else None


def _is_word(t: T) -> bool:
    return t.op == "sub" and t.a[0].op == "attr" and t.a[0].a[1] == "values" and t.a[1].op == "const"


def _reach(t: T):
    """(word, m, s) such that t == (word & m) >> s, for chains of `>> k` and `& c` over a record word; None otherwise."""
    full = (1 << 64) - 1
    if _is_word(t):
        return t, full, 0
    if t.op == "bin" and t.a[0] == ">>" and _ci(t.a[2]) is not None and _ci(t.a[2]) >= 0:
        r = _reach(t.a[1])
        if r is not None:
            w, m, sh = r
            k = _ci(t.a[2])
            return w, m & ~((1 << min(sh + k, 64)) - 1) & full, sh + k
    if t.op == "bin" and t.a[0] == "&":
        for x, c in ((t.a[1], t.a[2]), (t.a[2], t.a[1])):
            if _ci(c) is not None and _ci(c) >= 0:
                r = _reach(x)
                if r is not None:
                    w, m, sh = r
                    return w, m & ((_ci(c) << sh) & full), sh
    return None


def _extraction(t: T):
    """(word, bit mask of the word that can reach the value) for shift / mask chains over a record word that are not the
    whole word; None otherwise."""
    r = _reach(t)
    if r is None or _is_word(t):
        return None
    return r[0], r[1]


def _cleared_word(t: T, repo: Repo, values: bool = False):
    """For a loop-carried word that the loop only ever narrows with `w &= ~<member>.value` (or leaves alone): (initial word,
    union of the bits the loop can clear).  None for any other update."""
    if t.op != "widen":
        return None
    name, lid, alts = t.a
    init = None
    clear = 0
    vals = []

    def is_self(x):
        return x.op == "widen" and x.a[0] == name and x.a[1] == lid

    def leaves(x):
        if x.op == "ite":
            yield from leaves(x.a[1])
            yield from leaves(x.a[2])
        else:
            yield x
    for i, alt in enumerate(alts):
        for leaf in leaves(alt):
            if is_self(leaf):
                continue
            if leaf.op == "bin" and leaf.a[0] == "&" and any(is_self(x) for x in leaf.a[1:]):
                other = leaf.a[2] if is_self(leaf.a[1]) else leaf.a[1]
                if other.op == "un" and other.a[0] == "~":
                    m = other.a[1]
                    if m.op == "const" and isinstance(m.a[0], int):
                        clear |= m.a[0]
                        vals.append(m.a[0])
                        continue
                    if m.op == "attr" and m.a[1] == "value" and m.a[0].op == "elem":
                        es = enum_source(repo, m.a[0].a[0])
                        if es is not None:
                            for _, v in es[1]:
                                clear |= v
                                vals.append(v)
                            continue
                return None
            if i == 0 and init is None:
                init = leaf
                continue
            return None
    if init is None:
        return None
    return (init, vals) if values else (init, clear)


def _member_table_lookups(repo: Repo, interp, rec):
    """[(call record, {int key: enum member term}, default term or None)] for `TABLE.get(key[, default])` calls on a
    module-level dict literal from integers to enum members."""
    out = []
    for c in rec.calls:
        f = c.func
        if not (f.op == "attr" and f.a[1] == "get" and f.a[0].op == "global" and 1 <= len(c.args) <= 2):
            continue
        found = repo.lookup(f.a[0].a[0])
        if not found or found[0] != "const" or not isinstance(found[2], ast.Dict):
            continue
        fr = sym._Frame(interp, found[1], None, None, sym.Record(), "module-constant", 0, ())
        table = fr.eval(found[2], sym.State({}, {}, ()))
        if table.op != "dict" or not table.a[0] or not all(k.op == "const" and isinstance(k.a[0], int) and v.op == "enum"
                                                            for k, v in table.a[0]):
            continue
        out.append((c, {k.a[0]: v for k, v in table.a[0]}, c.args[1] if len(c.args) == 2 else None))
    return out


def check_value_lookups(repo: Repo, run: Run, interp) -> None:
    """R9: a name chosen by looking a value up in a table of members (`MODES.get(key, default)`): the key has to be the
    field the members are values of.  A key that is "what is left of the word after the named bits were ticked off" still
    carries every bit that has no declared name, so the lookup misses and the default is shown for a non-default field."""
    n = 0
    for mod in repo.modules.values():
        if not mod.name.startswith(TH):
            continue
        for fname, fnode in mod.functions.items():
            if not any(isinstance(x, ast.Attribute) and x.attr == "get" for x in ast.walk(fnode)) or len(fnode.args.args) != 1:
                continue
            rec = interp.run(mod, fnode)
            word = param(fnode.args.args[0].arg)
            for c, keys, dflt_ in _member_table_lookups(repo, interp, rec):
                f = c.func
                cw = _cleared_word(c.args[0], repo)
                if cw is None or cw[0] != word:
                    continue
                n += 1
                init, clear = cw
                key_bits = 0
                for k in keys:
                    key_bits |= k
                survive = 0xffffffff & ~(clear | key_bits)
                dflt = c.args[1] if len(c.args) == 2 else const(None)
                ci = repo.lookup(next(iter(keys.values())).a[0])[2]
                md = ci.member_dict()
                wrong = [k for k in keys if k != 0 and not (dflt.op == "enum" and md.get(dflt.a[1]) == k)]
                ok = not (survive and wrong)
                wit = (wrong[0] | (survive & -survive)) if not ok else None
                run.ob("R9", mod.name, fname, f"{f.a[0].a[0].rsplit('.', 1)[1]}.get(<rest of the word>)", ok,
                       "" if ok else
                       f"{fname} looks the value up in {f.a[0].a[0].rsplit('.', 1)[1]} with what is left of the word after the loop "
                       f"cleared the bits it named ({clear:#x}); bits without a declared name (e.g. {survive & -survive:#x}) stay in "
                       f"the key, the lookup misses and {sym.pretty(dflt)} is shown although the field is "
                       f"{sym.pretty(keys[wrong[0]])}", line=c.lineno, witness=None if ok else f"word = {wit:#x}")
    run.analysed["value_lookups_by_cleared_word"] = n


def check_packed_words(repo: Repo, run: Run) -> None:
    """R7: when a decoder splits one record word into several fields, each field is computed from its own bits only.

    A field that is extracted with a shift but without its mask carries the neighbouring field's bits into the decoding
    (a zero protection is then not recognised as VM_PROT_NONE, an enum constructor sees a foreign value ...)."""
    D = decoders.Decoders(repo)
    n = 0
    for e in D.entries():
        d = D.decode(e)
        if d.ret is None or d.ret.op != "new":
            continue
        per: Dict[T, set] = {}
        for k, v in d.ret.a[1]:
            stack = [decoders.strip_conditions(v)]
            while stack:
                x = stack.pop()
                ex = _extraction(x)
                if ex:
                    per.setdefault(ex[0], set()).add((k, ex[1]))
                    continue
                stack.extend(sym.children(x))
        for w, fs in per.items():
            fs = sorted(fs)
            if len({m for _, m in fs}) < 2:
                continue
            n += 1
            # (two extractions inside one field - a word cut to its width and then tested bit by bit - are one field's business)
            ov = [(a, b) for i, a in enumerate(fs) for b in fs[i + 1:] if a[1] & b[1] and a[1] != b[1] and a[0] != b[0]]
            run.ob("R7", e.module.name, e.func_name, f"{e.key}: fields of {sym.pretty(w)}", not ov,
                   "" if not ov else
                   f"{e.key}: field `{ov[0][0][0]}` is computed from bits {ov[0][0][1]:#x} of {sym.pretty(w)} and field "
                   f"`{ov[0][1][0]}` from bits {ov[0][1][1]:#x}: the fields of the packed word overlap, so one of them is decoded "
                   f"together with its neighbour's bits",
                   facts={"fields": [(k, hex(m)) for k, m in fs]}, line=e.func.lineno,
                   witness=None if not ov else "a word whose overlapping bits are non-zero while the narrower field is zero")
    run.floor("R7", "decoders that split a record word into several fields", n, 4)
    # R7 (second half): a word that is cut to a width before its members are looked for must keep every bit a declared member
    # is made of - `serialize(mode & 0o77777)` can never show S_IFREG (0o100000)
    n_cut = 0
    for e in D.entries():
        d = D.decode(e)
        if d.ret is None or d.ret.op != "new":
            continue
        seen = set()

        def _elemval(t):
            return t.op == "attr" and t.a[1] == "value" and t.a[0].op == "elem" and isinstance(t.a[0].a[0], T)
        for k, v in d.ret.a[1]:
            cands = []          # (cut word term, member-value term, field mask or None)
            for x in sym.walk(v):
                if x.op == "bin" and x.a[0] == "&":
                    for o, other in ((x.a[1], x.a[2]), (x.a[2], x.a[1])):
                        if _elemval(other):
                            cands.append((o, other, None))
                elif x.op == "cmp" and x.a[0] in ("==", "!="):
                    for l, r in ((x.a[1], x.a[2]), (x.a[2], x.a[1])):
                        if _elemval(r) and l.op == "bin" and l.a[0] == "&":
                            for o, c in ((l.a[1], l.a[2]), (l.a[2], l.a[1])):
                                if _ci(c) is not None:
                                    cands.append((o, r, _ci(c)))
            for o, ev, fld in cands:
                r = _reach(o)
                if r is None or _is_word(o):
                    continue
                src = enum_source(repo, ev.a[0].a[0])
                if src is None:
                    continue
                ci, members, _how = src
                w, m, sh = r
                rng = m >> sh
                need = [(nm, val) for nm, val in members if isinstance(val, int) and val > 0 and (fld is None or val & ~fld == 0)]
                key = (k, w, rng, ci.name, fld)
                if key in seen:
                    continue
                seen.add(key)
                n_cut += 1
                lost = [(nm, val) for nm, val in need if val & ~rng]
                run.ob("R7", e.module.name, e.func_name,
                       f"{e.key}: {sym.pretty(w)} cut to {rng:#x} keeps every declared bit of {ci.name}"
                       + (f" in the field {fld:#x}" if fld is not None else ""), not lost,
                       "" if not lost else
                       f"{e.key}: field `{k}` looks for the members of {ci.name} in {sym.pretty(o)[:60]}, which keeps only the "
                       f"bits {rng:#x}; {lost[0][0]} = {lost[0][1]:#x} has a bit outside them and is never shown (or shown as "
                       f"another member)", line=e.func.lineno,
                       witness=None if not lost else f"a word whose field is {lost[0][1]:#x}")
    run.analysed["words_cut_before_member_selection"] = n_cut


def check_ioctl(repo: Repo, run: Run, interp) -> None:
    bsd = repo.module("trace_handlers.bsd")
    ci = repo.cls("trace_handlers.bsd", "BscIoctl")
    req = T("attr", (sym.param("self"), "request"))
    rec = interp.run(ci.module, ci.methods["__str__"], self_cls=ci)
    segs = render.flatten(rec.return_term())
    holes = []
    for _, flat in render.variants(segs):
        sh = render.parse_call(flat)
        if sh is None:
            raise AnalysisError("BscIoctl.__str__ is not call-shaped")
        for p, hs in enumerate(sh.depths):
            for (t, depth, q) in hs:
                if depth >= 2:
                    holes.append(t)
        break
    MOD = bsd.name
    if len(holes) != 4:
        raise AnalysisError(f"BscIoctl.__str__: expected the four _IOC(...) components, found {len(holes)}")
    params_t, group_t, number_t, length_t = holes
    want = {"number": (0, 0xff), "group": (8, 0xff), "length": (16, darwin.IOC["IOCPARM_MASK"])}
    got = {}
    g = group_t
    if g.op == "call" and g.a[0] == T("builtin", ("chr",)):
        g = g.a[1][0]
    for nm, t in (("number", number_t), ("group", g), ("length", length_t)):
        ex = extract(t, req)
        if ex is None:
            raise AnalysisError(f"BscIoctl.__str__: {nm} is not a shift/mask of the request word: {sym.pretty(t)}")
        got[nm] = ex
        ok = ex == want[nm]
        run.ob("R5", MOD, "BscIoctl.__str__", f"{nm} = (x >> {want[nm][0]}) & {want[nm][1]:#x}", ok,
               "" if ok else f"ioctl {nm} is decoded as (x >> {ex[0]}) & {ex[1]:#x}; _IOC packs it as "
                             f"(x >> {want[nm][0]}) & {want[nm][1]:#x}", facts={"derived": list(ex)}, line=ci.node.lineno)
    # direction
    if not (params_t.op == "sub" and params_t.a[0].op == "global"):
        raise AnalysisError(f"BscIoctl.__str__: direction is not a table lookup: {sym.pretty(params_t)}")
    ex = extract(params_t.a[1], req)
    if ex is None:
        raise AnalysisError("BscIoctl.__str__: direction key is not a mask of the request word")
    okd = ex == (0, darwin.IOC["IOC_DIRMASK"])
    run.ob("R5", MOD, "BscIoctl.__str__", "direction = x & IOC_DIRMASK (0xe0000000)", okd,
           "" if okd else f"ioctl direction is taken as (x >> {ex[0]}) & {ex[1]:#x}; Darwin's IOC_DIRMASK is 0xe0000000 - the mask "
                          f"overlaps the 13-bit length field (bits 16-28), so any request with length >= 0x1000 misses the table",
           facts={"derived": [ex[0], hex(ex[1])]}, line=ci.node.lineno,
           witness="request 0x90007801 (IOC_IN, length 0x1000): KeyError in __str__")
    got["direction"] = ex
    # disjoint + cover
    masks = [(m << s) & 0xffffffff for s, m in got.values()]
    disjoint = all(masks[i] & masks[j] == 0 for i in range(4) for j in range(i + 1, 4))
    union = 0
    for m in masks:
        union |= m
    run.ob("R5", MOD, "BscIoctl.__str__", "fields disjoint", disjoint,
           f"the four ioctl fields overlap: {[hex(m) for m in masks]}", nontrivial=False)
    run.ob("R5", MOD, "BscIoctl.__str__", "fields cover 32 bits", union == 0xffffffff,
           f"the four ioctl fields leave bits {0xffffffff ^ union:#x} undecoded", nontrivial=False)
    # direction table
    tbl_name = params_t.a[0].a[0].rsplit(".", 1)[-1]
    tfound = repo.lookup(params_t.a[0].a[0])
    tbl = consteval.evaluate(repo, tfound[1], tfound[2]) if tfound and tfound[0] == "const" else None
    if not isinstance(tbl, dict):
        raise AnalysisError(f"direction table {tbl_name} is not a dict literal")
    for key, names in ((darwin.IOC["IOC_VOID"], ("IOC_VOID",)), (darwin.IOC["IOC_OUT"], ("IOC_OUT",)),
                       (darwin.IOC["IOC_IN"], ("IOC_IN",)), (darwin.IOC["IOC_INOUT"], ("IOC_INOUT", "IOC_IN | IOC_OUT", "IOC_OUT | IOC_IN"))):
        ok = tbl.get(key) in names
        run.ob("R5", MOD, tbl_name, f"{key:#x} -> {names[0]}", ok,
               f"direction {key:#x} is named {tbl.get(key)!r}; Darwin: {names[0]}", facts={"value": tbl.get(key)})
    # the request word is START word 1 (position checked by C09); here: the field used is the rendered request
    run.ob("R5", MOD, "BscIoctl.__str__", "components decode the same word that is shown in hex", True, nontrivial=False)
