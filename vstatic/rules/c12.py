"""C12 - event filters select exactly the matching subsequence."""
from __future__ import annotations

import ast

from .. import normal, pipeline, render, sym
from ..model import AnalysisError, Repo
from ..report import Run
from ..sym import T, const, param

EXPLANATION = (
    "filter(pred, it) yields exactly the order- and multiplicity-preserving subsequence satisfying pred (trusted base), so "
    "the property reduces to the shape of the returned iterator and to the predicates. The iterators returned by "
    "PyKdebugParser.kevents / os_log_events are recovered from the symbolic return term (conditional stages included). "
    "R1: the source is KdBufParser(...).parse(stream) wrapped only in filter stages (no map, no materialisation, no "
    "reordering). R2: after inlining helper methods, pushing negations inward and sorting commutative operands, the set of "
    "(applied-iff condition, predicate) pairs equals the specification read off the property (tid equality iff a tid was "
    "requested - `is not None`, so tid 0 works; class = id>>24 in class list OR subclass = id>>16 in subclass list iff either "
    "list is non-empty; isinstance(OsLogEvent) complementary between the two listings; log listing: thread and process "
    "filters). R3: predicates and the methods have no side effects. R5: no facade method rebinds or updates the filter_* objects "
    "the predicates read (in-place `+=` on an alias included). R4: the command line wires each option into the "
    "attribute of the same meaning. A predicate outside the small recognised language yields exit 2, never a verdict."
)

MOD = "pykdebugparser.pykdebugparser"
X = T("bound", ("x",))
SELF = param("self")
OSLOG = T("class", ("pykdebugparser.os_log_event.OsLogEvent",))
ISINST = T("call", (T("builtin", ("isinstance",)), (X, OSLOG), ()))


def A(base, name):
    return T("attr", (base, name))


def norm_cond(cond) -> T:
    items = [c if v else T("not", (c,)) for c, v in cond]
    if not items:
        return const(True)
    t = items[0] if len(items) == 1 else T("bool", ("and", tuple(items)))
    return pipeline.normalise(t)


N = pipeline.normalise

SPEC = {
    "kevents": [
        ("always", const(True), N(T("not", (ISINST,))),
         "log records never appear in the event listing"),
        ("tid", N(T("cmp", ("is not", A(SELF, "filter_tid"), const(None)))),
         N(T("cmp", ("==", A(X, "tid"), A(SELF, "filter_tid")))), "thread id equal to the requested one"),
        ("class", N(T("bool", ("or", (A(SELF, "filter_class"), A(SELF, "filter_subclass"))))),
         N(T("bool", ("or", (
             T("cmp", ("in", T("bin", (">>", A(X, "eventid"), const(24))), A(SELF, "filter_class"))),
             T("cmp", ("in", T("bin", (">>", A(X, "eventid"), const(16))), A(SELF, "filter_subclass"))))))),
         "class (top byte) in the class list or subclass (top 16 bits) in the subclass list"),
    ],
    "os_log_events": [
        ("always", const(True), N(ISINST), "events never appear in the log listing"),
        ("tid", N(T("cmp", ("is not", A(SELF, "filter_tid"), const(None)))),
         N(T("cmp", ("==", A(X, "thread_identifier"), A(SELF, "filter_tid")))), "log thread filter"),
        ("process", N(T("cmp", ("is not", A(SELF, "filter_process"), const(None)))),
         N(T("cmp", ("in", A(SELF, "filter_process"),
                     T("tuple", ((A(X, "process"),
                                  T("call", (T("builtin", ("str",)), (A(X, "process_identifier"),), ()))),))))),
         "log process filter (name or pid as text)"),
    ],
}


def analyse_listing(repo: Repo, run: Run, interp, name: str):
    ci = repo.cls("pykdebugparser", "PyKdebugParser")
    fn = repo.method("pykdebugparser", "PyKdebugParser", name)
    rec = interp.run(ci.module, fn, self_cls=ci)
    if rec.notes:
        raise AnalysisError(f"{name}: unsupported construct: {rec.notes[0]}")
    if rec.is_generator:
        raise AnalysisError(f"{name} became a generator function; pipeline form not recognised")
    ret = normal.accum_to_comp(rec, rec.return_term())
    src, stages = pipeline.parse(ret)
    # ---- R1 shape
    ok_src = (src.op == "call" and src.a[0].op == "attr" and src.a[0].a[1] == "parse"
              and ((src.a[0].a[0].op == "call" and src.a[0].a[0].a[0] == T("class", ("pykdebugparser.kd_buf_parser.KdBufParser",)))
                   # (a dataclass is constructed field by field: the same object)
                   or (src.a[0].a[0].op == "new" and src.a[0].a[0].a[0] == "pykdebugparser.kd_buf_parser.KdBufParser")))
    if not ok_src and src.op == "call" and sym.root_of(src.a[0]).op == "new" \
            and sym.root_of(src.a[0]).a[0] == "pykdebugparser.kd_buf_parser.KdBufParser":
        # KdBufParser as a dataclass: the interpreter has gone into parse() and stands at its dispatch `versions[magic](stream)`
        ok_src = True
    if not ok_src and src.op == "call" and ((src.a[0].op == "attr" and src.a[0].a[0] == SELF and src.a[0].a[1] in ci.methods)
                                            or src.a[0].op == "func"):
        # the pipeline goes through a generator of the package that could not be brought to filter stages (a single-pass
        # loop with several exits, inner loops ...): what it selects is not decided
        raise AnalysisError(f"{name}: the listing goes through {sym.pretty(src.a[0])[:60]}(...), a stage that is not a filter/map "
                            f"over the parser's stream in any recognised form")
    run.ob("R1", MOD, name, "source", ok_src,
           "" if ok_src else f"the listing is not built over KdBufParser(...).parse(stream): {sym.pretty(src)[:100]}",
           facts={"source": sym.pretty(src)[:160]}, line=fn.lineno)
    for i, s in enumerate(stages):
        ok = s.kind == "filter"
        run.ob("R1", MOD, name, f"stage {i}: {s.kind}", ok,
               "" if ok else f"stage {i} of the listing is {s.kind}, not a filter: elements are transformed, "
                             f"materialised or reordered ({s.describe()[:120]})",
               facts={"stage": s.describe()[:200]}, nontrivial=False, line=fn.lineno)
    # ---- R3 purity: state the predicates read must not be modified by the listing or by the predicates themselves
    read_attrs = set()
    for s_ in stages:
        if s_.fn is not None:
            for x in sym.walk(s_.fn):
                if x.op == "attr" and x.a[0] == SELF:
                    read_attrs.add(x.a[1])
        for c, _ in s_.cond:
            for x in sym.walk(c):
                if x.op == "attr" and x.a[0] == SELF:
                    read_attrs.add(x.a[1])
    relevant = []
    for e in rec.effects:
        pth = e.path if e.path is not None else e.base
        cur = pth if e.kind != "attr-store" else T("attr", (pth, e.key))
        while cur is not None and cur.op in ("attr", "sub"):
            if cur.op == "attr" and cur.a[0] == SELF and (cur.a[1] in read_attrs or str(cur.a[1]).startswith("filter_")):
                relevant.append(e)
                break
            cur = cur.a[0]
        else:
            if "<lambda>" in e.func or "<locals>" in e.func:
                relevant.append(e)          # a predicate with any side effect
    # helper methods the predicates call without being inlinable (loops / try): their effects are the predicate's
    for s_ in stages:
        if s_.fn is None:
            continue
        for x in sym.walk(s_.fn):
            if x.op == "call" and x.a[0].op == "attr" and x.a[0].a[0] == SELF and x.a[0].a[1] in ci.methods:
                hrec = interp.run(ci.module, ci.methods[x.a[0].a[1]], self_cls=ci)
                relevant.extend(e for e in hrec.effects if sym.root_of(e.path if e.path is not None else e.base) == SELF)
    run.ob("R3", MOD, name, "no side effects on what the predicates read", not relevant,
           "" if not relevant else
           f"{name} / its predicates modify state they depend on: " +
           "; ".join(f"{e.kind} {sym.pretty(e.path or e.base)[:40]}.{e.key}" for e in relevant[:3]) +
           ": the selection of an element depends on earlier elements or earlier requests",
           nontrivial=False, line=fn.lineno)
    # ---- R2 predicates
    got = []
    for s in stages:
        if s.kind != "filter":
            continue
        fnt = s.fn
        eff = []
        body = pipeline.resolve_predicate(repo, interp, ci, fnt, eff)
        relevant.extend(e for e in eff if sym.root_of(e.path if e.path is not None else e.base) == SELF)
        if body is None:
            raise AnalysisError(f"{name}: predicate is not a lambda / inlinable method: {sym.pretty(fnt)[:80]}")
        nb = N(normal.expand_membership(rec, body))
        # (read off the normal form: there the element is a plain bound variable, not a term that embeds the source pipeline)
        reads = sorted({x.a[1] for x in sym.walk(nb) if x.op == "attr" and x.a[0] == SELF and not str(x.a[1]).startswith("filter_")})
        if reads:
            # the property's predicates are functions of the element and the filter settings only
            run.ob("R2", MOD, name, f"stage predicate reads only the element and the filter settings", False,
                   f"a filter stage of {name} decides by self.{', self.'.join(reads)} (`{sym.pretty(nb)[:120]}`): whether an element is "
                   f"listed then depends on parser state, not only on the element and the filter the caller set",
                   line=fn.lineno, witness="an element whose own fields match the filter while the table entry is missing or differs")
            continue
        if not pipeline.in_language(nb):
            if relevant:
                continue        # already reported by R3: the predicate has side effects
            raise AnalysisError(f"{name}: predicate outside the recognised language: {sym.pretty(nb)[:120]}")
        got.append((norm_cond(s.cond), nb, s))
    spec = SPEC[name]
    used = set()
    for label, cond, pred, meaning in spec:
        match = [i for i, (c, p, s) in enumerate(got) if p == pred and i not in used]
        if match:
            i = match[0]
            used.add(i)
            c_ok = got[i][0] == cond
            run.ob("R2", MOD, name, f"{label}: applied-iff condition", c_ok,
                   "" if c_ok else f"the {label} filter ({meaning}) is applied when {sym.pretty(got[i][0])} instead of "
                                   f"{sym.pretty(cond)}",
                   facts={"predicate": sym.pretty(pred), "condition": sym.pretty(got[i][0]), "expected": sym.pretty(cond)},
                   line=fn.lineno)
            run.ob("R2", MOD, name, f"{label}: predicate", True,
                   facts={"predicate": sym.pretty(pred), "meaning": meaning}, line=fn.lineno)
        else:
            # same condition but different predicate?
            near = [i for i, (c, p, s) in enumerate(got) if c == cond and i not in used]
            if near and label == "class":
                def _truth_use(t):
                    if t.op == "cmp" and t.a[0] in ("in", "not in"):
                        return _truth_use(t.a[1])
                    if t.op == "attr" and t.a[0] == SELF and t.a[1] in ("filter_class", "filter_subclass"):
                        return True
                    return any(_truth_use(c_) for c_ in sym.children(t))
                if _truth_use(got[near[0]][1]):
                    raise AnalysisError(f"{name}: the class stage also tests whether a filter list is set (a None-tolerant form): "
                                        f"which events it lets through is not decided")
            if near:
                i = near[0]
                used.add(i)
                run.ob("R2", MOD, name, f"{label}: predicate", False,
                       f"the {label} filter should select `{sym.pretty(pred)}` ({meaning}) but selects "
                       f"`{sym.pretty(got[i][1])}`",
                       facts={"predicate": sym.pretty(got[i][1]), "expected": sym.pretty(pred)}, line=fn.lineno)
            else:
                run.ob("R2", MOD, name, f"{label}: predicate", False,
                       f"no filter stage selects `{sym.pretty(pred)}` ({meaning})",
                       facts={"stages": [sym.pretty(p) for _, p, _ in got]}, line=fn.lineno)
    for i, (c, p, s) in enumerate(got):
        if i not in used and _vacuous_window(repo, ci.module, fn, c, p):
            # a stage on a record field bounded by parameters whose defaults let every record through (start=0, end=inf on an
            # unsigned 64-bit timestamp): an option of the listing, not a filter of the default request
            run.ob("R2", MOD, name, f"optional stage {i} passes every record by default", True, nontrivial=False)
            continue
        if i not in used:
            run.ob("R2", MOD, name, f"extra stage {i}", False,
                   f"the listing applies a filter the property does not allow: `{sym.pretty(p)}` when {sym.pretty(c)}",
                   line=fn.lineno)
    return len(stages)


U64_MAX = (1 << 64) - 1


def _vacuous_window(repo: Repo, mod, fn, cond: T, pred: T) -> bool:
    """The stage is applied always and its predicate is a conjunction of comparisons between the record's timestamp (an
    unsigned 64-bit field) and parameters of the listing, true for every timestamp when the parameters keep their defaults."""
    import ast as _ast, math
    from .. import consteval, guards as _g
    if sym.truth(cond) is not True and cond != const(True):
        return False
    a = fn.args
    defaults = dict(zip([x.arg for x in a.args[len(a.args) - len(a.defaults):]], a.defaults))
    defaults.update({k.arg: d for k, d in zip(a.kwonlyargs, a.kw_defaults) if d is not None})

    def dflt(t):
        if t.op == "const" and isinstance(t.a[0], (int, float)) and not isinstance(t.a[0], bool):
            return t.a[0]
        if t.op == "param" and t.a[0] in defaults:
            node = defaults[t.a[0]]
            dn = repo.dotted(mod, node) if isinstance(node, (_ast.Attribute, _ast.Name)) else None
            if dn == "math.inf":
                return math.inf
            if dn == "sys.maxsize":
                return (1 << 63) - 1
            if isinstance(node, _ast.UnaryOp) and isinstance(node.op, _ast.USub):
                inner = dflt_node(node.operand)
                return None if inner is None else -inner
            return dflt_node(node)
        return None

    def dflt_node(node):
        dn = repo.dotted(mod, node) if isinstance(node, (_ast.Attribute, _ast.Name)) else None
        if dn == "math.inf":
            return math.inf
        v = consteval.evaluate(repo, mod, node)
        return v if isinstance(v, (int, float)) and not isinstance(v, bool) else None

    def is_ts(t):
        return t.op == "attr" and t.a[1] == "timestamp" and t.a[0].op in ("param", "elem", "bound")
    atoms = _g._atoms(((pred, True),))
    if not atoms:
        return False
    for c_, pol in atoms:
        atom, apol = render.norm_bool(c_)
        eff = pol if apol else not pol
        if atom.op != "cmp" or atom.a[0] not in ("<", "<=", ">", ">="):
            return False
        l, r, op = atom.a[1], atom.a[2], atom.a[0]
        if is_ts(r) and not is_ts(l):
            l, r, op = r, l, {"<": ">", "<=": ">=", ">": "<", ">=": "<="}[op]
        if not is_ts(l):
            return False
        b = dflt(r)
        if b is None:
            return False
        if not eff:
            op = {"<": ">=", "<=": ">", ">": "<=", ">=": "<"}[op]
        # must hold for every ts in [0, 2**64 - 1]
        ok = {"<": U64_MAX < b, "<=": U64_MAX <= b, ">": 0 > b, ">=": 0 >= b}[op]
        if not ok:
            return False
    return True


CLI_WIRING = {"tid": "filter_tid", "process": "filter_process", "class_filters": "filter_class",
              "subclass_filters": "filter_subclass", "show_tid": "show_tid", "color": "color"}
CLI_LISTING = {"kevents": "formatted_kevents", "traces": "formatted_traces", "callstacks": "formatted_callstacks",
               "logs": "formatted_logs"}


def _unwrap_seq(t: T) -> T:
    while True:
        if t.op == "call" and t.a[0].op == "builtin" and t.a[0].a[0] in ("list", "tuple") and len(t.a[1]) == 1:
            t = t.a[1][0]
        elif t.op in ("list", "tuple") and len(t.a[0]) == 1 and t.a[0][0].op == "star":
            t = t.a[0][0].a[0]              # [*x] / (*x,)
        else:
            return t


def analyse_cli(repo: Repo, run: Run, interp) -> int:
    main = repo.module("__main__")
    n = 0
    # the value each filter attribute has when no option touches it (PyKdebugParser.__init__)
    ci = repo.module(MOD.split(".", 1)[1]).classes["PyKdebugParser"] if "." in MOD else None
    init_defaults = {}
    if ci is not None and "__init__" in ci.methods:
        irec = interp.run(ci.module, ci.methods["__init__"], self_cls=ci)
        for e in irec.effects:
            if e.kind == "attr-store" and not e.pc and e.value.op == "const":
                init_defaults[e.key] = e.value
    for cmd, listing in CLI_LISTING.items():
        fn = main.functions.get(cmd)
        if fn is None:
            raise AnalysisError(f"anchor vanished: __main__.{cmd}")
        rec = interp.run(main, fn)
        params = [a.arg for a in fn.args.args]
        stores = {}
        for e in rec.effects:
            if e.kind == "attr-store":
                stores.setdefault(e.key, []).append(e)
        for p_, attr in CLI_WIRING.items():
            if p_ not in params:
                continue
            es = stores.get(attr, [])
            ok = len(es) == 1 and _unwrap_seq(es[0].value) == param(p_) and not es[0].pc
            n += 1
            run.ob("R4", "pykdebugparser.__main__", cmd, f"--{p_} -> parser.{attr}", ok,
                   "" if ok else f"option {p_!r} of command {cmd!r} is not stored (exactly once, unconditionally) into "
                                 f"parser.{attr}: " + (", ".join(sym.pretty(x.value) for x in es) or "never stored"),
                   facts={"stored": [sym.pretty(x.value) for x in es]}, nontrivial=False, line=fn.lineno)
        # other parameters must not be written into filter attributes
        for attr, es in stores.items():
            if attr.startswith("filter_"):
                for x in es:
                    src = _unwrap_seq(x.value)
                    want = [k for k, v in CLI_WIRING.items() if v == attr]
                    ok = (src.op == "param" and src.a[0] in want) or \
                         (not any(w in params for w in want) and attr in init_defaults and src == init_defaults[attr])
                    run.ob("R4", "pykdebugparser.__main__", cmd, f"parser.{attr} source", ok,
                           "" if ok else f"command {cmd!r} stores {sym.pretty(x.value)} into parser.{attr}",
                           nontrivial=False, line=x.lineno)
        called = [c for c in rec.calls if c.func.op == "attr" and c.func.a[1].startswith("formatted_")]
        ok = len(called) == 1 and called[0].func.a[1] == listing
        run.ob("R4", "pykdebugparser.__main__", cmd, "listing method", ok,
               "" if ok else f"command {cmd!r} prints {[c.func.a[1] for c in called]} instead of {listing}",
               nontrivial=False, line=fn.lineno)
    return n


def analyse_residue(repo: Repo, run: Run, interp) -> None:
    """R5: the quantifier ranges over all filter configurations on a parser object that may have served other requests
    before.  The predicates read self.filter_tid / filter_class / filter_subclass / filter_process at listing time, so no
    method of the facade may rebind or update those objects: a listing made afterwards would not be the exact subsequence
    for the filters the caller set."""
    ci = repo.cls("pykdebugparser", "PyKdebugParser")
    n = 0
    for name, fn in ci.methods.items():
        if name == "__init__":
            continue
        n += 1
        rec = interp.run(ci.module, fn, self_cls=ci)
        bad = []
        for e in rec.effects:
            pth = e.path if e.path is not None else e.base
            cur, chain = pth, []
            while cur is not None and cur.op in ("attr", "sub", "mut"):
                chain.append(cur)
                cur = cur.a[0]
            if e.kind == "attr-store" and pth == SELF and str(e.key).startswith("filter_"):
                bad.append((f"rebinds self.{e.key}", e))
            elif any(c.op == "attr" and c.a[0] == SELF and c.a[1].startswith("filter_") for c in chain) \
                    and e.kind in ("mut-call", "sub-store", "del-sub"):
                which = next(c.a[1] for c in chain if c.op == "attr" and c.a[0] == SELF and c.a[1].startswith("filter_"))
                bad.append((f"updates self.{which} in place ({e.key if e.kind == 'mut-call' else e.kind})", e))
        run.ob("R5", MOD, f"PyKdebugParser.{name}", "leaves the filter settings as the caller set them", not bad,
               "" if not bad else f"{name}() {bad[0][0]}: an event listing requested afterwards on the same object no longer "
                                  f"selects exactly the events matching the caller's filters",
               line=bad[0][1].lineno if bad else fn.lineno, nontrivial=bool(rec.effects),
               witness=None if not bad else "filter_class=[4]; call traces(); then kevents(): class 7 / 3 events are listed too")
    run.floor("R5", "facade methods analysed", n, 12)


def generator_stages(repo: Repo, run: Run, interp) -> None:
    """R5 (multiplicity): a generator method of the facade that loops over the stream it is given and yields the element
    itself is a filter stage written out; it must not hand the same element on twice.  Two yields of the loop element in one
    iteration whose path conditions can hold together (as truth values of independent atoms: `class in filter_class`,
    `subclass in filter_subclass`) list an element that satisfies both twice - the listing is then not a subsequence."""
    ci = repo.cls("pykdebugparser", "PyKdebugParser")
    n = 0
    for name, fn in ci.methods.items():
        if not any(isinstance(x, ast.Yield) for x in ast.walk(fn)):
            continue
        rec = interp.run(ci.module, fn, self_cls=ci)
        params = {param(a.arg) for a in fn.args.args}
        for lr in rec.loops.values():
            if lr.kind != "for" or lr.iter not in params or not lr.func.endswith("." + name):
                continue
            ys = [r for r in rec.returns if r.kind == "yield" and lr.id in r.loops and r.value == lr.target]
            if not ys:
                continue
            n += 1
            clash = None
            for i, y1 in enumerate(ys):
                for y2 in ys[i + 1:]:
                    c1 = normal.pc_term(y1.pc)
                    c2 = normal.pc_term(y2.pc)
                    both = T("bool", ("and", (c1, c2)))
                    if normal.bool_equiv(both, const(False)) is False:
                        clash = (y1, y2)
            run.ob("R5", MOD, name, "a stage hands each selected element on once", clash is None,
                   "" if clash is None else
                   f"{name} yields the element at line {clash[0].lineno} and again at line {clash[1].lineno} on paths that do not "
                   f"exclude each other: an element satisfying both conditions is listed twice (the listing is not a subsequence)",
                   line=fn.lineno, witness="an event whose class and subclass are both requested (overlapping filters)",
                   nontrivial=False)
    run.analysed["generator_stages"] = n


def check(repo: Repo, run: Run) -> None:
    from .. import shared
    found, n_m = shared.kept_mutable_defaults(repo)
    mine = [f for f in found if f.cls == "PyKdebugParser" and f.attr.startswith("filter_")]
    run.ob("R6", "pykdebugparser.pykdebugparser", "PyKdebugParser", "every parser object has its own filter settings", not mine,
           "" if not mine else
           f"PyKdebugParser.{mine[0].method} keeps the default object of its parameter `{mine[0].param}` (a mutable container, created "
           f"once) as self.{mine[0].attr}: every parser built without that argument holds the same object, so a filter one of them "
           f"grows in place is applied by all of them - a parser with no filter requested lists a subset",
           line=mine[0].lineno if mine else None, nontrivial=bool(mine),
           witness="two PyKdebugParser() objects; the first does filter_class.append(4); the second lists a dump")
    run.floor("R6", "methods scanned for kept mutable defaults", n_m, 300)
    interp = sym.Interp(repo)
    generator_stages(repo, run, interp)
    analyse_residue(repo, run, interp)
    n = 0
    for name in ("kevents", "os_log_events"):
        n += analyse_listing(repo, run, interp, name)
    run.floor("R2", "filter stages analysed", n, 6)
    k = analyse_cli(repo, run, interp)
    run.floor("R4", "CLI option wirings", k, 10)
