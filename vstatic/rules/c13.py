"""C13 - trace filters commute with decoding and leave no residue in the parser."""
from __future__ import annotations

from typing import List, Optional, Tuple

from .. import normal, consteval, pipeline, render, sym
from ..model import AnalysisError, Repo
from ..report import Run, take_over
from ..sym import T, const, param

EXPLANATION = (
    "R1 (no residue): the effects of every PyKdebugParser method other than __init__ are enumerated by symbolic "
    "interpretation (aliases resolved); none may rebind or mutate in place any self.filter_* attribute. "
    "R2 (helper classes consumed, not reported): the iterator returned by traces() is recovered as a pipeline; every class "
    "the tool adds to the event filter on its own (found as conditional additions to the class list used by the event "
    "predicate, whether in place or through a local list) must be paired with a post-filter on the trace stream testing "
    "`first record's class != that class` under the same condition, every such post-filter must correspond to an added "
    "class, and the condition must contain `class not in filter_class` so requested classes are reported. "
    "R3: the helper conditions equal the specification (trace class iff any filter; file-system class iff any filter and BSD "
    "requested through the class list or any subclass with sc>>8 == BSD). R4: the process filter is a filter stage with the "
    "specified predicate over the shared tables, applied iff filter_process is not None. R5: the events fed to the trace "
    "decoder go through the event filter pipeline (not-log, tid iff requested, class/subclass iff any filter) and the trace "
    "stream is only filtered, never mapped or reordered."
)

MOD = "pykdebugparser.pykdebugparser"
SELF = param("self")
X = T("bound", ("x",))
N = pipeline.normalise


def A(b, n):
    return T("attr", (b, n))


C = A(SELF, "filter_class")
S = A(SELF, "filter_subclass")


def listset(t: T):
    """(base term or None, [(element term, cond tuple)]) for a list-valued term built by conditional additions."""
    if t.op in ("list", "tuple"):
        return None, [(x, ()) for x in t.a[0]]
    if t.op == "call" and t.a[0].op == "builtin" and t.a[0].a[0] in ("list", "tuple") and len(t.a[1]) == 1:
        return listset(t.a[1][0])
    if t.op == "call" and t.a[0].op == "builtin" and t.a[0].a[0] in ("list", "tuple") and not t.a[1]:
        return None, []
    if t.op == "mut" and t.a[1] == "append" and len(t.a[2]) == 1:
        b, adds = listset(t.a[0])
        return b, adds + [(t.a[2][0], ())]
    if t.op == "mut" and t.a[1] == "extend" and len(t.a[2]) == 1:
        b, adds = listset(t.a[0])
        b2, adds2 = listset(t.a[2][0])
        if b2 is not None:
            raise AnalysisError("class list extended with a non-literal")
        return b, adds + adds2
    if t.op == "bin" and t.a[0] == "+":
        b1, a1 = listset(t.a[1])
        b2, a2 = listset(t.a[2])
        if b1 is not None and b2 is not None:
            raise AnalysisError("class list is the sum of two non-literal lists")
        return (b1 if b1 is not None else b2), a1 + a2
    if t.op == "ite":
        c, x, y = t.a
        bx, ax = listset(x)
        by, ay = listset(y)
        if bx != by:
            raise AnalysisError("conditional class list with different bases")
        n = 0
        while n < len(ax) and n < len(ay) and ax[n] == ay[n]:
            n += 1
        out = ax[:n] + [(e, cd + ((c, True),)) for e, cd in ax[n:]] + [(e, cd + ((c, False),)) for e, cd in ay[n:]]
        return bx, out
    if t.op == "const" and isinstance(t.a[0], tuple):
        return None, [(const(v), ()) for v in t.a[0]]
    if t.op == "comp" and t.a[0] == "list" and len(t.a[2]) == 1 and t.a[1] == t.a[2][0][0]:
        # [c for c in <candidates> if keep(c)]: the candidates, each under its own additional condition
        elem_, src_, conds_ = t.a[2][0]
        b_, adds_ = listset(src_)
        if b_ is None:
            return None, [(e_, cd_ + tuple((sym.subst(c_, {elem_: e_}), True) for c_ in conds_)) for e_, cd_ in adds_]
    if t.op == "call" and t.a[0] == T("global", ("itertools.compress",)):
        got = render.listify(t)
        if got is not None:
            return None, got
    return t, []


def _in_tuple_as_or(t: T) -> T:
    """x in (a, b)  ->  x == a or x == b   (tuple / list literals only)"""
    def fn(x: T) -> T:
        if x.op == "cmp" and x.a[0] in ("in", "not in") and x.a[2].op in ("tuple", "list") and x.a[2].a[0] \
                and not any(i.op == "star" for i in x.a[2].a[0]):
            o = T("bool", ("or", tuple(T("cmp", ("==", x.a[1], i)) for i in x.a[2].a[0])))
            return o if x.a[0] == "in" else T("not", (o,))
        return x
    return normal.rewrite(t, fn)


def _sentinel_forms(t: T) -> T:
    """`(K if x == K else x)` is x; `('' if pid == -1 else names.get(pid, ''))` is `names.get(pid, '')`: -1 is the marker
    threads_pids.get(tid, -1) itself uses for "no such thread", never a key of the process table (assumption stated in the
    evidence)."""
    def fn(x: T) -> T:
        if x.op != "ite" or x.a[0].op != "cmp" or x.a[0].a[0] not in ("==", "!="):
            return x
        c, a, b = x.a
        if c.a[0] == "!=":
            a, b = b, a
        l, r = c.a[1], c.a[2]
        for k, v in ((l, r), (r, l)):
            if k.op == "const" and a == k and b == v:
                return v
            if k == const(-1) and a == const("") and b.op == "call" and b.a[0].op == "attr" and b.a[0].a[1] == "get" \
                    and b.a[0].a[0] == A(SELF, "pids_names") and b.a[1] == (v, const("")):
                return b
        return x
    return normal.rewrite(t, fn)


def class_of_first_record_ne(pred: T) -> Optional[T]:
    """If pred (normalised) is  (x.ktraces[0].eventid >> 24) != k  return k."""
    want_l = T("bin", (">>", A(T("sub", (A(X, "ktraces"), const(0))), "eventid"), const(24)))
    if pred.op == "cmp" and pred.a[0] == "!=":
        l, r = pred.a[1], pred.a[2]
        if l == want_l and r.op == "const":
            return r
        if r == want_l and l.op == "const":
            return l
    return None


def request_isolation(repo: Repo, run: Run) -> None:
    """Every request builds a fresh KdBufParser over the facade's own thread/process tables; what an earlier request (or the
    decoders it ran) left in them is wiped because installing the dump's thread map clears both tables first, unconditionally,
    and never rebinds them (C02/R4).  That is a necessary condition of "repeating a request gives the same output"."""
    if getattr(run, "is_probe", False):
        return          # (a check run for its own obligations does not take over in turn)
    from . import c02
    probe = Run("C02", run.tier, run.repo_root)
    probe.is_probe = True
    try:
        c02.check(repo, probe)
    except AnalysisError:
        pass            # what C02 established before it gave up is used; the floor below fails if the reset was not reached
    n = 0
    for o in probe.obligations:
        if o["rule"] == "R4" and ("cleared before any store" in o["construct"] or "never rebound" in o["construct"]
                                  or "before the first yield" in o["construct"]):
            n += 1
            run.ob("R0", o["module"], o["scope"], f"request isolation (C02/R4): {o['construct']}", o["ok"],
                   (o.get("what", "") + " - entries learned while serving one request survive into the next request on the "
                    "same parser object, whose output then differs from the first") if not o["ok"] else "", nontrivial=False)
    run.floor("R0", "table-reset obligations taken over from C02", n, 3)




def check(repo: Repo, run: Run) -> None:
    from .. import shared
    found, n_m = shared.kept_mutable_defaults(repo)
    pipeline_classes = {"PyKdebugParser", "KdBufParser", "TracesParser", "CallstacksParser"}
    mine = [f for f in found if f.cls in pipeline_classes]
    run.ob("R6", mine[0].module if mine else "pykdebugparser", mine[0].cls if mine else "pipeline classes",
           "each request starts from objects of its own", not mine,
           "" if not mine else
           f"{mine[0].cls}.{mine[0].method} keeps the default object of its parameter `{mine[0].param}` (a mutable container, created "
           f"once) as self.{mine[0].attr}: every {mine[0].cls} built without that argument - one per request - works on the same "
           f"object, so what one request leaves in it is there for the next: the same request repeated gives another text",
           line=mine[0].lineno if mine else None, nontrivial=bool(mine),
           witness="the same request twice on a dump that defines a string after its first use")
    run.floor("R6", "methods scanned for kept mutable defaults", n_m, 300)
    take_over(run, "c04", "C04", repo, lambda o: o["rule"] == "K6" and o["construct"] == "domain selection", "R0",
              "pairing domain of the helper class", "the trace-string records every request reads pair among themselves: if records "
              "of other classes share their windows, a string is reassembled from different records with and without a class filter", 1)
    take_over(run, "c06", "C06", repo, lambda o: o["rule"] == "R3" and o["construct"] == "generator function", "R0",
              "the tables are reset when a request is read", "a container parser that is not a generator reads the header - and resets "
              "the shared thread/process tables - when the request is MADE: a request made while an earlier one is still unread "
              "pulls the tables from under it", 2)
    take_over(run, "c08", "C08", repo, lambda o: o["rule"] == "R6", "R0", "decoders do not count records of other classes",
              "the records of classes that were not requested are not in the window of a filtered run: the same call then "
              "renders differently with and without the filter", 1)
    take_over(run, "c14", "C14", repo, lambda o: o["rule"] == "R4" and o["construct"].startswith("writer of the thread/process tables"), "R0",
               "table writers", "a decoder outside the classes every request reads (trace strings, and file-system lookups with "
               "BSD) that writes the shared thread/process tables makes the process filter and the rendered text depend on "
               "which classes were requested", 6)
    request_isolation(repo, run)
    # a filter removes records of other classes BEFORE pairing: the traces of the remaining calls stay the same only if what
    # a window does with a record never depends on how many or which other records it holds (C04: unconditional appends)
    from .c09 import window_obligations
    window_obligations(repo, run, ("K3", "K4", "K5"),
                       "whether a call is reported then depends on records a class filter removes, so filtering does not "
                       "commute with decoding")
    interp = sym.Interp(repo)
    ci = repo.cls("pykdebugparser", "PyKdebugParser")
    pk = ci.module
    dbg = {}
    for n in ("DBG_TRACE", "DBG_FSYSTEM", "DBG_BSD"):
        found = repo.lookup(f"{pk.name}.{n}")          # follows `from .kevent import DBG_TRACE` as well
        if found and found[0] == "const":
            dbg[n] = consteval.evaluate(repo, found[1], found[2])
    if set(dbg) != {"DBG_TRACE", "DBG_FSYSTEM", "DBG_BSD"}:
        raise AnalysisError("anchor vanished: DBG_TRACE / DBG_FSYSTEM / DBG_BSD constants")
    run.ob("R3", MOD, "constants", "class numbers", dbg == {"DBG_TRACE": 7, "DBG_FSYSTEM": 3, "DBG_BSD": 4},
           f"kdebug class numbers are {dbg}; Darwin: DBG_TRACE=7, DBG_FSYSTEM=3, DBG_BSD=4", facts=dbg, nontrivial=False)
    TR, FS, BSD = const(dbg["DBG_TRACE"]), const(dbg["DBG_FSYSTEM"]), const(dbg["DBG_BSD"])

    # ------------------------------------------------------------------ R1
    n_methods = 0
    recs = {}
    for name, fn in ci.methods.items():
        rec = interp.run(pk, fn, self_cls=ci)
        recs[name] = rec
        if name == "__init__":
            continue
        n_methods += 1
        bad = []
        def may_be(t):
            """the objects a mutated term can denote: a local name bound to `self.filter_class` on one branch and to a fresh
            list on the other denotes the caller's list on the first"""
            if t is None:
                return
            if t.op == "mut":
                yield from may_be(t.a[0])
            elif t.op == "ite":
                yield from may_be(t.a[1])
                yield from may_be(t.a[2])
            elif t.op == "widen":
                for x in t.a[2]:
                    if x.op != "widen":
                        yield from may_be(x)
            else:
                yield t
        for e in rec.effects:
            hit = None
            for pth in list(may_be(e.path)) + list(may_be(e.base)):
                chain = []
                cur = pth
                while cur is not None and cur.op in ("attr", "sub"):
                    chain.append(cur)
                    cur = cur.a[0]
                if e.kind == "attr-store" and cur == SELF and not chain and str(e.key).startswith("filter_"):
                    hit = f"self.{e.key} is rebound"
                for c in chain:
                    if c.op == "attr" and c.a[0] == SELF and c.a[1].startswith("filter_") and e.kind != "attr-load":
                        hit = f"self.{c.a[1]} is mutated in place ({e.kind} {e.key})"
            if hit:
                bad.append((hit, e))
        for hit, e in bad:
            cond = " and ".join(sym.pretty(c) if v else f"not {sym.pretty(c)}" for c, v in e.pc)
            run.ob("R1", MOD, e.func.replace(MOD + ".", ""), f"self.{_attr_of(e)} {e.kind}:{e.key}", False,
                   f"{hit} when {cond or 'always'}: a repeated request sees different filter settings than the caller set",
                   facts={"value": sym.pretty(e.value) if e.value is not None else None}, line=e.lineno,
                   witness="set filter_class=[4], call traces() twice on the same object: the second run reports "
                           "trace-class traces and filter_class has grown")
        if not bad:
            run.ob("R1", MOD, f"PyKdebugParser.{name}", "filter_* untouched", True,
                   facts={"effects": len(rec.effects)}, nontrivial=bool(rec.effects))
    run.floor("R1", "PyKdebugParser methods analysed", n_methods, 15)

    # ------------------------------------------------------------------ pipeline of traces()
    fn = repo.method("pykdebugparser", "PyKdebugParser", "traces")
    rec = recs["traces"]
    if rec.notes:
        raise AnalysisError(f"traces(): unsupported construct: {rec.notes[0]}")
    ret = normal.accum_to_comp(rec, rec.return_term())
    src, stages = pipeline.parse(ret)
    ok_src = (src.op == "call" and src.a[0].op == "attr" and src.a[0].a[1] == "feed_generator"
              and src.a[0].a[0].op == "call"
              and src.a[0].a[0].a[0] == T("class", ("pykdebugparser.traces_parser.TracesParser",)) and len(src.a[1]) == 1)
    run.ob("R5", MOD, "traces", "source", ok_src,
           "" if ok_src else f"traces() is not built over TracesParser(...).feed_generator(events): {sym.pretty(src)[:100]}",
           line=fn.lineno)
    if not ok_src:
        return
    for i, s in enumerate(stages):
        ok = s.kind == "filter"
        run.ob("R5", MOD, "traces", f"trace stage {i}: {s.kind}", ok,
               "" if ok else f"stage {i} over the trace stream is {s.kind}: traces are transformed or reordered",
               nontrivial=False, line=fn.lineno)
    # inner event pipeline
    inner_src, inner = pipeline.parse(src.a[1][0])
    ok_in = (inner_src.op == "call" and inner_src.a[0].op == "attr" and inner_src.a[0].a[1] == "parse")
    if not ok_in and inner_src.op == "call" and sym.root_of(inner_src.a[0]).op == "new" \
            and sym.root_of(inner_src.a[0]).a[0] == "pykdebugparser.kd_buf_parser.KdBufParser":
        ok_in = True        # KdBufParser as a dataclass: the interpreter stands inside parse(), at `versions[magic](stream)`
    if not ok_in and inner_src.op == "call" and ((inner_src.a[0].op == "attr" and inner_src.a[0].a[0] == sym.param("self")
                                                  and inner_src.a[0].a[1] in ci.methods) or inner_src.a[0].op == "func"):
        raise AnalysisError(f"traces(): the events reach the trace decoder through {sym.pretty(inner_src.a[0])[:60]}(...), a stage that "
                            f"is not a filter/map over the parser's stream in any recognised form")
    run.ob("R5", MOD, "traces", "event source", ok_in,
           "" if ok_in else f"the trace decoder is not fed from the container parser: {sym.pretty(inner_src)[:100]}",
           line=fn.lineno)
    class_lists: List[T] = []
    sub_ok = False
    got_kinds = set()
    class_stage_cj = set()
    for s in inner:
        if s.kind != "filter":
            run.ob("R5", MOD, "traces", f"event stage {s.kind}", False,
                   f"the events fed to the decoder go through a {s.kind} stage", line=fn.lineno)
            continue
        body = pipeline.resolve_predicate(repo, interp, ci, s.fn)
        if body is None:
            raise AnalysisError(f"traces(): event predicate not recognised: {sym.pretty(s.fn)[:80]}")
        nb = N(normal.expand_membership(rec, body))
        cj = pipeline.conjuncts(s.cond)
        if nb == N(T("not", (T("call", (T("builtin", ("isinstance",)),
                                       (X, T("class", ("pykdebugparser.os_log_event.OsLogEvent",))), ())),))):
            got_kinds.add("notlog")
            run.ob("R5", MOD, "traces", "events: not-log stage unconditional", not cj,
                   f"log records are excluded only when {sorted(map(sym.pretty, cj))}", nontrivial=False)
        elif nb == N(T("cmp", ("==", A(X, "tid"), A(SELF, "filter_tid")))):
            got_kinds.add("tid")
            want = frozenset({N(T("cmp", ("is not", A(SELF, "filter_tid"), const(None))))})
            run.ob("R5", MOD, "traces", "events: tid stage iff requested", cj == want,
                   f"the thread filter is applied when {sorted(map(sym.pretty, cj))}, not iff filter_tid is not None",
                   nontrivial=False)
        else:
            # a predicate that also asks whether a filter list is set at all (`if not self.filter_class: ...`, `xs or ()` ahead
            # of the membership tests - None-tolerant forms): a shape of the class stage these rules do not describe
            def _truth_use(t, under_in=False):
                if t.op == "cmp" and t.a[0] in ("in", "not in"):
                    return _truth_use(t.a[1])      # (inside the collection of a membership test the lists are combined, not tested)
                if t.op == "attr" and t.a[0] == SELF and t.a[1] in ("filter_class", "filter_subclass"):
                    return True
                return any(_truth_use(c_) for c_ in sym.children(t))
            if _truth_use(nb):
                raise AnalysisError("traces(): the class stage also tests whether a filter list is set (a None-tolerant form): which "
                                    "classes it lets through is not decided")
            items = nb.a[1] if nb.op == "bool" and nb.a[0] == "or" else (nb,)
            cls_l = T("bin", (">>", A(X, "eventid"), const(24)))
            sub_l = T("bin", (">>", A(X, "eventid"), const(16)))
            rest = []
            for it in items:
                if it.op == "cmp" and it.a[0] == "in" and it.a[1] == cls_l:
                    class_lists.append(it.a[2])
                    class_stage_cj.update(cj)
                elif it.op == "cmp" and it.a[0] == "in" and it.a[1] == sub_l and it.a[2] == S:
                    sub_ok = True
                else:
                    rest.append(it)
            got_kinds.add("class")
            run.ob("R5", MOD, "traces", "events: class stage form", not rest and sub_ok,
                   "" if not rest and sub_ok else
                   f"the class/subclass predicate has unexpected terms {[sym.pretty(r) for r in rest]} "
                   f"or lacks `eventid >> 16 in filter_subclass`", facts={"predicate": sym.pretty(nb)[:300]}, line=fn.lineno)
            want = frozenset({N(T("bool", ("or", (C, S))))})
            if cj != want:
                simple = all(x.op in ("bool", "not", "cmp", "const", "attr", "param") for c_ in cj for x in sym.walk(c_))
                if not simple:
                    # the condition is computed from a derived list (`consumed or filter_subclass` with consumed built from the
                    # filters): whether it is equivalent to "a class or subclass filter is set" is not decided here
                    raise AnalysisError("traces(): the condition under which the class/subclass filter is applied is computed from "
                                        f"derived values ({sorted(map(sym.pretty, cj))[0][:100]}): its equivalence with `filter_class "
                                        "or filter_subclass` is not decided")
            run.ob("R5", MOD, "traces", "events: class stage iff any filter", cj == want,
                   f"the class/subclass filter is applied when {sorted(map(sym.pretty, cj))}, not iff a class or subclass "
                   f"filter is set", nontrivial=False)
    for k in ("notlog", "tid", "class"):
        run.ob("R5", MOD, "traces", f"events: {k} stage present", k in got_kinds,
               f"the events fed to the trace decoder are not filtered by the {k} stage", nontrivial=False)

    # ------------------------------------------------------------------ additions to the class list
    additions: List[Tuple[T, frozenset, str]] = []
    base_seen = False
    for L in class_lists:
        b, adds = listset(L)
        if b is not None:
            if b == C:
                base_seen = True
            else:
                run.ob("R2", MOD, "traces", f"class list {sym.pretty(b)[:40]}", False,
                       f"events are matched against {sym.pretty(b)[:80]}, which is neither the caller's filter_class nor "
                       f"a list of helper classes built here", line=fn.lineno)
        for e, cd in adds:
            # (a class of the list is consulted only when the class stage is applied at all: the stage's own condition is part
            # of "when is this class let through" - the list may have been written with or without repeating it)
            additions.append((e, frozenset(pipeline.conjuncts(cd) | class_stage_cj), "local list"))
    for e in rec.effects:           # in-place form
        pth = e.path if e.path is not None else e.base
        if e.kind == "mut-call" and pth == C and e.key in ("append",) and e.args:
            additions.append((e.args[0], pipeline.conjuncts(e.pc), "in place"))
    run.ob("R2", MOD, "traces", "caller's classes honoured", base_seen,
           "the event predicate no longer consults the caller's filter_class", nontrivial=False)
    post = []
    for s in stages:
        if s.kind != "filter":
            continue
        body = pipeline.resolve_predicate(repo, interp, ci, s.fn)
        if body is None:
            continue
        k = class_of_first_record_ne(N(body))
        if k is not None:
            post.append((k, pipeline.conjuncts(s.cond), s))
            continue
        # one merged post-filter `class(first record) not in HELPERS` over the very list of helper classes that was added to
        # the event filter: every helper class is removed exactly when it was added (the stage's own guard, the list being
        # non-empty, holds whenever one of its elements was added)
        nb_ = N(body)
        want_l = T("bin", (">>", A(T("sub", (A(X, "ktraces"), const(0))), "eventid"), const(24)))
        if nb_.op == "cmp" and nb_.a[0] == "not in" and nb_.a[1] == want_l:
            try:
                b_, adds_ = listset(nb_.a[2])
            except AnalysisError:
                b_, adds_ = T("unknown", ("list",)), []
            if b_ is None and adds_:
                for e_, cd_ in adds_:
                    post.append((e_, pipeline.conjuncts(cd_), s))
                    post.append((e_, frozenset(pipeline.conjuncts(cd_) | class_stage_cj), s))
    run.floor("R2", "helper classes added by traces()", len(additions), 2)

    def _opaque_condition(cj_) -> Optional[str]:
        # a condition that calls a method of the facade the interpreter did not interpret in place (a loop with an early
        # return, ...): what it tests is not visible here
        for c_ in cj_:
            for x in sym.walk(c_):
                if x.op == "call" and x.a[0].op == "attr" and x.a[0].a[0] == SELF:
                    return sym.pretty(x)[:60]
        return None
    opaque_conditions = sorted({o for _, cj_, _ in additions for o in [_opaque_condition(cj_)] if o})
    if opaque_conditions:
        run.floor_failures.append(f"C13/R2: a helper class is added under a condition computed by {opaque_conditions[0]}, a method "
                                  f"that is not interpreted in place: whether it is the specified condition is not decided")
        additions = [a_ for a_ in additions if _opaque_condition(a_[1]) is None]
    for k, cj, how in additions:
        m = [p for p in post if p[0] == k]
        ok = bool(m) and any(p[1] == cj for p in m)
        run.ob("R2", MOD, "traces", f"helper class {sym.pretty(k)}: post-filter under the same condition", ok,
               "" if ok else (f"class {sym.pretty(k)} is added to the event filter ({how}) when "
                              f"{sorted(map(sym.pretty, cj))} but "
                              + (f"the post-filter applies when {sorted(map(sym.pretty, m[0][1]))}" if m else
                                 "no post-filter removes its traces") + ": helper traces are reported or requested ones dropped"),
               facts={"added_when": sorted(map(sym.pretty, cj))}, line=fn.lineno)
        requested_guard = N(T("cmp", ("not in", k, C)))
        run.ob("R2", MOD, "traces", f"helper class {sym.pretty(k)}: only when not requested", requested_guard in cj,
               f"class {sym.pretty(k)} is treated as a helper even when the caller requested it "
               f"(condition lacks `{sym.pretty(k)} not in filter_class`)", line=fn.lineno)
    deferred_classes = set()
    for k, cj, s in post:
        if opaque_conditions and not any(a[0] == k for a in additions):
            continue            # (its addition was deferred above)
        ok = any(a[0] == k for a in additions)
        run.ob("R2", MOD, "traces", f"post-filter class != {sym.pretty(k)} has a helper", ok,
               "" if ok else f"traces of class {sym.pretty(k)} are removed from the output although the tool did not add "
                             f"that class itself", line=fn.lineno)
    # every trace-stream filter other than the process one must be such a post-filter
    # ------------------------------------------------------------------ R3 spec of the helper conditions
    any_filter = N(T("bool", ("or", (C, S))))
    has_bsd = N(T("bool", ("or", (T("cmp", ("in", BSD, C)),
                                  T("call", (T("builtin", ("any",)),
                                             (T("call", (pipeline.FILTER,
                                                         (T("lambda", (0, T("cmp", ("==", T("bin", (">>", T("bound", ("sc", 0)), const(8))), BSD)))), S), ())),), ()))))))
    spec = {
        TR: frozenset({any_filter, N(T("cmp", ("not in", TR, C)))}),
        FS: frozenset({any_filter, N(T("cmp", ("not in", FS, C))), has_bsd}),
    }
    for k, want in spec.items():
        got = [cj for kk, cj, _ in additions if kk == k]
        if not got and opaque_conditions:
            continue            # (deferred above: its condition is computed by a method that was not followed)
        ok = len(got) == 1 and got[0] == want
        nm = {TR: "DBG_TRACE (kernel trace strings)", FS: "DBG_FSYSTEM (file-system lookups)"}[k]
        run.ob("R3", MOD, "traces", f"helper {nm}: condition", ok,
               "" if ok else f"{nm} is read as a helper class when {[sorted(map(sym.pretty, g)) for g in got] or 'never'}; "
                             f"the property requires exactly {sorted(map(sym.pretty, want))}",
               facts={"expected": sorted(map(sym.pretty, want))}, line=fn.lineno)
    extra = [k for k, _, _ in additions if k not in spec]
    run.ob("R3", MOD, "traces", "no other helper class", not extra,
           f"traces() also reads class(es) {[sym.pretty(k) for k in extra]} on its own", nontrivial=False)

    # ------------------------------------------------------------------ R4 process filter
    tid = A(T("sub", (A(X, "ktraces"), const(0))), "tid")
    get = lambda table, key, d: T("call", (T("attr", (A(SELF, table), "get")), (key, d), ()))
    pid = get("threads_pids", tid, const(-1))
    name = get("pids_names", pid, const(""))
    fp = A(SELF, "filter_process")
    want_pred = N(T("bool", ("or", (T("cmp", ("==", fp, T("call", (T("builtin", ("str",)), (pid,), ())))),
                                    T("cmp", ("==", fp, name))))))

    def predicate_of(stage):
        """(normalised predicate over the element X, scope name, effects of the predicate, line) or None"""
        f_ = stage.fn
        if f_.op == "attr" and f_.a[0] == SELF and f_.a[1] in ci.methods and f_.a[1] in recs:
            mfn_ = ci.methods[f_.a[1]]
            if len(mfn_.args.args) != 2:
                return None
            body_ = sym.subst(recs[f_.a[1]].return_term(), {param(mfn_.args.args[1].arg): X})
            return N(_sentinel_forms(_in_tuple_as_or(body_))), f_.a[1], recs[f_.a[1]].effects, mfn_.lineno
        body_ = pipeline.predicate_body(f_)
        if body_ is None:
            return None
        return N(_sentinel_forms(_in_tuple_as_or(body_))), "traces", [], fn.lineno
    cands = [s for s in stages if s.kind == "filter" and not any(s is p[2] for p in post)]
    preds = [(s, predicate_of(s)) for s in cands]
    proc = [(s, p) for s, p in preds if p is not None and (p[0] == want_pred or sym.contains(p[0], fp))]
    others = [s for s, p in preds if not any(s is q for q, _ in proc)]
    for s in others:
        run.ob("R4", MOD, "traces", "unrecognised trace filter", False,
               f"the trace stream is filtered by {s.describe()[:160]}, which the property does not allow", line=fn.lineno)
    ok = len(proc) == 1
    run.ob("R4", MOD, "traces", "process filter stage", ok,
           "" if ok else "the process filter is not a single filter stage over the trace stream", nontrivial=False)
    if ok:
        stage_, (gotp, scope_, effs_, line_) = proc[0]
        want = frozenset({N(T("cmp", ("is not", A(SELF, "filter_process"), const(None))))})
        cj = pipeline.conjuncts(stage_.cond)
        run.ob("R4", MOD, "traces", "process filter iff requested", cj == want,
               f"the process filter is applied when {sorted(map(sym.pretty, cj))}, not iff filter_process is not None",
               line=fn.lineno)
        run.ob("R4", MOD, scope_, "predicate", gotp == want_pred,
               "" if gotp == want_pred else
               f"the process predicate is `{sym.pretty(gotp)[:200]}`; the property requires the first record's thread to be "
               f"looked up in the shared tables and compared with the requested pid text or name",
               facts={"expected": sym.pretty(want_pred)[:300]}, line=line_)
        run.ob("R4", MOD, scope_, "no side effects", not effs_,
               "the process predicate modifies state", nontrivial=False)


def _attr_of(e) -> str:
    pth = e.path if e.path is not None else e.base
    cur = pth
    while cur is not None and cur.op in ("attr", "sub"):
        if cur.op == "attr" and cur.a[0] == SELF:
            return cur.a[1]
        cur = cur.a[0]
    return str(e.key)
