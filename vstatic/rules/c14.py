"""C14 - lines name the process the dump declares for the thread; columns compose."""
from __future__ import annotations

import ast

from typing import Dict, List, Optional, Set

from .. import pipeline, decoders, render, sym
from ..model import AnalysisError, Repo
from ..report import Run, take_over
from ..sym import T, const, param

EXPLANATION = (
    "R1 (column independence): the symbolic text of _format_kevent, _format_trace and _format_callstack is flattened into a "
    "sequence of segments; the leading segments must be exactly the expected columns, in order, each an alternative on ONE "
    "self.show_* switch whose 'off' side is empty and whose 'on' side mentions no other switch; nothing else in the line "
    "depends on a switch. Hence switching one column off removes exactly that column. R2 (one pair of tables): the facade "
    "passes self.threads_pids / self.pids_names themselves to KdBufParser and TracesParser, whose constructors store what "
    "they are given without copying, PyKdebugParser.__init__ creates them once, and no function outside an __init__ rebinds "
    "either attribute (all updates are in place), so the formatter sees what the dump declared up to that point. R3 (unknown "
    "thread): _format_process looks the thread up with a sentinel default, compares with the same sentinel, and the unknown "
    "branch contains no table lookup; the process column is computed from the emitting thread's id. R4 (who may write): the "
    "writers of the two tables are exactly the reviewed set (thread map, log-record extension, new-thread, terminate-pid, "
    "sampler thread-info, new-thread/exec string records) and each stores ids/names carried by the record itself. Colouring "
    "is not decided."
)

MOD = "pykdebugparser.pykdebugparser"
SELF = param("self")

ALLOWED_SELF = {"threads_pids", "pids_names", "color", "mach_absolute_time", "numer", "denom", "usecs_since_epoch", "timezone"}

EXPECTED_COLUMNS = {
    "_format_kevent": ["show_timestamp", "show_name", "show_func_qual", "show_tid", "show_process", "show_args"],
    "_format_trace": ["show_timestamp", "show_tid", "show_process"],
    "_format_callstack": ["show_timestamp", "show_tid", "show_process"],
}

# Who may write the thread/process tables, identified by what triggers the write (the decoded record kind, or the part of
# the container format), never by the name of the function that happens to contain the store.
REVIEWED_WRITERS = {
    "container:thread-map": "the dump's thread map (clear + fill)",
    "container:log-record": "log records naming a process and a thread",
    "decoder:TRACE_DATA_NEWTHREAD": "new-thread record carries tid and pid",
    "decoder:TRACE_DATA_THREAD_TERMINATE_PID": "terminate-pid record",
    "decoder:TRACE_STRING_NEWTHREAD": "name for the pid of the thread's own new-thread record",
    "decoder:TRACE_STRING_EXEC": "name for the pid of the thread's own exec record",
    "decoder:PERF_THD_Data": "sampler thread-info record carries pid and tid",
    "decoder:PERF_Event": "sampler trace decodes its nested thread-info record",
}


# what each reviewed decoder stores: (table, atoms of the key, atoms of the value) in the vocabulary of decoders.classify
WRITER_CONTRACT = {
    "decoder:TRACE_DATA_NEWTHREAD": [("threads_pids", {("START", 0)}, {("START", 1)})],
    "decoder:TRACE_DATA_THREAD_TERMINATE_PID": [("threads_pids", {("START.tid",)}, {("START", 0)})],
    "decoder:PERF_THD_Data": [("threads_pids", {("START", 1)}, {("START", 0)})],
    "decoder:TRACE_STRING_NEWTHREAD": [("pids_names", {("TABLE", "last_data_newthread"), ("START.tid",)}, {("START.data",)})],
    "decoder:TRACE_STRING_EXEC": [("pids_names", {("TABLE", "last_data_exec"), ("START.tid",)}, {("START.data",)})],
}


def switches_in(segs) -> Set[str]:
    out = set()

    def term_sw(t: T):
        for x in sym.walk(t):
            if x.op == "attr" and x.a[0] == SELF and str(x.a[1]).startswith("show_"):
                out.add(x.a[1])
    for s in segs:
        if s[0] == "hole":
            term_sw(s[1])
        elif s[0] == "alt":
            term_sw(s[1])
            out.update(switches_in(s[2]))
            out.update(switches_in(s[3]))
    return out


def accumulator_of(ret: T) -> T:
    """For _format_callstack: the first element of the joined list is the column accumulator."""
    if ret.op == "call" and ret.a[0].op == "attr" and ret.a[0].a[1] == "join" and len(ret.a[1]) == 1:
        x = ret.a[1][0]
        # chain((prefix,), <frame lines>) / [prefix] + [...] / [prefix, *...]: the first piece is the accumulator
        if x.op == "call" and x.a[0] == T("global", ("itertools.chain",)) and x.a[1]:
            x = x.a[1][0]
        while x.op == "bin" and x.a[0] == "+":
            x = x.a[1]
        while x.op in ("widen", "mut"):
            x = x.a[2][0] if x.op == "widen" else x.a[0]
        if x.op in ("list", "tuple") and x.a[0]:
            return x.a[0][0]
    return ret


TEXT_CHANGING_LEXER_OPTIONS = {"stripall": "drops leading and trailing whitespace of the text",
                               "tabsize": "expands tabs in the text", "encoding": "re-decodes the text"}


def check_lexer_options(repo: Repo, run: Run) -> None:
    """R6 "colouring never changes the text": the syntax highlighter is handed the rendered line; a pygments lexer built with
    `stripall=True` (or a tab size) edits the text it highlights, so the coloured line no longer has the characters of the
    plain one.  (The defaults only normalise the final line end, which every formatter strips again.)"""
    import ast as _ast
    n = 0
    for mod in repo.modules.values():
        for node in _ast.walk(mod.tree):
            if not isinstance(node, _ast.Call):
                continue
            dn = repo.dotted(mod, node.func) or ""
            if not (dn.startswith("pygments.lexers") and dn.endswith("Lexer")):
                continue
            n += 1
            bad = []
            for k in node.keywords:
                if k.arg in TEXT_CHANGING_LEXER_OPTIONS and not (isinstance(k.value, _ast.Constant) and not k.value.value):
                    bad.append(k.arg)
                if k.arg is None:
                    bad.append("**options")
            run.ob("R6", mod.name, "lexer", f"{dn.rsplit('.', 1)[1]} options leave the text alone", not bad,
                   "" if not bad else
                   f"the lexer is created with {bad}: " + "; ".join(TEXT_CHANGING_LEXER_OPTIONS.get(b, "unknown options") for b in bad)
                   + " - the coloured line then differs from the plain one in more than the escape sequences",
                   line=node.lineno, witness="a rendered trace that ends in a blank, e.g. 'Process exit name: ' with an empty name")
    run.analysed["lexers_constructed"] = n


def check(repo: Repo, run: Run) -> None:
    take_over(run, "c13", "C13", repo, lambda o: o["rule"] == "R5" and o["scope"] == "traces" and o["construct"].startswith("events: class stage"),
              "R0", "the records that declare threads are always read", "the trace class carries the records that declare threads and "
              "processes: if a filtered request does not read them behind the scenes, the process column keeps the stale "
              "thread-map entry (or shows an unknown thread) for threads the dump did declare", 2)
    take_over(run, "c02", "C02", repo, lambda o: o["rule"] == "R4" and "stores tid->pid and pid->name unconditionally" in o["construct"], "R0",
              "every thread-map entry is declared", "a thread-map entry that is skipped (no name, thread 0) leaves its thread without a "
              "process: lines of a thread the dump does declare show `Error: tid N`", 1)
    take_over(run, "c02", "C02", repo, lambda o: o["rule"] == "R3" and "name is a NUL-terminated string" in o["construct"], "R0",
              "process names of the thread map", "the process column prints the name the thread map gives: a name field read past "
              "its terminator prints left-over bytes of an earlier name", 1)
    interp = sym.Interp(repo)
    pk = repo.cls("pykdebugparser", "PyKdebugParser")

    # the line builders are found through the public listings (a renamed helper keeps its role)
    # (a listing whose line builder cannot be found stops the rules about lines, not the rules about who writes the tables:
    # those are judged first-class below and the analysis error is raised at the end)
    deferred = None
    try:
        BUILDER = {conv: pipeline.line_builder(repo, interp, public, conv)
                   for public, conv in (("formatted_kevents", "_format_kevent"), ("formatted_traces", "_format_trace"),
                                        ("formatted_callstacks", "_format_callstack"))}
    except AnalysisError as ex:
        BUILDER, deferred = None, ex

    # ------------------------------------------------------------------ R1
    for conv_name, expected in (EXPECTED_COLUMNS.items() if BUILDER is not None else ()):
        name = BUILDER[conv_name]
        fn = repo.method("pykdebugparser", "PyKdebugParser", name)
        rec = interp.run(pk.module, fn, self_cls=pk)
        if rec.notes:
            raise AnalysisError(f"{name}: unsupported construct {rec.notes[0]}")
        gen_calls = [x for x in sym.walk(rec.return_term()) if x.op == "call" and x.a[0].op == "attr" and x.a[0].a[0] == SELF
                     and x.a[0].a[1] in pk.methods and any(isinstance(y, (ast.Yield, ast.YieldFrom)) for y in ast.walk(pk.methods[x.a[0].a[1]]))]
        if gen_calls:
            # the line is joined from a stream of columns produced by generator methods (`''.join(self._columns(x))`): which
            # columns it has, in which order and under which switch is not read off that
            deferred = deferred or AnalysisError(f"{name} joins the columns produced by the generator {gen_calls[0].a[0].a[1]}(): the "
                                                 f"column structure of the line is not decided")
            continue
        segs = render.flatten(accumulator_of(rec.return_term()))
        cols = []
        i = 0
        while i < len(segs) and segs[i][0] == "alt" and segs[i][1].op == "attr" and segs[i][1].a[0] == SELF \
                and str(segs[i][1].a[1]).startswith("show_"):
            cols.append(segs[i])
            i += 1
        body = segs[i:]
        got = [c[1].a[1] for c in cols]
        run.ob("R1", MOD, f"PyKdebugParser.{name}", "columns present and in order", got == expected,
               "" if got == expected else f"the line is built from columns {got}; the format is {expected} followed by the body: a "
                                          f"column is missing, duplicated, reordered or no longer controlled by its switch alone",
               facts={"columns": got}, line=fn.lineno)
        for c in cols:
            sw = c[1].a[1]
            off_empty = not c[3]
            run.ob("R1", MOD, f"PyKdebugParser.{name}", f"column {sw}: switched off leaves nothing", off_empty,
                   f"with {sw} off the column still contributes {render.text_of(c[3])[:60]!r}", nontrivial=False, line=fn.lineno)
            others = switches_in(c[2]) - {sw}
            run.ob("R1", MOD, f"PyKdebugParser.{name}", f"column {sw}: independent of other switches", not others,
                   f"the {sw} column also depends on {sorted(others)}: switching another column changes this one", line=fn.lineno)
            run.ob("R1", MOD, f"PyKdebugParser.{name}", f"column {sw}: non-empty when on", bool(c[2]),
                   f"the {sw} column is empty even when switched on", nontrivial=False)
        extra = switches_in(body)
        run.ob("R1", MOD, f"PyKdebugParser.{name}", "body independent of the column switches", not extra,
               f"the body of the line depends on {sorted(extra)}", line=fn.lineno)
        # the line is a function of the object, the shared tables, the switches and the time configuration only
        foreign = set()
        for t_ in [rec.return_term()] + [c for r_ in rec.returns for c, _ in r_.pc]:
            for x in sym.walk(t_):
                if x.op == "attr" and x.a[0] == SELF and not str(x.a[1]).startswith("show_") and x.a[1] not in ALLOWED_SELF \
                        and x.a[1] not in pk.methods:
                    foreign.add(x.a[1])
        run.ob("R1", MOD, f"PyKdebugParser.{name}", "line depends only on the object, the tables, the switches", not foreign,
               f"{name} reads self.{sorted(foreign)}: a line no longer depends only on its own record and on what the dump declared "
               f"up to that point (e.g. a cache that is not invalidated when the tables change)", line=fn.lineno)
        writes = [e for e in rec.effects if sym.root_of(e.path if e.path is not None else e.base) == SELF]
        run.ob("R1", MOD, f"PyKdebugParser.{name}", "formatting changes no state", not writes,
               f"{name} modifies parser state ({[(e.kind, str(e.key)) for e in writes][:3]}): an earlier line influences a later one",
               nontrivial=False, line=fn.lineno)

    # ------------------------------------------------------------------ R2 shared tables
    tp_t, pn_t = T("attr", (SELF, "threads_pids")), T("attr", (SELF, "pids_names"))
    init = interp.run(pk.module, pk.methods["__init__"], self_cls=pk)
    def _class_template(v: T) -> bool:
        """self.<name> read while the instance has no such attribute yet: the class-level `name = {}` of the same class."""
        if not (v.op == "attr" and v.a[0] == SELF):
            return False
        import ast as _a
        for st in pk.node.body:
            tg = st.targets[0] if isinstance(st, _a.Assign) and len(st.targets) == 1 else st.target if isinstance(st, _a.AnnAssign) else None
            val = getattr(st, "value", None)
            if isinstance(tg, _a.Name) and tg.id == v.a[1] and val is not None:
                return (isinstance(val, _a.Dict) and not val.keys) or (
                    isinstance(val, _a.Call) and isinstance(val.func, _a.Name) and val.func.id == "dict" and not val.args and not val.keywords)
        return False

    def _empty_dict(v: T) -> bool:
        # {} / dict() / dict(<the empty class-level template>): an object of the instance's own, empty
        return (v.op == "dict" and not v.a[0]) or (v.op == "call" and v.a[0] == T("builtin", ("dict",)) and not v.a[2] and (
            not v.a[1] or (len(v.a[1]) == 1 and _class_template(v.a[1][0]))))
    stores = [e for e in init.effects if e.kind == "attr-store" and (e.path or e.base) == SELF and e.value is not None
              and _empty_dict(e.value) and not e.pc and e.alias is None]
    fresh = {e.key for e in stores}
    run.ob("R2", MOD, "PyKdebugParser.__init__", "tables created once as fresh dicts", {"threads_pids", "pids_names"} <= fresh,
           "PyKdebugParser.__init__ does not create threads_pids and pids_names as two fresh dicts", nontrivial=False)
    n_sites = 0
    seen_sites = set()
    built = set()
    for mname, mfn in pk.methods.items():
        rec = interp.run(pk.module, mfn, self_cls=pk)
        for c in rec.calls:
            if c.func.op == "class" and c.func.a[0].endswith(("KdBufParser", "TracesParser")) and (c.lineno, c.col) not in seen_sites:
                seen_sites.add((c.lineno, c.col))
                n_sites += 1
                args = c.args[-2:] if c.func.a[0].endswith("TracesParser") else c.args[:2]
                kw = dict(c.kwargs)
                args = (kw.get("threads_pids", args[0] if args else None), kw.get("pids_names", args[1] if len(args) > 1 else None))
                ok = args == (tp_t, pn_t)
                cls_name = c.func.a[0].rsplit(".", 1)[-1]
                built.add(cls_name)
                run.ob("R2", MOD, c.where.replace(MOD + ".", ""), f"{cls_name} receives the facade's own tables", ok,
                       "" if ok else f"{cls_name}(...) is given {[sym.pretty(a)[:40] if a is not None else None for a in args]} "
                                     f"instead of self.threads_pids, self.pids_names: the formatter no longer sees what the dump declares",
                       line=c.lineno)
    run.ob("R2", MOD, "PyKdebugParser", "container parser and trace decoder are built by the facade", built == {"KdBufParser", "TracesParser"},
           f"the facade builds {sorted(built)}; both KdBufParser and TracesParser must be given its tables", nontrivial=False)
    run.floor("R2", "parser construction sites", n_sites, 2)
    for modname, cname, pos in (("kd_buf_parser", "KdBufParser", (1, 2)), ("traces_parser", "TracesParser", (2, 3))):
        ci = repo.cls(modname, cname)
        if "__init__" not in ci.methods:
            # a class whose constructor is generated (a dataclass, with the tables settled in __post_init__ or by field defaults)
            run.floor_failures.append(f"C14/R2: {cname} has no __init__ of its own: whether it keeps the tables it is given is not decided")
            continue
        fn = ci.methods["__init__"]
        rec = interp.run(ci.module, fn, self_cls=ci)
        for attr, idx in zip(("threads_pids", "pids_names"), pos):
            pname = fn.args.args[idx].arg
            st = [e for e in rec.effects if e.kind == "attr-store" and e.key == attr]
            ok = len(st) == 1 and not st[0].pc and _same_or_default(st[0].value, param(pname))
            if not ok and len(st) == 2:
                # the statement form:  if p is None: self.x = {}  else: self.x = p   (either order) - one store per branch
                merged = None
                for a_, b_ in ((st[0], st[1]), (st[1], st[0])):
                    if len(a_.pc) == 1 and len(b_.pc) == 1 and a_.pc[0][0] == b_.pc[0][0] and a_.pc[0][1] and not b_.pc[0][1]:
                        merged = T("ite", (a_.pc[0][0], a_.value, b_.value))
                ok = merged is not None and _same_or_default(merged, param(pname))
            run.ob("R2", ci.module.name, f"{cname}.__init__", f"{attr} stored without copying", ok,
                   "" if ok else f"{cname}.__init__ stores {sym.pretty(st[0].value)[:60] if st else 'nothing'} as self.{attr}: a copy "
                                 f"(or a different object) breaks the sharing with the formatter", line=fn.lineno)
    # no rebinding outside __init__
    D = decoders.Decoders(repo)
    D.interp = interp
    rebinds = []
    units = []
    for mod in repo.modules.values():
        for ci in mod.classes.values():
            for mname, fn in ci.methods.items():
                if mname != "__init__" and not ci.is_dataclass:
                    units.append((mod, ci, fn))
    for mod, ci, fn in units:
        rec = interp.run(mod, fn, self_cls=ci)
        for e in rec.effects:
            if e.kind == "attr-store" and e.key in ("threads_pids", "pids_names") and e.func.endswith("." + fn.name):
                rebinds.append((mod.name, f"{ci.name}.{fn.name}", e))
    writers: Dict = {}
    for e in D.entries():
        d = D.decode(e)
        for ef in d.rec.effects:
            if ef.kind == "attr-store" and ef.key in ("threads_pids", "pids_names"):
                rebinds.append((e.module.name, e.func_name, ef))
    for m, scope, e in rebinds:
        run.ob("R2", m, scope, f"rebinds {e.key}", False,
               f"{scope} rebinds .{e.key} to a new object: the other holders of the table keep the old one", line=e.lineno)
    run.ob("R2", MOD, "whole package", "tables are only updated in place", not rebinds, "see above",
           facts={"methods_scanned": len(units)}, nontrivial=True)

    def _unknown_thread_rules():
        # ------------------------------------------------------------------ R3 unknown thread
        fp = pk.methods.get("_format_process")
        if fp is None:
            # the helper every line builder calls with the emitting thread's id
            kb_fn = pk.methods[BUILDER["_format_kevent"]]
            kb_rec = interp.run(pk.module, kb_fn, self_cls=pk)
            tid_arg = T("attr", (param(kb_fn.args.args[1].arg), "tid"))
            cands = [c.func.a[1] for c in kb_rec.calls if c.func.op == "attr" and c.func.a[0] == SELF and c.args == (tid_arg,)
                     and c.func.a[1] in pk.methods and c.where.endswith("." + kb_fn.name)]
            fp = pk.methods.get(cands[0]) if cands else None
        if fp is None:
            raise AnalysisError("anchor vanished: the process-column helper of PyKdebugParser (_format_process)")
        rec = interp.run(pk.module, fp, self_cls=pk)
        tid = param(fp.args.args[1].arg)
        ret = rec.return_term()

        def _generator_joined(t_):
            return [x for x in sym.walk(t_) if x.op == "call" and x.a[0].op == "attr" and x.a[0].a[0] == SELF
                    and x.a[0].a[1] in pk.methods and any(isinstance(y, (ast.Yield, ast.YieldFrom)) for y in ast.walk(pk.methods[x.a[0].a[1]]))]
        if _generator_joined(ret):
            raise AnalysisError(f"{fp.name} joins the pieces produced by the generator {_generator_joined(ret)[0].a[0].a[1]}(): how an "
                                f"undeclared thread is reported is not decided")
        ok = False
        detail = sym.pretty(ret)[:200]
        if ret.op == "ite":
            cond, known, unknown = ret.a
            atom, pol = render.norm_bool(cond)
            if not pol:
                known, unknown = unknown, known
            if atom.op == "cmp" and atom.a[0] == "==":
                known, unknown = unknown, known        # pid == sentinel  ->  then-branch is the unknown one
            pid = None
            if atom.op == "cmp" and atom.a[0] == "==":
                l, r = atom.a[1], atom.a[2]
                if l.op == "const":
                    l, r = r, l
                if l.op == "call" and l.a[0] == T("attr", (tp_t, "get")) and len(l.a[1]) == 2 and l.a[1][0] == tid and r == l.a[1][1] \
                        and r.op == "const":
                    pid = l
            no_lookup = not any(x.op == "call" and x.a[0].op == "attr" and x.a[0].a[0] in (tp_t, pn_t) for x in sym.walk(unknown)) \
                and not any(x.op == "sub" and x.a[0] in (tp_t, pn_t) for x in sym.walk(unknown))
            names_pid = pid is not None and sym.contains(known, pid) and \
                sym.contains(known, T("call", (T("attr", (pn_t, "get")), (pid, const("")), ())))
            ok = pid is not None and no_lookup and names_pid and sym.contains(unknown, tid)
        run.ob("R3", MOD, "PyKdebugParser._format_process", "undeclared thread is reported as unknown", ok,
               "" if ok else "_format_process is not `pid = threads_pids.get(tid, S); known text with pids_names.get(pid, '') if pid != S "
                             "else a text with the tid and no table lookup` with one sentinel S: an undeclared thread is attributed to "
                             "a process", facts={"term": detail}, line=fp.lineno,
               witness="a thread id absent from the thread map (and a pid equal to the mismatched sentinel)")
        for conv_name, tid_src in (("_format_kevent", "tid"), ("_format_trace", ("ktraces", 0, "tid")), ("_format_callstack", "tid")):
            name = BUILDER[conv_name]
            fn = pk.methods[name]
            rec = interp.run(pk.module, fn, self_cls=pk)
            obj = param(fn.args.args[1].arg)
            want = T("attr", (obj, "tid")) if tid_src == "tid" else T("attr", (T("sub", (T("attr", (obj, "ktraces")), const(0))), "tid"))
            if _generator_joined(rec.return_term()):
                raise AnalysisError(f"{name} joins the columns produced by a generator: where its process column comes from is not decided")
            segs = render.flatten(accumulator_of(rec.return_term()))
            col = [s for s in segs if s[0] == "alt" and s[1] == T("attr", (SELF, "show_process"))]
            okc = bool(col) and any(sym.contains(h, T("call", (T("attr", (tp_t, "get")), (want, const(-1)), ())))
                                    or sym.contains(h, T("call", (T("attr", (tp_t, "get")), (want,), ())))
                                    or any(x.op == "call" and x.a[0] == T("attr", (tp_t, "get")) and x.a[1][:1] == (want,) for x in sym.walk(h))
                                    for h in render.holes(col[0][2]))
            run.ob("R3", MOD, f"PyKdebugParser.{name}", "process column looks up the emitting thread", okc,
                   f"the process column of {name} is not computed from the emitting thread's id ({sym.pretty(want)})", line=fn.lineno)

    if BUILDER is not None:
        try:
            _unknown_thread_rules()
        except AnalysisError as ex:
            deferred = deferred or ex

    # ------------------------------------------------------------------ R4 who may write
    PARSER_P = param("parser")

    def table_write(e):
        pth = e.path if e.path is not None else e.base
        cur = pth
        while cur is not None and cur.op in ("sub", "mut"):
            cur = cur.a[0]
        if cur is not None and cur.op == "attr" and cur.a[1] in ("threads_pids", "pids_names") and cur.a[0] in (SELF, PARSER_P) \
                and e.kind in ("sub-store", "mut-call", "del-sub"):
            return not (e.kind == "mut-call" and e.key in ("get", "keys", "values", "items", "copy"))
        return False

    found_writers: Dict[str, list] = {}
    unresolved_writes: List[str] = []
    log_call = T("attr", (T("class", ("pykdebugparser.os_log_event.OsLogEvent",)), "from_raw_log_event"))
    kb = repo.cls("kd_buf_parser", "KdBufParser")
    kb_recs = {mname: interp.run(kb.module, fn, self_cls=kb) for mname, fn in kb.methods.items() if mname != "__init__"}
    # writes of a helper method seen inlined in a caller are judged there (with the caller's arguments), not in the
    # stand-alone run of the helper where the written values are just its parameters
    inlined_elsewhere = {e.func for mname, r_ in kb_recs.items() for e in r_.effects
                         if table_write(e) and not e.func.endswith("." + mname)}
    for mname, fn in kb.methods.items():
        if mname == "__init__":
            continue
        rec = kb_recs[mname]
        # a coroutine: what it writes into the tables are values sent to it from elsewhere (`tid, process = yield`)
        fed_by_send = any(isinstance(x, ast.Assign) and isinstance(x.value, ast.Yield) for x in ast.walk(fn)) or any(
            isinstance(x, ast.NamedExpr) and isinstance(x.value, ast.Yield) for x in ast.walk(fn))
        for e in rec.effects:
            if not table_write(e):
                continue
            if fed_by_send and e.func.endswith("." + mname):
                unresolved_writes.append(f"{mname} line {e.lineno} (a coroutine fed through send())")
                continue
            if e.func.endswith("." + mname) and e.func in inlined_elsewhere and (mname.startswith("_") or any(
                    x.op == "param" and x != SELF for t_ in [e.value, e.key if isinstance(e.key, T) else None] + list(e.args)
                    if t_ is not None for x in sym.walk(t_))):
                continue            # (a private helper is judged where it is called from: what it clears / stores there)
            terms = [t_ for t_ in (e.key if isinstance(e.key, T) else None, e.value) if t_ is not None] + list(e.args)
            from_log = any(x.op == "call" and x.a[0] == log_call for t_ in terms for x in sym.walk(t_))
            elems_ = [x for t_ in terms for x in sym.walk(t_) if x.op == "elem"]
            # what is iterated: the dump's thread map (a parse of the threadmap construct, or the parameter it is handed in)
            # - or something the interpreter could not trace back (the records of a helper object, an opaque generator)
            def _traced(x):
                src = x.a[0]
                return not any(y.op in ("unknown", "widen") or (y.op == "call" and y.a[0].op in ("func",) )
                               or (y.op == "call" and y.a[0].op == "attr" and y.a[0].a[0].op in ("new", "unknown", "widen"))
                               for y in sym.walk(src))
            unresolved_src = bool(elems_) and not from_log and not all(_traced(x) for x in elems_)
            from_map = bool(elems_) and not from_log and not unresolved_src
            fills_map = any(table_write(o) and o.kind == "sub-store" and not any(
                x.op == "call" and x.a[0] == log_call for t_ in (o.key, o.value) if isinstance(t_, T) for x in sym.walk(t_))
                and any(x.op == "elem" for t_ in (o.key, o.value) if isinstance(t_, T) for x in sym.walk(t_)) for o in rec.effects)
            is_map_clear = e.kind == "mut-call" and e.key == "clear" and fills_map
            if unresolved_src:
                unresolved_writes.append(f"{mname} line {e.lineno}")
                continue
            if from_log:
                # the declaration a log record makes becomes visible with that record: it is stored in the very iteration
                # that hands the record out (lines rendered for earlier records must not already see it)
                ys_ = [r_ for r_ in rec.returns if r_.kind in ("yield", "yield_from")]
                same_iter = any(e.loops and r_.loops and e.loops[-1] == r_.loops[-1] for r_ in ys_)
                run.ob("R4", kb.module.name, mname, f"log record declares its thread/process when it is yielded (line {e.lineno})",
                       same_iter,
                       "" if same_iter else
                       f"{mname} stores what the log records declare (line {e.lineno}) in a loop that does not yield the records: all "
                       f"declarations are made before the first log line is produced, so an earlier line already names the process a "
                       f"later record declares", line=e.lineno, nontrivial=False,
                       witness="two log records of one thread, the second after an exec that renames the process")
            ident = "container:log-record" if from_log else (
                "container:thread-map" if (from_map or is_map_clear)
                else f"container:{mname}:{e.kind}:{e.key if e.kind == 'mut-call' else ''}")
            found_writers.setdefault(ident, []).append((kb.module.name, mname, e))
    for ci_name, modname in (("TracesParser", "traces_parser"), ("CallstacksParser", "callstacks_parser"), ("PyKdebugParser", "pykdebugparser")):
        ci = repo.cls(modname, ci_name)
        for mname, fn in ci.methods.items():
            if mname == "__init__":
                continue
            rec = interp.run(ci.module, fn, self_cls=ci)
            for e in rec.effects:
                if table_write(e) and e.func.startswith(ci.qualname):
                    found_writers.setdefault(f"{ci_name}.{mname}", []).append((ci.module.name, mname, e))
    for e_ in D.entries():
        d = D.decode(e_)
        recs = [d.rec] + ([d.str_rec] if d.str_rec is not None else [])
        for r_ in recs:
            for ef in r_.effects:
                if table_write(ef):
                    found_writers.setdefault(f"decoder:{e_.key}", []).append((e_.module.name, e_.func_name, ef))
    for ident, effs in sorted(found_writers.items()):
        ok = ident in REVIEWED_WRITERS
        m_, fn_, e0 = effs[0]
        run.ob("R4", m_, fn_, f"writer of the thread/process tables: {ident}", ok,
               "" if ok else f"{ident} writes the thread/process tables ({e0.kind} {e0.key if e0.kind == 'mut-call' else ''} in {fn_}) "
                             f"but is not one of the reviewed writers (thread map, log extension, new-thread, terminate-pid, sampler "
                             f"thread-info, new-thread/exec names): the process named for a thread no longer follows the dump's "
                             f"declarations", facts={"reviewed": REVIEWED_WRITERS.get(ident)}, line=e0.lineno)
    for ident, contract in WRITER_CONTRACT.items():
        for m_, fn_, e0 in found_writers.get(ident, []):
            if e0.kind != "sub-store":
                tb_ = e0.path if e0.path is not None else e0.base
                while tb_ is not None and tb_.op in ("sub", "mut"):
                    tb_ = tb_.a[0]
                tname_ = tb_.a[1] if tb_ is not None and tb_.op == "attr" else "the thread/process tables"
                run.ob("R4", m_, fn_, f"{ident}: stores one entry", False,
                       f"{ident} performs {e0.kind} {e0.key} on {tname_} instead of storing one entry", line=e0.lineno)
                continue
            pth = e0.path if e0.path is not None else e0.base
            while pth.op in ("sub", "mut"):
                pth = pth.a[0]
            table = pth.a[1]
            ka = {a for a in decoders.classify(e0.key) if a[0] != "EXT"}
            va = {a for a in decoders.classify(e0.value) if a[0] != "EXT"}
            ok = any(table == t_ and ka == k_ and va == v_ for t_, k_, v_ in contract)
            run.ob("R4", m_, fn_, f"{ident}: {table}[record's own id] = record's own value", ok,
                   "" if ok else f"{ident} stores {table}[{sym.pretty(e0.key)[:50]}] = {sym.pretty(e0.value)[:50]} "
                                 f"(key from {decoders.fmt_atoms(ka)}, value from {decoders.fmt_atoms(va)}); the record declares "
                                 f"{[(t_, decoders.fmt_atoms(k_), decoders.fmt_atoms(v_)) for t_, k_, v_ in contract]}: the wrong "
                                 f"thread or process is (re)declared", facts={"key": decoders.fmt_atoms(ka), "value": decoders.fmt_atoms(va)},
                   line=e0.lineno)
            # ... and it is declared whenever the record arrives: the only thing the store may wait for is that the pending
            # data record it names exists (`data = parser.last_data_x.get(tid)` / `if data is not None`)
            from .. import guards as _guards
            extra = []
            for c_, p_ in _guards._atoms(e0.pc):
                atom_, _ = render.norm_bool(c_)
                operand = atom_.a[1] if atom_.op == "cmp" and atom_.a[0] in ("is", "in", "==") else atom_
                if atom_.op == "cmp" and atom_.a[0] == "in":
                    operand = atom_.a[2]
                slot_lookup = (operand.op == "call" and operand.a[0].op == "attr" and operand.a[0].a[1] == "get"
                               and operand.a[0].a[0].op == "attr" and operand.a[0].a[0].a[0] == decoders.PARSER) or \
                    (operand.op == "sub" and operand.a[0].op == "attr" and operand.a[0].a[0] == decoders.PARSER) or \
                    (operand.op == "attr" and operand.a[0] == decoders.PARSER)
                if not slot_lookup:
                    extra.append(sym.pretty(c_)[:70])
            run.ob("R4", m_, fn_, f"{ident}: declared whenever the record arrives", not extra,
                   "" if not extra else f"{ident} stores its declaration only when {extra[:2]}: records for which that does not hold "
                                        f"declare nothing, and later lines name a stale (or no) process", line=e0.lineno,
                   nontrivial=False, witness="a record for which the extra condition is false, then a line of the declared thread")
    # the pending data record a string record names: the string decoders read `<pending>.pid`; the data decoders must
    # have put the record's pid word there (new-thread: word 1 - word 0 is the new thread's id; exec: word 0), under the
    # emitting thread's id
    PENDING = {"TRACE_DATA_NEWTHREAD": ("last_data_newthread", ("START", 1)), "TRACE_DATA_EXEC": ("last_data_exec", ("START", 0))}
    n_pending = 0
    for e_ in D.entries():
        if e_.key not in PENDING:
            continue
        slot, want_pid = PENDING[e_.key]
        d = D.decode(e_)
        stores = [ef for ef in d.rec.effects if ef.kind == "sub-store"
                  and (ef.path if ef.path is not None else ef.base) == T("attr", (decoders.PARSER, slot))]
        for ef in stores:
            n_pending += 1
            v = ef.value
            pid_field = dict(v.a[1]).get("pid") if v is not None and v.op == "new" else None
            got = {a for a in decoders.classify(pid_field) if a[0] != "EXT"} if pid_field is not None else None
            key_atoms = {a for a in decoders.classify(ef.key) if a[0] != "EXT"} if isinstance(ef.key, T) else None
            ok = got == {want_pid} and key_atoms == {("START.tid",)}
            run.ob("R4", e_.module.name, e_.func_name, f"decoder:{e_.key}: pending record kept under the emitting thread, pid = word {want_pid[1]}",
                   ok, "" if ok else
                   f"the record kept in parser.{slot}[{sym.pretty(ef.key)[:30]}] has pid = "
                   f"{sym.pretty(pid_field)[:40] if pid_field is not None else '?'} (from {decoders.fmt_atoms(got) if got else '?'}); the "
                   f"record's pid is START word {want_pid[1]}: the name that the following string record carries is attached to the "
                   f"wrong process id", line=ef.lineno,
                   witness="a new-thread / exec data record followed by its string record on the same thread")
    run.floor("R4", "pending data records checked", n_pending, 2)
    missing = [k for k in REVIEWED_WRITERS if k not in found_writers]
    if missing and unresolved_writes:
        # a table write whose source could not be traced may be the writer that seems to be missing
        run.floor_failures.append(f"C14/R4: the container parser writes the thread/process tables from a source the interpreter could "
                                  f"not trace ({unresolved_writes[0]}); whether {missing} still update the tables is not decided")
        missing = []
    run.ob("R4", MOD, "whole package", "every reviewed writer still updates the tables", not missing,
           f"{missing} no longer update the thread/process tables: later lines name a stale process",
           facts={"writers": sorted(found_writers)})
    check_lexer_options(repo, run)
    if deferred is not None:
        raise deferred


def _same_or_default(v: T, p_: T) -> bool:
    """v is the parameter itself, or `{} if p is None else p` in either orientation."""
    if v == p_:
        return True
    if v.op == "ite":
        atom, pol = render.norm_bool(v.a[0])
        if atom == T("cmp", ("is", p_, const(None))):
            none_side, other = (v.a[1], v.a[2]) if pol else (v.a[2], v.a[1])
            return other == p_ and none_side.op == "dict" and not none_side.a[0]
    return False


def module_of_func(qual: str) -> str:
    return qual.rsplit(".", 1)[0]
