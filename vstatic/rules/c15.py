"""C15 - callstacks take the sampled frames and attribute each to the right image."""
from __future__ import annotations

from typing import Optional

from .. import decoders, render, sym
from ..model import AnalysisError, Repo
from ..report import Run
from ..sym import T, const, param

EXPLANATION = (
    "Structural clauses from the symbolic interpretation of CallstacksParser and of the sampler decoder. R1 (parallel lists): "
    "the only writers of dyld_addresses / dyld_uuids are in insert_image; both lists get an insert at the SAME index term, "
    "computed by bisect on the address list; the duplicate test `address in addresses` returns before any write (first "
    "identity kept). R2 (lookup form): for every frame, index = bisect/bisect_right(addresses, frame) - 1 (not bisect_left: a "
    "frame equal to a load address belongs to that image), used only under `index > -1` / `>= 0`; identity and base address "
    "are read at the same index; offset = frame - addresses[index]; otherwise Frame(frame, None, None). R3 (frames): the "
    "sampler's cs_frames is list(chain.from_iterable(<all four words of every nested PERF_STK_UData record, in window order>))"
    "[:nframes] with nframes = word 1 of the FIRST nested PERF_STK_UHdr record, set only when SAMPLER_USTACK is in the decoded "
    "flags and a header record is present. R4 (stamp): exactly one Callstack per qualifying trace, stamped with "
    "ktraces[0].timestamp / .tid, frames in order. Order-independence of attribution follows from R1+R2 and sortedness "
    "(argued, not checked)."
)

MOD = "pykdebugparser.callstacks_parser"
SELF = param("self")
ADDRS = T("attr", (SELF, "dyld_addresses"))
UUIDS = T("attr", (SELF, "dyld_uuids"))
BISECT_RIGHT = {"bisect.bisect", "bisect.bisect_right"}
BISECT_ANY = BISECT_RIGHT | {"bisect.bisect_left"}


def bisect_call(t: T, names) -> Optional[T]:
    """bisect(addresses, x) -> x"""
    if t.op == "call" and t.a[0].op == "global" and t.a[0].a[0] in names and t.a[1][:1] == (ADDRS,) and (
            len(t.a[1]) == 2 or (len(t.a[1]) == 3 and t.a[1][2] == const(0))) and not t.a[2]:
        return t.a[1][1]            # (lo=0 is the default)
    return None


def named_selection(t: T, name: str):
    """[ev for ev in events if parser.trace_codes.get(ev.eventid[, '']) == name] -> (elemvar, comp) or None"""
    if t.op != "comp" or t.a[0] != "list" or len(t.a[2]) != 1:
        return None
    elemvar, it, conds = t.a[2][0]
    if it != decoders.EVENTS or len(conds) != 1:
        return None
    c = conds[0]
    if c.op == "cmp" and c.a[0] == "==" and c.a[2] == const(name):
        g = c.a[1]
        if g.op == "call" and g.a[0] == T("attr", (T("attr", (decoders.PARSER, "trace_codes")), "get")) and g.a[1] \
                and g.a[1][0] == T("attr", (elemvar, "eventid")):
            return elemvar, t
    return None


def _nt_fields(repo: Repo, modname: str, name: str):
    import ast
    from .. import consteval
    node = repo.constant(modname, name)
    if not (isinstance(node, ast.Call) and len(node.args) >= 2):
        raise AnalysisError(f"{name} is not a namedtuple(...) call")
    v = consteval.evaluate(repo, repo.module(modname), node.args[1])
    if isinstance(v, str):
        v = v.replace(",", " ").split()
    return list(v)


def launch_image_list(repo: Repo, run: Run) -> None:
    """The images a launch trace announces reach insert_image in the order of its image list: that the list holds one
    entry per nested image record, each decoded from its own record, in record order, is C20/R2 - a necessary condition of
    "an address announced twice keeps its first identity"."""
    if getattr(run, "is_probe", False):
        return          # (a check run for its own obligations does not take over in turn)
    from . import c20
    probe = Run("C20", run.tier, run.repo_root)
    probe.is_probe = True
    try:
        c20.check(repo, probe)
    except AnalysisError:
        pass
    n = 0
    for o in probe.obligations:
        if o["rule"] == "R2" and "launch_executable" in o["scope"]:
            n += 1
            run.ob("R0", o["module"], o["scope"], f"launch image list (C20/R2): {o['construct']}", o["ok"],
                   (o.get("what", "") + " - the callstack parser learns the images of a launch from this list, in this order") if not o["ok"] else "",
                   nontrivial=False)
    run.floor("R0", "image-list obligations taken over from C20", n, 2)


def check(repo: Repo, run: Run) -> None:
    launch_image_list(repo, run)
    interp = sym.Interp(repo)
    cp = repo.cls("callstacks_parser", "CallstacksParser")
    # ------------------------------------------------------------------ R1
    writers = {}
    for name, fn in cp.methods.items():
        rec = interp.run(cp.module, fn, self_cls=cp)
        for e in rec.effects:
            pth = e.path if e.path is not None else e.base
            if pth in (ADDRS, UUIDS) and e.kind in ("mut-call", "sub-store", "del-sub") and e.func.endswith("." + name):
                writers.setdefault(name, []).append(e)
            if e.kind == "attr-store" and e.key in ("dyld_addresses", "dyld_uuids") and name != "__init__":
                run.ob("R1", MOD, f"CallstacksParser.{name}", f"rebinds {e.key}", False,
                       f"{name} rebinds self.{e.key}: the lists shared with the facade diverge", line=e.lineno)
    pkrec_writers = []
    pk = repo.cls("pykdebugparser", "PyKdebugParser")
    for name, fn in pk.methods.items():
        if name == "__init__":
            continue
        r = interp.run(pk.module, fn, self_cls=pk)
        for e in r.effects:
            pth = e.path if e.path is not None else e.base
            if pth in (ADDRS, UUIDS) and e.func.endswith("." + name):
                pkrec_writers.append((name, e))
    # a private helper that only insert_image calls is part of insert_image (its writes are judged below, in insert_image's
    # record, where the helper is inlined)
    import ast as _ast
    def _only_from(helper: str, allowed: set) -> bool:
        sites = 0
        own = {id(f_): n_ for n_, f_ in cp.methods.items()}
        for m_ in repo.modules.values():
            stack = [(m_.tree, None)]
            while stack:
                node, encl = stack.pop()
                if isinstance(node, (_ast.FunctionDef, _ast.AsyncFunctionDef, _ast.Lambda)):
                    encl = node
                if isinstance(node, _ast.Attribute) and node.attr == helper:
                    sites += 1
                    if encl is None or own.get(id(encl)) not in allowed:
                        return False
                if isinstance(node, _ast.Name) and node.id == helper:
                    return False
                stack.extend((ch, encl) for ch in _ast.iter_child_nodes(node))
        return sites > 0
    part_of_insert = {"insert_image"}
    changed = True
    while changed:
        changed = False
        for w_ in sorted(set(writers) - part_of_insert):
            if w_.startswith("_") and not w_.startswith("__") and _only_from(w_, part_of_insert):
                part_of_insert.add(w_)
                changed = True
    # a private helper that insert_image runs but others call too (`_place_image(address, uuid, floor)` from a bulk path): the
    # writes are the same code, what the other callers hand it is not judged by these rules - undecided, not a violation
    shared = set()
    ii_names = {x.attr for x in _ast.walk(cp.methods["insert_image"]) if isinstance(x, _ast.Attribute)} if "insert_image" in cp.methods else set()
    for w_ in sorted(set(writers) - part_of_insert):
        if not w_.startswith("__") and w_ in ii_names:
            shared.add(w_)
    if shared and set(writers) <= part_of_insert | shared and not pkrec_writers:
        run.floor_failures.append(f"C15/R1: the image lists are written by {sorted(shared)}, a helper of insert_image that other "
                                  f"methods call as well: whether those calls keep the lists parallel and sorted is not decided")
    ok = bool(writers) and set(writers) <= part_of_insert | shared and not pkrec_writers
    run.ob("R1", MOD, "CallstacksParser", "only insert_image writes the image lists", ok,
           f"the image lists are written by {sorted(writers)} {[n for n, _ in pkrec_writers]}; only insert_image may, otherwise the "
           f"two lists stop being parallel / sorted", facts={"writers": sorted(writers)})
    ii = repo.method("callstacks_parser", "CallstacksParser", "insert_image")
    rec = interp.run(cp.module, ii, self_cls=cp)
    addr, uuid = param(ii.args.args[1].arg), param(ii.args.args[2].arg)
    ins = [e for e in rec.effects if e.kind == "mut-call" and e.key == "insert"]
    a_ins = [e for e in ins if (e.path or e.base) == ADDRS]
    u_ins = [e for e in ins if (e.path or e.base) == UUIDS]
    ok = len(a_ins) == 1 and len(u_ins) == 1 and len(a_ins[0].args) == 2 and len(u_ins[0].args) == 2 \
        and a_ins[0].args[0] == u_ins[0].args[0] and bisect_call(a_ins[0].args[0], BISECT_ANY) == addr \
        and a_ins[0].args[1] == addr and u_ins[0].args[1] == uuid and a_ins[0].pc == u_ins[0].pc
    run.ob("R1", MOD, "CallstacksParser.insert_image", "both lists inserted at the same bisect index", ok,
           "" if ok else "insert_image does not insert (address -> addresses, uuid -> uuids) at one and the same index "
                         "bisect(addresses, address) under the same condition: the lists are no longer parallel or sorted",
           facts={"address_insert": [sym.pretty(x)[:60] for x in a_ins[0].args] if a_ins else None,
                  "uuid_insert": [sym.pretty(x)[:60] for x in u_ins[0].args] if u_ins else None}, line=ii.lineno)
    # (a counter - `self.n += 1` - is bookkeeping nobody reads: not a mutation of the tables)
    other = [e for e in rec.effects if e not in a_ins + u_ins and not (
        e.kind == "attr-store" and (e.path or e.base) == SELF and e.aug is not None and e.key not in ("dyld_addresses", "dyld_uuids"))]
    run.ob("R1", MOD, "CallstacksParser.insert_image", "no other mutation", not other,
           f"insert_image also performs {[(e.kind, e.key) for e in other]}", nontrivial=False)
    dup = T("cmp", ("in", addr, ADDRS))
    guarded = all(any(render.norm_bool(c)[0] == dup and (render.norm_bool(c)[1] != v) for c, v in e.pc) for e in a_ins + u_ins) \
        and bool(a_ins)
    run.ob("R1", MOD, "CallstacksParser.insert_image", "an address announced twice keeps its first identity", guarded,
           "the inserts are not guarded by `address not in addresses`: a re-announced address gets a second entry / new identity",
           line=ii.lineno)

    # ------------------------------------------------------------------ R2 / R4 feed_generator
    fg = repo.method("callstacks_parser", "CallstacksParser", "feed_generator")
    rec = interp.run(cp.module, fg, self_cls=cp)
    gen = param(fg.args.args[1].arg)
    outer = [lr for lr in rec.loops.values() if lr.kind == "for" and lr.iter == gen]
    if len(outer) != 1:
        raise AnalysisError("feed_generator: the loop over the trace stream was not found")
    trace = outer[0].target
    # every announced image is inserted: an insert_image call made inside a generator that `any` / `all` / `next` consumes
    # stops at the first result that settles it, the rest of the list is never inserted
    ins_calls = [c for c in rec.calls if c.func == T("attr", (SELF, "insert_image"))]
    lazy = []
    for c in ins_calls:
        for lid in c.loops:
            lr = rec.loops.get(lid)
            if lr is not None and lr.kind == "comp" and lr.term is not None and lr.term.a[0] == "gen":
                for c2 in rec.calls:
                    if c2.func in (T("builtin", ("any",)), T("builtin", ("all",)), T("builtin", ("next",))) and c2.args \
                            and sym.contains(c2.args[0], lr.term):
                        lazy.append((c, c2))
    run.ob("R1", MOD, "CallstacksParser.feed_generator", "every image of a list is handed to insert_image", not lazy,
           "" if not lazy else
           f"feed_generator calls insert_image inside a generator consumed by {sym.pretty(lazy[0][1].func)}(): it stops at the first "
           f"call that settles the result, so the images behind it in the list are never inserted and their frames are "
           f"attributed to the image below", line=lazy[0][0].lineno if lazy else fg.lineno, nontrivial=bool(lazy),
           witness="a launch list with two images that are both new")
    frames_src = T("attr", (trace, "cs_frames"))
    FRAME = T("global", (f"{MOD}.Frame",))
    ffields = _nt_fields(repo, "callstacks_parser", "Frame")

    def frame_args(call: T):
        d = dict(zip(ffields, call.a[1]))
        d.update(dict(call.a[2]))
        return tuple(d.get(k) for k in ("address", "uuid", "offset"))

    # per-frame attribution as a list of (conditions, Frame arguments), from either an explicit loop with appends or a
    # comprehension over the sampled frames
    frame = None
    cases = []
    floops = [lr for lr in rec.loops.values() if lr.kind == "for" and lr.iter == frames_src]
    comps = [lr for lr in rec.loops.values() if lr.kind == "comp" and lr.term is not None and len(lr.term.a[2]) == 1
             and lr.term.a[2][0][1] == frames_src and not lr.term.a[2][0][2]
             and (lr.term.a[0] == "list" or (lr.term.a[0] == "gen" and any(
                 c.func == T("builtin", ("list",)) and c.args == (lr.term,) and not c.kwargs for c in rec.calls)))]
    one_pass = False
    if len(floops) == 1 and not comps:
        fl = floops[0]
        frame = fl.target
        base_pc = None
        for e in rec.effects:
            if e.kind == "mut-call" and e.key == "append" and fl.id in e.loops and e.args and e.args[0].op == "call" \
                    and e.args[0].a[0] == FRAME:
                cases.append((e.pc, frame_args(e.args[0]), e.lineno))
        if cases:
            common = [c for c in cases[0][0] if all(c in k[0] for k in cases)]
            cases = [([c for c in pc if c not in common], fa, ln) for pc, fa, ln in cases]
        one_pass = True
    elif len(comps) == 1 and not floops:
        comp = comps[0].term
        frame = comp.a[2][0][0]

        def unfold(t, pc):
            if t.op == "ite":
                unfold(t.a[1], pc + [(t.a[0], True)])
                unfold(t.a[2], pc + [(t.a[0], False)])
            elif t.op == "call" and t.a[0] == FRAME:
                cases.append((pc, frame_args(t), comps[0].lineno))
        unfold(comp.a[1], [])
        one_pass = True
    if not one_pass:
        opaque = [c for c in rec.calls if outer[0].id in c.loops and trace in c.args and c.func.op not in ("builtin", "global", "class", "func")
                  and not (c.func.op == "attr" and c.func.a[0] == SELF)]
        if opaque:
            # the trace is handed to a callable picked at run time (a table of consumers kept on the object): what that
            # callable does with the sampled frames is not visible here
            raise AnalysisError(f"feed_generator hands each trace to {sym.pretty(opaque[0].func)[:80]}, a callable chosen at run time: "
                                f"how the frames are built is not decided")
    if not one_pass:
        import ast as _a
        cs_found = repo.lookup(f"{MOD}.Callstack")
        lazy_cls = cs_found and cs_found[0] == "class" and any(isinstance(x, _a.FunctionDef) for x in cs_found[2].node.body)
        if lazy_cls or any(c.func == T("global", ("functools.partial",)) for c in rec.calls):
            # the frames are resolved by the reported object itself (a property / cached_property of Callstack, a partial bound
            # at the sample): when, and against which state of the image tables, is not read off feed_generator
            raise AnalysisError("feed_generator does not build the frames itself: Callstack resolves them (a method or property of "
                                "the class / a bound partial): how a frame is attributed is not decided")
    run.ob("R4", MOD, "CallstacksParser.feed_generator", "one pass over the sampled frames in order", one_pass,
           "feed_generator does not build the frames by one loop / comprehension over trace.cs_frames, in order", line=fg.lineno)
    if not one_pass:
        return
    # what the path conditions decide is applied to the constructions: `i = b - 1 if b > 0 else None` used under `i is not
    # None` is b - 1 used under b > 0
    from .. import normal as _normal
    settled = []
    for pc_, fa_, ln_ in cases:
        assume, pc2, dead = {}, [], False
        for c_, pol_ in pc_:
            c2 = _normal.simplify_cond(c_, assume)
            if c2.op == "const":
                if bool(c2.a[0]) != pol_:
                    dead = True
                continue
            pc2.append((c2, pol_))
            assume = render.with_assumption(assume, c2, pol_)
        if dead:
            continue
        settled.append((pc2, tuple(_normal.simplify(x, assume) if x is not None else None for x in fa_), ln_))
    cases = settled
    hit = [k for k in cases if k[1][1:] != (const(None), const(None))]
    miss = [k for k in cases if k[1][1:] == (const(None), const(None))]
    ok_shape = len(hit) == 1 and len(miss) == 1
    run.ob("R2", MOD, "CallstacksParser.feed_generator", "each frame appended once: attributed or unattributed", ok_shape,
           f"{len(hit)} attributed and {len(miss)} unattributed Frame constructions per frame (expected one of each, on "
           f"complementary paths)", line=fg.lineno)
    if ok_shape:
        fa = hit[0][1]
        idx_terms = set()
        ok_uuid = fa[1] is not None and fa[1].op == "sub" and fa[1].a[0] == UUIDS
        ok_off = fa[2] is not None and fa[2].op == "bin" and fa[2].a[0] == "-" and fa[2].a[1] == frame \
            and fa[2].a[2].op == "sub" and fa[2].a[2].a[0] == ADDRS
        if ok_uuid:
            idx_terms.add(fa[1].a[1])
        if ok_off:
            idx_terms.add(fa[2].a[2].a[1])
        same = ok_uuid and ok_off and len(idx_terms) == 1 and fa[0] == frame
        run.ob("R2", MOD, "CallstacksParser.feed_generator", "identity and base address read at the same index; offset = frame - base", same,
               "" if same else "the attributed Frame is not Frame(frame, uuids[i], frame - addresses[i]) with one index i",
               facts={"frame": [sym.pretty(x)[:80] if x is not None else None for x in fa]}, line=hit[0][2])
        if same:
            idx = idx_terms.pop()
            inner = idx.a[1] if idx.op == "bin" and idx.a[0] == "-" and idx.a[2] == const(1) else None
            fr_r = bisect_call(inner, BISECT_RIGHT) if inner is not None else None
            fr_l = bisect_call(inner, {"bisect.bisect_left"}) if inner is not None else None
            okb = fr_r == frame
            run.ob("R2", MOD, "CallstacksParser.feed_generator", "index = bisect_right(addresses, frame) - 1", okb,
                   "" if okb else ("the index is computed with bisect_left: a frame equal to a load address is attributed to the "
                                   "previous image (or to none)" if fr_l == frame else
                                   f"the index is {sym.pretty(idx)[:80]}, not bisect/bisect_right(addresses, frame) - 1: frames are "
                                   f"attributed to the image above them or out of range"),
                   facts={"index": sym.pretty(idx)[:100]}, line=hit[0][2],
                   witness="a frame exactly equal to an image's load address / a frame above the highest image")
            # guard: the attributed construction happens only when index >= 0
            # the conditions of the path that compare a linear form of b = bisect(...) with a constant are evaluated for
            # every b the call can return (b >= 0; beyond the largest constant nothing changes): together they must
            # hold exactly when b >= 1, i.e. when index = b - 1 >= 0
            def lin(t):
                """t == coef * b + k  ->  (coef, k)"""
                if t == inner:
                    return (1, 0)
                if t.op == "const" and isinstance(t.a[0], int) and not isinstance(t.a[0], bool):
                    return (0, t.a[0])
                if t.op == "bin" and t.a[0] in ("+", "-"):
                    l, r = lin(t.a[1]), lin(t.a[2])
                    if l is None or r is None:
                        return None
                    sg = 1 if t.a[0] == "+" else -1
                    return (l[0] + sg * r[0], l[1] + sg * r[1])
                return None
            CMP = {"<": lambda x, y: x < y, "<=": lambda x, y: x <= y, ">": lambda x, y: x > y, ">=": lambda x, y: x >= y,
                   "==": lambda x, y: x == y, "!=": lambda x, y: x != y}
            tests, bound = [], 2
            for c, pol in hit[0][0]:
                atom, apol = render.norm_bool(c)
                eff = pol if apol else not pol
                if atom.op == "cmp" and atom.a[0] in CMP:
                    l, r = lin(atom.a[1]), lin(atom.a[2])
                    if l is not None and r is not None and (l[0] or r[0]):
                        tests.append((atom.a[0], l, r, eff))
                        bound = max(bound, abs(l[1]) + abs(r[1]) + 2)
                elif lin(atom) is not None and lin(atom)[0]:
                    tests.append(("!=", lin(atom), (0, 0), eff))        # `if b:` / `if b - 1 + 1:`
                    bound = max(bound, abs(lin(atom)[1]) + 2)
            okg = bool(tests) and all(
                all(CMP[op](l[0] * b + l[1], r[0] * b + r[1]) == eff for op, l, r, eff in tests) == (b >= 1)
                for b in range(0, bound + 1))
            run.ob("R2", MOD, "CallstacksParser.feed_generator", "attribution only when an image at or below the frame exists", okg,
                   "the attributed branch is not guarded by index > -1 / >= 0: with no image below the frame, index -1 reads the LAST "
                   "image and yields a negative offset", line=hit[0][2])
            run.ob("R2", MOD, "CallstacksParser.feed_generator", "unattributed frames keep their address, no image",
                   miss[0][1][0] == frame and len(miss[0][0]) == len(hit[0][0]),
                   "the unattributed Frame is not Frame(frame, None, None) on the complementary path", nontrivial=False)
    fl_ids = {lr.id for lr in floops} | {lr.id for lr in comps}
    # R4 stamp and yield
    ys = [r for r in rec.returns if r.kind == "yield"]
    CS = T("global", (f"{MOD}.Callstack",))
    first = T("sub", (T("attr", (trace, "ktraces")), const(0)))
    cfields = _nt_fields(repo, "callstacks_parser", "Callstack")
    ok = False
    if len(ys) == 1 and ys[0].value.op == "call" and ys[0].value.a[0] == CS:
        d = dict(zip(cfields, ys[0].value.a[1]))
        d.update(dict(ys[0].value.a[2]))
        ok = d.get("timestamp") == T("attr", (first, "timestamp")) and d.get("tid") == T("attr", (first, "tid")) \
            and not (set(ys[0].loops) & fl_ids) and len(d) == 3
    run.ob("R4", MOD, "CallstacksParser.feed_generator", "one Callstack per sample, stamped with the START record", ok,
           "feed_generator does not yield exactly one Callstack(ktraces[0].timestamp, ktraces[0].tid, frames) per qualifying trace",
           facts={"yield": sym.pretty(ys[0].value)[:160] if ys else None}, line=fg.lineno)
    if ys:
        PERF = T("class", ("pykdebugparser.trace_handlers.perf.PerfEvent",))
        want = {T("call", (T("builtin", ("isinstance",)), (trace, PERF), ())),
                T("cmp", ("is", T("attr", (trace, "cs_frames")), const(None)))}
        got = set()
        pol_ok = True
        from .. import guards
        for c, pol in guards._atoms(ys[0].pc):
            atom, apol = render.norm_bool(c)
            eff = pol if apol else not pol
            got.add(atom)
            if atom == T("cmp", ("is", T("attr", (trace, "cs_frames")), const(None))) and eff:
                pol_ok = False
        run.ob("R4", MOD, "CallstacksParser.feed_generator", "qualifying trace = sampler trace carrying a user stack", got == want and pol_ok,
               f"a callstack is yielded when {[sym.pretty(c)[:60] for c, _ in ys[0].pc]}, not exactly for PerfEvent traces whose "
               f"cs_frames is not None", nontrivial=False)

    # ------------------------------------------------------------------ R6 the image tables are the caller's
    # PyKdebugParser hands its own (at first empty) lists to every CallstacksParser it builds: the images announced in one
    # dump are known in the next because they are the same two objects.  A table that was given is kept as it is.
    init = cp.methods.get("__init__")
    if init is None or len(init.args.args) < 3:
        run.floor_failures.append("C15/R6: CallstacksParser.__init__ does not take the two image tables: who owns them is not decided")
    else:
        irec = interp.run(cp.module, init, self_cls=cp)

        def _given(v, prm):
            """v with `prm is None` taken as false (a table WAS given)."""
            if v.op == "ite":
                atom, pol = render.norm_bool(v.a[0])
                if atom == T("cmp", ("is", prm, const(None))):
                    return _given(v.a[2] if pol else v.a[1], prm)
                if atom == T("cmp", ("is not", prm, const(None))):
                    return _given(v.a[1] if pol else v.a[2], prm)
            return v
        n_tab = 0
        for attr in ("dyld_addresses", "dyld_uuids"):
            sts = [e for e in irec.effects if e.kind == "attr-store" and e.key == attr and (e.path or e.base) == SELF]
            if len(sts) != 1:
                run.floor_failures.append(f"C15/R6: self.{attr} is stored {len(sts)} times in CallstacksParser.__init__")
                continue
            n_tab += 1
            prms = [param(a.arg) for a in init.args.args[1:]]
            kept = [prm for prm in prms if _given(sts[0].value, prm) == prm and not sts[0].pc]
            run.ob("R6", MOD, "CallstacksParser.__init__", f"self.{attr} is the table it was given", bool(kept),
                   "" if kept else
                   f"CallstacksParser.__init__ stores {sym.pretty(sts[0].value)[:60]} as self.{attr}: a table that was given - the "
                   f"facade's own, still empty, list - is replaced by another object, so the images one dump announces are not known "
                   f"when the next dump's samples are attributed", line=sts[0].lineno,
                   witness="one PyKdebugParser: a dump with the image announcements, then a dump with the samples")
        run.floor("R6", "image tables stored by the constructor", n_tab, 2)
    # ------------------------------------------------------------------ R3 frames in the sampler decoder
    D = decoders.Decoders(repo)
    # R5 the class tests of feed_generator mean one kind of trace: `isinstance(trace, X)` is also true for the subclasses of
    # X, so no decoder of ANOTHER record kind may return a subclass of a tested class
    tested = {x.a[1][1].a[0] for r_ in list(rec.returns) + list(rec.calls) for c, _ in r_.pc for x in sym.walk(c)
              if x.op == "call" and x.a[0] == T("builtin", ("isinstance",)) and len(x.a[1]) == 2 and x.a[1][1].op == "class"}
    made = {}
    for e_ in D.entries():
        try:
            d_ = D.decode(e_)
        except AnalysisError:
            continue
        if d_.ret is not None and d_.ret.op == "new" and isinstance(d_.ret.a[0], str):
            made.setdefault(d_.ret.a[0], []).append(e_.key)

    def _ancestors(qn, seen=()):
        f_ = repo.lookup(qn)
        if not f_ or f_[0] != "class" or qn in seen:
            return set()
        out = set()
        for b in f_[2].bases:
            out.add(b)
            out |= _ancestors(b, seen + (qn,))
        return out
    for cls_qn in sorted(tested):
        subs = sorted((qn, ks) for qn, ks in made.items() if qn != cls_qn and cls_qn in _ancestors(qn))
        run.ob("R5", MOD, "CallstacksParser.feed_generator", f"isinstance(trace, {cls_qn.rsplit('.', 1)[1]}) means one kind of record",
               not subs, "" if not subs else
               f"{subs[0][0].rsplit('.', 1)[1]} (returned by the decoder of {subs[0][1][0]}) derives from {cls_qn.rsplit('.', 1)[1]}: "
               f"feed_generator's isinstance test is true for those records too, so "
               + ("a record that does not announce an image inserts one" if "Map" in cls_qn else "records of another kind are taken for samples"),
               line=fg.lineno, witness=None if not subs else f"a {subs[0][1][0]} record")
    run.floor("R5", "classes tested by isinstance in feed_generator", len(tested), 2)
    ent = [e for e in D.entries() if e.key == "PERF_Event"]
    if not ent:
        raise AnalysisError("anchor vanished: PERF_Event decoder")
    d = D.decode(ent[0])
    f = dict(d.ret.a[1]) if d.ret.op == "new" else {}
    from .. import normal
    cs = normal.normalise(d.rec, f.get("cs_frames"))
    f["sample_what"] = normal.normalise(d.rec, f.get("sample_what"))
    PM = ent[0].module.name
    if cs is None:
        raise AnalysisError("PERF_Event decoder result has no cs_frames")
    ok = False
    detail = {}
    if cs.op == "ite" and cs.a[2] == const(None) and cs.a[1].op == "ite" and cs.a[1].a[2] == const(None):
        c_out, c_in, val = cs.a[0], cs.a[1].a[0], cs.a[1].a[1]
        ustack = T("enum", ("pykdebugparser.trace_handlers.perf.SamplerAction", "SAMPLER_USTACK"))
        ok_out = c_out.op == "cmp" and c_out.a[0] == "in" and c_out.a[1] == ustack and c_out.a[2] == f.get("sample_what")
        hdr = named_selection(c_in, "PERF_STK_UHdr")
        ok_val = False
        if hdr is not None and val.op == "slice" and val.a[1] == const(None):
            nframes = T("sub", (T("attr", (T("sub", (hdr[1], const(0))), "values")), const(1)))
            body = val.a[0]
            if val.a[2] == nframes and body.op == "call" and body.a[0] == T("builtin", ("list",)) and len(body.a[1]) == 1:
                ch = body.a[1][0]
                if ch.op == "call" and ch.a[0] == T("global", ("itertools.chain.from_iterable",)) and len(ch.a[1]) == 1:
                    data = ch.a[1][0]
                    if data.op == "comp" and data.a[0] == "list" and len(data.a[2]) == 1:
                        ev, it, conds = data.a[2][0]
                        sel = named_selection(T("comp", ("list", ev, data.a[2])), "PERF_STK_UData")
                        words = data.a[1]
                        vals_ = T("attr", (ev, "values"))
                        all_words = words == T("call", (T("builtin", ("list",)), (vals_,), ())) or words == vals_ \
                            or words in (T("list", (tuple(T("sub", (vals_, const(i))) for i in range(4)),)),
                                         T("tuple", (tuple(T("sub", (vals_, const(i))) for i in range(4)),)))
                        ok_val = sel is not None and all_words
        ok = ok_out and hdr is not None and ok_val
        detail = {"flag_gate": ok_out, "header_selection": hdr is not None, "frames_form": ok_val}
    if not ok and any(x.op in ("widen", "unknown") or (x.op == "call" and x.a[0].op == "func") for x in sym.walk(cs)):
        # the frames come out of an intermediate structure the interpreter could not reduce to a selection of the window's
        # records (records grouped into a dictionary first, a helper it could not follow ...): not decided
        raise AnalysisError("PERF_Event: cs_frames is computed through an intermediate structure that is not reduced to selections of "
                            f"the window's records: {sym.pretty(cs)[:120]}")
    run.ob("R3", PM, "handle_event", "cs_frames = chained UData words truncated to the first header's count", ok,
           "" if ok else f"cs_frames is not `list(chain.from_iterable(<4 words of every nested PERF_STK_UData record>))[:<word 1 of the "
                         f"first nested PERF_STK_UHdr>]` set iff SAMPLER_USTACK is requested and a header is present ({detail})",
           facts={"term": sym.pretty(cs)[:400]}, line=ent[0].func.lineno)
