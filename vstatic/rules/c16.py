"""C16 - log records decode for every combination of optional fields."""
from __future__ import annotations

import ast
from typing import List, Tuple

from .. import consteval, render, cstruct, sym
from ..model import AnalysisError, Repo
from ..report import Run, take_over
from ..sym import T, const, param

EXPLANATION = (
    "from_raw_log_event is interpreted symbolically; the keyword dictionary handed to the dataclass constructor is "
    "unfolded into (field, value, condition) stores. R1: every key written is a declared field of OsLogEvent (an unknown "
    "keyword makes the constructor raise for every record carrying that raw key). R2: every field without a default is "
    "stored unconditionally and every conditionally stored field has a default, so any of the 2^31 subsets of optional keys "
    "constructs. R3: a store guarded by `K in event` consumes exactly raw key K; each raw key is consumed once; each field "
    "is stored once. R4: the trace-identifier layout (construct declaration evaluated to bit positions of the 64-bit "
    "little-endian word) equals the firehose packing and each TraceIdentifier field reads the layout field of its meaning. "
    "R5: a class applied to a flags byte through a registry must be able to represent zero and combinations (a plain Enum "
    "whose members are >= 3 distinct single bits is a bit set). R6: raw-key -> (field, string-index or raw) agrees with the "
    "table confirmed on the reviewed tree (new keys are reported, not judged). R10: the 'ud' timeval becomes the aware UTC "
    "datetime epoch + sec + usec/10**6 (linear form of the conversion, or zero-padded decimal text)."
)

MOD = "pykdebugparser.os_log_event"

# raw key -> (field, kind) confirmed by reading the reviewed tree; kind: idx = through the string index, raw = as is,
# conv = converted (enum / nested dict / date)
KEYMAP = {
    "cm": ("composed_message", "idx"), "t": ("type_", "raw"), "s": ("size", "raw"), "tid": ("thread_identifier", "raw"),
    "ns": ("continuous_nanoseconds_since_boot", "raw"), "mct": ("mach_continuous_timestamp", "raw"),
    "b": ("boot_uuid", "raw"), "piu": ("process_image_uuid", "raw"), "ud": ("unix_date", "conv"),
    "utz": ("unix_timezone", "conv"), "ti": ("trace_identifier", "conv"), "pip": ("process_image_path", "idx"),
    "p": ("process", "idx"), "sip": ("sender_image_path", "idx"), "send": ("sender", "idx"),
    "sio": ("sender_image_offset", "raw"), "siu": ("sender_image_uuid", "raw"), "lt": ("log_type", "conv"),
    "ttl": ("time_to_live", "raw"), "pid": ("process_identifier", "raw"), "aid": ("activity_identifier", "raw"),
    "paid": ("parent_activity_identifier", "raw"), "tai": ("transition_activity_identifier", "raw"),
    "sub": ("subsystem", "idx"), "cat": ("category", "idx"), "f": ("format_string", "idx"),
    "cai": ("creator_activity_identifier", "raw"), "cpui": ("creator_process_unique_identifier", "raw"),
    "si": ("signpost_identifier", "raw"), "sn": ("signpost_name", "idx"), "st": ("signpost_type", "raw"),
    "ss": ("signpost_scope", "raw"), "lsmct": ("loss_start_mach_continuous_timestamp", "raw"),
    "lemct": ("loss_end_mach_continuous_timestamp", "raw"), "lsud": ("loss_start_unix_date", "raw"),
    "leud": ("loss_end_unix_date", "raw"), "lsutz": ("loss_start_unix_timezone", "conv"),
    "leutz": ("loss_end_unix_timezone", "conv"), "bt": ("backtrace", "conv"), "lc": ("loss_count", "conv"),
    "dm": ("decomposed_message", "conv"),
}

# firehose_tracepoint_id_u (libdispatch firehose/tracepoint_private.h): namespace:8, type:8, flags:16, code:32;
# flags low byte: has_current_aid 0x01, pc_style 0x07<<1, has_unique_pid 0x10, has_large_offset 0x20; high byte: namespace flags
FIREHOSE_BITS = {
    "namespace": (0, 7), "type_": (8, 15), "has_current_aid": (16, 16), "pc_style": (17, 19),
    "has_unique_pid": (20, 20), "has_large_offset": (21, 21), "flags": (24, 31), "code": (32, 63),
}


_TD_UNITS = {"days": 86400.0, "seconds": 1.0, "microseconds": 1e-6, "milliseconds": 1e-3, "minutes": 60.0, "hours": 3600.0,
             "weeks": 604800.0}
_TD_ORDER = ("days", "seconds", "microseconds", "milliseconds", "minutes", "hours", "weeks")
_UTC = T("global", ("datetime.timezone.utc",))


class _NotLinear(Exception):
    pass


def _linear(t: T, sec: T, usec: T):
    """(a, b, c) with t == a*sec + b*usec + c for arithmetic over the two timeval members and constants."""
    if t == sec:
        return (1.0, 0.0, 0.0)
    if t == usec:
        return (0.0, 1.0, 0.0)
    if t.op == "const" and isinstance(t.a[0], (int, float)) and not isinstance(t.a[0], bool):
        return (0.0, 0.0, float(t.a[0]))
    if t.op == "call" and t.a[0].op == "builtin" and t.a[0].a[0] in ("float", "int") and len(t.a[1]) == 1 and not t.a[2] \
            and t.a[1][0] in (sec, usec):
        return _linear(t.a[1][0], sec, usec)
    if t.op == "bin" and t.a[0] in ("+", "-"):
        l, r = _linear(t.a[1], sec, usec), _linear(t.a[2], sec, usec)
        sg = 1.0 if t.a[0] == "+" else -1.0
        return tuple(x + sg * y for x, y in zip(l, r))
    if t.op == "bin" and t.a[0] == "*":
        l, r = _linear(t.a[1], sec, usec), _linear(t.a[2], sec, usec)
        for x, y in ((l, r), (r, l)):
            if x[0] == 0.0 and x[1] == 0.0:
                return tuple(x[2] * v for v in y)
        raise _NotLinear(sym.pretty(t))
    if t.op == "bin" and t.a[0] == "/":
        l, r = _linear(t.a[1], sec, usec), _linear(t.a[2], sec, usec)
        if r[0] == 0.0 and r[1] == 0.0 and r[2] != 0.0:
            return tuple(v / r[2] for v in l)
    raise _NotLinear(sym.pretty(t))


def _instant(t: T, sec: T, usec: T):
    """('lin', (a, b, c), tz) for a datetime expression that is epoch + a*sec + b*usec + c seconds;
    ('text', problem or None, tz) for fromtimestamp(float(<decimal text>))."""
    fts = T("global", ("datetime.datetime.fromtimestamp",))
    if t.op == "call" and t.a[0] == fts and 1 <= len(t.a[1]) <= 2:
        kw = dict(t.a[2])
        tz = t.a[1][1] if len(t.a[1]) == 2 else kw.get("tz")
        x = t.a[1][0]
        if x.op == "call" and x.a[0] == T("builtin", ("float",)) and len(x.a[1]) == 1 and x.a[1][0].op == "fstr":
            parts = x.a[1][0].a[0]
            if len(parts) == 3 and parts[0][0] == "val" and parts[0][1] == sec and parts[1] == ("lit", ".") \
                    and parts[2][0] == "val" and parts[2][1] == usec:
                spec = parts[2][3].a[0] if parts[2][3] is not None and parts[2][3].op == "const" else ""
                padded = spec in ("06", "06d", "0>6", "0>6d")
                return ("text", None if padded else
                        f"the microseconds are written after the decimal point without zero padding to six digits "
                        f"(format spec {spec!r}): 4500 us reads as .4500 s = 450000 us", tz)
            raise _NotLinear(sym.pretty(x))
        return ("lin", _linear(x, sec, usec), tz)
    td = T("global", ("datetime.timedelta",))
    if t.op == "bin" and t.a[0] == "+":
        for base, delta in ((t.a[1], t.a[2]), (t.a[2], t.a[1])):
            if delta.op == "call" and delta.a[0] == td:
                kind, lin, tz = _instant(base, sec, usec)
                if kind != "lin":
                    raise _NotLinear(sym.pretty(t))
                terms = list(zip(_TD_ORDER, delta.a[1])) + list(delta.a[2])
                for unit, val in terms:
                    if unit not in _TD_UNITS:
                        raise _NotLinear(sym.pretty(delta))
                    lin = tuple(x + _TD_UNITS[unit] * y for x, y in zip(lin, _linear(val, sec, usec)))
                return ("lin", lin, tz)
    if t.op == "call" and t.a[0].op == "attr" and t.a[0].a[1] == "replace" and not t.a[1] and \
            [k_ for k_, _ in t.a[2]] == ["microsecond"]:
        kind, lin, tz = _instant(t.a[0].a[0], sec, usec)
        if kind == "lin" and lin[1] == 0.0:
            m = _linear(t.a[2][0][1], sec, usec)
            return ("lin", tuple(x + 1e-6 * y for x, y in zip(lin, m)), tz)
    dt = T("global", ("datetime.datetime",))
    if t.op == "call" and t.a[0] == dt and [a_ for a_ in t.a[1]] == [const(1970), const(1), const(1)]:
        return ("lin", (0.0, 0.0, 0.0), dict(t.a[2]).get("tzinfo"))
    raise _NotLinear(sym.pretty(t))


def check_segments(repo: Repo, run: Run, interp, ci) -> None:
    """R11: the decoded message lists one parsed segment per raw segment, in order: the value stored under 'segments' is a list
    comprehension over decomposed['seg'] itself - not over a slice, a filter or a reordering of it."""
    fn = ci.methods.get("parse_decomposed")
    if fn is None:
        raise AnalysisError("anchor vanished: OsLogEvent.parse_decomposed")
    rec = interp.run(ci.module, fn, self_cls=ci)
    if rec.notes:
        raise AnalysisError(f"parse_decomposed: unsupported construct {rec.notes[0]}")
    dec = param(fn.args.args[1].arg) if fn.args.args and fn.args.args[0].arg in ("cls", "self") else param(fn.args.args[0].arg)
    seg = T("sub", (dec, const("seg")))
    try:
        stores = unfold_dict(rec.return_term())
    except AnalysisError:
        raise
    vals = [(v, cond) for k, v, cond in stores if k == const("segments")]
    if len(vals) != 1:
        raise AnalysisError(f"parse_decomposed: {len(vals)} stores under 'segments' recognised (expected one)")
    v, cond = vals[0]
    from .. import normal
    v = normal.accum_to_comp(rec, v)       # a list filled by an append loop is the comprehension it equals
    while v.op == "call" and v.a[0].op == "builtin" and v.a[0].a[0] in ("list", "tuple") and len(v.a[1]) == 1:
        v = v.a[1][0]
    if not (v.op == "comp" and v.a[0] in ("list", "gen") and len(v.a[2]) == 1):
        raise AnalysisError(f"parse_decomposed: 'segments' is not a comprehension over the raw segments: {sym.pretty(v)[:80]}")
    ev, it, conds = v.a[2][0]
    src = it
    how = []
    while True:
        if src.op == "call" and src.a[0].op == "builtin" and src.a[0].a[0] in ("list", "tuple", "iter") and len(src.a[1]) == 1:
            src = src.a[1][0]
        elif src.op == "slice":
            how.append("a slice " + sym.pretty(src)[len(sym.pretty(src.a[0])):][:30])
            src = src.a[0]
        elif src.op == "call" and src.a[0].op == "builtin" and src.a[0].a[0] in ("reversed", "sorted", "set", "filter") and src.a[1]:
            how.append(src.a[0].a[0] + "(...)")
            src = src.a[1][-1]
        else:
            break
    if src != seg:
        raise AnalysisError(f"parse_decomposed: the segments are taken from {sym.pretty(src)[:60]}, not from the record's 'seg' list")
    if conds:
        how.append("a filter " + sym.pretty(conds[0])[:40])
    ok = not how and sym.contains(v.a[1], ev)
    run.ob("R11", MOD, "OsLogEvent.parse_decomposed", "one parsed segment per raw segment, in order", ok,
           "" if ok else f"the decoded message is built over {', '.join(how) or 'something other than each raw segment'} of the record's "
                         f"segments: segments are dropped or reordered",
           line=fn.lineno, witness="a message with a trailing literal segment: 'copied %d bytes (done)' has two segments, one placeholder")


def check_unix_date(run: Run, v: T, event: T, line: int) -> None:
    ud = T("call", (T("attr", (event, "pop")), (const("ud"),), ()))
    sec, usec = T("sub", (ud, const("sec"))), T("sub", (ud, const("usec")))
    scope = "OsLogEvent.from_raw_log_event"
    try:
        kind, what, tz = _instant(v, sec, usec)
    except _NotLinear as ex:
        raise AnalysisError(f"C16/R10: the conversion of the 'ud' timeval is outside the recognised forms: {str(ex)[:120]}")
    if kind == "text":
        run.ob("R10", MOD, scope, "unix_date = epoch + sec + usec/10**6", what is None, what or "", line=line,
               witness=None if what is None else "{'sec': 1634714583, 'usec': 4500}")
    else:
        a, b, c = what
        ok = abs(a - 1.0) < 1e-12 and abs(b - 1e-6) < 1e-15 and abs(c) < 1e-12
        run.ob("R10", MOD, scope, "unix_date = epoch + sec + usec/10**6", ok,
               "" if ok else f"unix_date is the instant {a:g}*sec + {b:g}*usec + {c:g} seconds after the epoch, not sec + usec/10**6",
               facts={"coefficients": [a, b, c]}, line=line,
               witness=None if ok else "{'sec': 1634714583, 'usec': 810447}")
    if tz is None:
        run.ob("R10", MOD, scope, "unix_date is an aware UTC datetime", False,
               "the timestamp is converted without a time zone: fromtimestamp() then yields the host's local wall clock, not "
               "the UTC instant", line=line)
    elif tz in (_UTC, T("global", ("datetime.UTC",))):
        run.ob("R10", MOD, scope, "unix_date is an aware UTC datetime", True, nontrivial=False)
    else:
        raise AnalysisError(f"C16/R10: time zone argument {sym.pretty(tz)[:60]} is not datetime.timezone.utc: not judged")


def unfold_dict(t: T, _memo=None):
    """[(key term, value term, cond tuple)] in store order for a dict built by (conditional) item stores."""
    memo = {} if _memo is None else _memo
    if id(t) in memo:
        return memo[id(t)]
    if t.op == "dict":
        res = [(k, v, ()) for k, v in t.a[0]]
    elif t.op == "mut" and t.a[1] == "__setitem__":
        res = unfold_dict(t.a[0], memo) + [(t.a[2][0], t.a[2][1], ())]
    elif t.op == "ite":
        c, x, y = t.a
        ax, ay = unfold_dict(x, memo), unfold_dict(y, memo)
        n = 0
        while n < len(ax) and n < len(ay) and (ax[n] is ay[n] or ax[n] == ay[n]):
            n += 1
        res = ax[:n] + [(k, v, cd + ((c, True),)) for k, v, cd in ax[n:]] \
            + [(k, v, cd + ((c, False),)) for k, v, cd in ay[n:]]
    else:
        raise AnalysisError(f"keyword dictionary built in an unsupported way: {sym.pretty(t)[:80]}")
    memo[id(t)] = res
    return res


def pops_in(t: T, event: T) -> List[str]:
    out = []
    for x in sym.walk(t):
        if x.op == "call" and x.a[0] == T("attr", (event, "pop")) and x.a[1] and x.a[1][0].op == "const":
            out.append(x.a[1][0].a[0])
        if x.op == "sub" and x.a[0] == event and x.a[1].op == "const":
            out.append(x.a[1].a[0])
    return out


def _only_iterated(value, raws) -> bool:
    """The raw value takes part in `value` only as the thing iterated over (a comprehension's source, the elements of a loop):
    a falsy, i.e. empty, raw value then gives an empty result, which is what an absent field reads as."""
    seen_iter = [False]
    def go(t, under_iter):
        if t in raws:
            if under_iter:
                seen_iter[0] = True
                return True
            return False
        if t.op == "elem":
            return go(t.a[0], True) if isinstance(t.a[0], T) else True
        if t.op == "comp":
            ok = go(t.a[1], False)
            for elem, it, conds in t.a[2]:
                ok = ok and go(it, True) and all(go(c, False) for c in conds)
            return ok
        return all(go(x, False) for x in sym.children(t))
    return go(value, False) and seen_iter[0]


def _conjuncts(pc):
    """The path condition with positive conjunctions (and negated disjunctions) taken apart."""
    out = []
    def go(c, pol):
        if c.op == "bool" and c.a[0] == "and" and pol:
            for x in c.a[1]:
                go(x, True)
        elif c.op == "bool" and c.a[0] == "or" and not pol:
            for x in c.a[1]:
                go(x, False)
        elif c.op == "not":
            go(c.a[0], not pol)
        else:
            out.append((c, pol))
    for c, pol in pc:
        go(c, pol)
    return out


def check_optional_keys(repo: Repo, run: Run, interp) -> None:
    """R7 (a key that is optional somewhere is optional everywhere): in the functions that decode a raw log record and its
    decomposed message, a dict key whose presence is tested on one path (`'or' in arg`) may be absent, so every read
    `arg['or']` of that key from that dict needs the test (or a try / .get) on its own path.  Checking on one path and
    reading unconditionally on another is a contradiction in the code itself - one of the two is wrong."""
    from .. import guards
    mod = repo.module("os_log_event")
    ci = repo.cls("os_log_event", "OsLogEvent")
    units = [(ci, m) for m in ci.methods.values() if m.name.startswith(("from_raw", "parse_"))] + \
        [(None, f) for f in mod.functions.values()]
    n_tested = 0
    for cls, fn in units:
        rec = interp.run(mod, fn, self_cls=cls)
        if rec.notes:
            continue
        conds = [c for p in rec.pops for c, _ in p.pc] + [c for e in rec.effects for c, _ in e.pc] + \
            [c for r in rec.returns for c, _ in r.pc] + [c for c_ in rec.calls for c, _ in c_.pc]
        for r in rec.returns:
            conds.extend(x.a[0] for x in sym.walk(r.value) if x.op == "ite")
        tested = set()
        for c in conds:
            for x in sym.walk(c):
                if x.op == "cmp" and x.a[0] in ("in", "not in") and x.a[1].op == "const" and isinstance(x.a[1].a[0], str):
                    tested.add((x.a[1], x.a[2]))
        n_tested += len(tested)
        qn = f"{cls.name}.{fn.name}" if cls else fn.name
        reads = [p for p in rec.pops if p.kind == "sub" and p.func.endswith(fn.name)]
        for e in rec.effects:
            if e.kind == "mut-call" and e.key == "pop" and len(e.args) == 1 and e.func.endswith(fn.name):
                reads.append(sym.POp("sub", e.base, e.args[0], e.pc, e.loops, e.trys, e.seq, e.func, e.lineno, e.col, e.path))
        # R12 (each field present appears): a decoded field is stored when its raw key is PRESENT, not when the raw value is
        # truthy - `if raw.get('or'):` drops a present key whose value is 0 (string number 0 of the index), '' or b''
        for e in rec.effects:
            if e.kind != "sub-store" or not e.func.endswith(fn.name) or e.value is None:
                continue
            for c, pol in _conjuncts(e.pc):
                atom, apol = render.norm_bool(c)
                if not (pol if apol else not pol):
                    continue
                key_dict = None
                if atom.op == "call" and atom.a[0].op == "attr" and atom.a[0].a[1] == "get" and 1 <= len(atom.a[1]) <= 2 \
                        and atom.a[1][0].op == "const" and isinstance(atom.a[1][0].a[0], str) \
                        and (len(atom.a[1]) == 1 or atom.a[1][1].op == "const" and not atom.a[1][1].a[0]):
                    key_dict = (atom.a[1][0], atom.a[0].a[0])
                elif atom.op == "sub" and atom.a[1].op == "const" and isinstance(atom.a[1].a[0], str):
                    key_dict = (atom.a[1], atom.a[0])
                if key_dict is None:
                    continue
                raw_read = T("sub", (key_dict[1], key_dict[0]))
                if _only_iterated(e.value, (raw_read, atom)):
                    continue        # a list built element by element from the raw list: an empty raw list gives the empty default
                if sym.contains(e.value, raw_read) or sym.contains(e.value, atom):
                    run.ob("R12", mod.name, qn, f"field stored at line {e.lineno} when its raw key {key_dict[0].a[0]!r} is present", False,
                           f"{qn} stores the value decoded from raw key {key_dict[0].a[0]!r} only when that raw value is truthy "
                           f"(`{sym.pretty(atom)[:50]}`): a record where the key is present with the value 0 / '' / b'' (string number 0 "
                           f"of the string index, an empty representation) loses the field", line=e.lineno,
                           witness=f"a raw record whose {key_dict[0].a[0]!r} is 0")
        seen = set()
        for p in reads:
            hit = next(((k, d) for k, d in tested if k == p.key and d in (p.base, p.path)), None)
            if hit is None or (p.key, p.base, p.lineno) in seen:
                continue
            seen.add((p.key, p.base, p.lineno))
            why = guards.member_guarded(p, rec)
            if why is None:
                a = guards.assumptions(p.pc)
                if render.assume_lookup(a, T("cmp", ("in", p.key, hit[1]))) is True:
                    why = "membership tested on the path"
            run.ob("R7", mod.name, qn, f"optional key {p.key.a[0]!r} of {sym.pretty(p.base)[:30]} read at line {p.lineno}", why is not None,
                   "" if why is not None else
                   f"{qn} tests `{p.key.a[0]!r} in {sym.pretty(hit[1])[:30]}` on one path but reads [{p.key.a[0]!r}] at line {p.lineno} on a "
                   f"path without that test ({[sym.pretty(c)[:40] + ('' if v else ' is false') for c, v in p.pc][:3]}): a record without "
                   f"the key raises KeyError",
                   facts={"discharged_by": why}, line=p.lineno,
                   witness=None if why is not None else f"a log record / decomposed-message segment without the key {p.key.a[0]!r}")
    run.floor("R7", "(key, dict) pairs whose presence is tested", n_tested, 30)




def check(repo: Repo, run: Run) -> None:
    if not getattr(run, "is_probe", False):
        take_over(run, "c03", "C03", repo, lambda o: o["rule"] == "R6" and ("every collected log record is decoded in order" in o["construct"] or "string index is inverted" in o["construct"]), "R0",
                   "container side", "the same records parsed out of a version-3 file are then not all yielded: a record lacking "
                   "an optional key is decoded and dropped", 1)
    interp = sym.Interp(repo)
    check_optional_keys(repo, run, interp)
    mod = repo.module("os_log_event")
    ci = repo.cls("os_log_event", "OsLogEvent")
    fn = repo.method("os_log_event", "OsLogEvent", "from_raw_log_event")
    names = [a.arg for a in fn.args.args]
    event, strings = param(names[1]), param(names[2])
    rec = interp.run(mod, fn, self_cls=ci)
    if rec.notes:
        raise AnalysisError(f"from_raw_log_event: unsupported construct {rec.notes[0]}")
    ret = rec.return_term()
    if not (ret.op == "call" and ret.a[0] in (T("class", (ci.qualname,)), param("cls"))):
        raise AnalysisError(f"from_raw_log_event does not return a constructor call: {sym.pretty(ret)[:80]}")
    kw = dict(ret.a[2])
    stores: List[Tuple[T, T, tuple]] = []
    if "**" in kw:
        stores = unfold_dict(kw["**"])
    for k, v in ret.a[2]:
        if k != "**":
            stores.append((const(k), v, ()))
    def _norm(cond):
        # `not ('k' not in event)` is `'k' in event`: conditions are compared as (atom, polarity)
        out = []
        for c, p_ in cond:
            atom, pol = render.norm_bool(c)
            out.append((atom, p_ if pol else not p_))
        return tuple(out)
    stores = [(k, v, _norm(cond)) for k, v, cond in stores]
    fields = dict(ci.fields)
    declared = list(fields)
    run.analysed.update({"declared_fields": len(declared), "stores": len(stores)})
    run.floor("R1", "keyword stores", len(stores), 35)

    seen_fields = {}
    consumed = {}
    for k, v, cond in stores:
        if k.op != "const" or not isinstance(k.a[0], str):
            raise AnalysisError(f"non-constant keyword key {sym.pretty(k)}")
        fname = k.a[0]
        raw = pops_in(v, event)
        cond_txt = " and ".join(sym.pretty(c) if p_ else f"not {sym.pretty(c)}" for c, p_ in cond) or "always"
        # R1
        run.ob("R1", MOD, "OsLogEvent.from_raw_log_event", f"field {fname}", fname in fields,
               "" if fname in fields else
               f"keyword {fname!r} (from raw key {raw}) is not a field of OsLogEvent: OsLogEvent(**kwargs) raises TypeError "
               f"for every record where {cond_txt}", facts={"raw_keys": raw, "when": cond_txt}, line=fn.lineno,
               witness=f"a raw record containing key {raw[0]!r}" if raw else None)
        # R3 one store per field
        run.ob("R3", MOD, "OsLogEvent.from_raw_log_event", f"field {fname} stored once", fname not in seen_fields,
               f"field {fname} is stored twice (first from {seen_fields.get(fname)}): the earlier value is lost",
               nontrivial=False)
        seen_fields[fname] = raw
        # R2
        if fname in fields:
            has_default = fields[fname] is not None
            if cond:
                run.ob("R2", MOD, "OsLogEvent.from_raw_log_event", f"optional field {fname} has a default", has_default,
                       f"field {fname} is only stored when {cond_txt} but has no default: records without the key raise "
                       f"TypeError", line=fn.lineno)
        # R3 guard matches consumed key
        guards = [c.a[1].a[0] for c, p_ in cond if p_ and c.op == "cmp" and c.a[0] == "in" and c.a[2] == event
                  and c.a[1].op == "const"]
        other = [c for c, p_ in cond if not (p_ and c.op == "cmp" and c.a[0] == "in" and c.a[2] == event)]
        if cond:
            ok = len(guards) == 1 and not other and set(raw) == {guards[0]}
            run.ob("R3", MOD, "OsLogEvent.from_raw_log_event", f"field {fname}: guard key == consumed key", ok,
                   "" if ok else f"field {fname} is stored when {cond_txt} but consumes raw key(s) {raw}: a record with "
                                 f"one key and not the other raises KeyError or silently takes the wrong value",
                   facts={"guard": guards, "consumed": raw}, line=fn.lineno)
        for r in set(raw):
            run.ob("R3", MOD, "OsLogEvent.from_raw_log_event", f"raw key {r} consumed once", r not in consumed,
                   f"raw key {r!r} is consumed for both {consumed.get(r)} and {fname}; the second pop raises KeyError",
                   nontrivial=False)
            consumed.setdefault(r, fname)
        # R6 key map / kind
        for r in set(raw):
            if r in KEYMAP:
                wf, kind = KEYMAP[r]
                okf = wf == fname
                run.ob("R6", MOD, "OsLogEvent.from_raw_log_event", f"raw key {r} -> field", okf,
                       "" if okf else f"raw key {r!r} is decoded into field {fname}; it carries {wf}", line=fn.lineno)
                idx = T("sub", (strings, T("call", (T("attr", (event, "pop")), (const(r),), ()))))
                raw_t = T("call", (T("attr", (event, "pop")), (const(r),), ()))
                if kind == "idx":
                    okk = v == idx
                    run.ob("R6", MOD, "OsLogEvent.from_raw_log_event", f"raw key {r}: through the string index", okk,
                           "" if okk else f"{fname} should be log_strings[event.pop({r!r})] but is {sym.pretty(v)[:80]}",
                           line=fn.lineno)
                elif kind == "raw":
                    okk = v == raw_t
                    run.ob("R6", MOD, "OsLogEvent.from_raw_log_event", f"raw key {r}: value as is", okk,
                           "" if okk else f"{fname} should be event.pop({r!r}) unchanged but is {sym.pretty(v)[:80]}",
                           line=fn.lineno)
            else:
                run.note(f"raw key {r!r} -> {fname} is not in the reviewed key table (new key: not judged)")
    # R11: "message segments in order"
    check_segments(repo, run, interp, ci)
    # R10: "the timestamp as the corresponding UTC instant"
    for k, v, cond in stores:
        if k.a[0] == "unix_date":
            check_unix_date(run, v, event, fn.lineno)
    # R2 mandatory fields stored unconditionally
    uncond = {k.a[0] for k, v, cond in stores if not cond}
    for fname, dflt in ci.fields:
        if dflt is None:
            run.ob("R2", MOD, "OsLogEvent", f"mandatory field {fname} always stored", fname in uncond,
                   f"field {fname} has no default and is not stored unconditionally: construction raises TypeError",
                   line=ci.node.lineno)
    # R8: "absent fields keep their defaults": the default of an optional field is the empty value of its kind (None, 0,
    # '', b'', False, an empty container), never a value a record could carry - otherwise a record without the key
    # decodes like a record that has it
    for fname, dflt in ci.fields:
        if dflt is None:
            continue
        v = consteval.evaluate(repo, ci.module, dflt)
        neutral = (v is None or (isinstance(v, (int, float, str, bytes, tuple, list, dict, set, frozenset)) and not v
                                 and v is not consteval.UNKNOWN))
        if not neutral and isinstance(dflt, ast.Call) and not dflt.args and not dflt.keywords and \
                isinstance(dflt.func, ast.Name) and dflt.func.id in ("dict", "list", "set", "tuple", "str", "bytes", "int"):
            neutral = True              # default_factory=dict / list ...
        if not neutral and isinstance(dflt, (ast.Dict, ast.List, ast.Tuple, ast.Set)) and not (
                dflt.keys if isinstance(dflt, ast.Dict) else dflt.elts):
            neutral = True
        factory = None
        if isinstance(dflt, ast.Call) and not dflt.args and not dflt.keywords and isinstance(dflt.func, ast.Name):
            factory = dflt.func.id if dflt.func.id in ("dict", "list", "set", "tuple", "str", "bytes", "int") else _partial_factory(ci.module, dflt.func.id)
        if not neutral and factory in ("dict", "list", "set", "tuple", "str", "bytes", "int"):
            neutral = True              # empty_dict = partial(field, default_factory=dict); x: Dict = empty_dict()
        if neutral and factory is not None:
            ann = next((st.annotation for st in ci.node.body if isinstance(st, ast.AnnAssign) and isinstance(st.target, ast.Name)
                        and st.target.id == fname), None)
            ann_name = None
            if ann is not None:
                a0 = ann.value if isinstance(ann, ast.Subscript) else ann
                ann_name = a0.id if isinstance(a0, ast.Name) else a0.attr if isinstance(a0, ast.Attribute) else None
            kind = {"List": "list", "list": "list", "Dict": "dict", "dict": "dict", "Set": "set", "set": "set", "Tuple": "tuple",
                    "tuple": "tuple", "str": "str", "bytes": "bytes", "int": "int"}.get(ann_name)
            if kind is not None and kind != factory:
                run.ob("R8", MOD, "OsLogEvent", f"default of optional field {fname} is the empty value of its own kind", False,
                       f"field {fname} is declared {ann_name} but defaults to {factory}(): a record without the key decodes to another "
                       f"kind of empty value than a record that carries an empty one (`{factory}()` is not `{kind}()`)",
                       line=dflt.lineno, witness=f"a record without the raw key of {fname}")
        run.ob("R8", MOD, "OsLogEvent", f"default of optional field {fname} is an empty value", neutral,
               "" if neutral else
               f"field {fname} defaults to {ast.unparse(dflt)[:60]}: a record that lacks the key decodes exactly like a record "
               f"that carries this value, so absence is no longer visible in the decoded record", nontrivial=False,
               line=getattr(dflt, "lineno", ci.node.lineno),
               witness=f"a record without the raw key of {fname}")
    n_opt = sum(1 for k, v, cond in stores if cond)
    run.floor("R3", "optional keys", n_opt, 28)
    run.analysed["optional_keys"] = n_opt

    # ------------------------------------------------------------------ R9 the values the format defines
    # "the exact inverse of its bit packing for every namespace/type/flag value the format defines": the names the decoder
    # gives to namespace / type / flag values are those of libdispatch's firehose headers (oracles/darwin.FIREHOSE)
    from ..oracles import darwin
    n_ref = 0
    for cname, ref in sorted(darwin.FIREHOSE.items()):
        ec = mod.classes.get(cname)
        if ec is None or not ec.enum_kind:
            run.note(f"{cname}: not an enum of os_log_event any more (values not compared)")
            continue
        have = ec.member_dict()
        for mname, want in sorted(ref.items()):
            if mname not in have:
                continue
            n_ref += 1
            run.ob("R9", MOD, cname, f"{mname} == {want:#x}", have[mname] == want,
                   f"{cname}.{mname} is {have[mname]!r} but the format defines {want:#x}: identifiers carrying that value are shown "
                   f"under another name (and {have[mname]!r} is shown as {mname})", nontrivial=False, line=ec.node.lineno,
                   witness=f"a trace identifier whose field holds {want:#x}")
    run.floor("R9", "firehose values compared with the reference", n_ref, 30)

    # ------------------------------------------------------------------ R4 trace identifier
    lay_node = repo.constant("os_log_event", "firehose_tracepoint_id")
    layout = cstruct.CEval(repo, mod).ev(lay_node)
    run.ob("R4", MOD, "firehose_tracepoint_id", "8 bytes", layout.size == ("fixed", 8),
           f"the trace-identifier layout has size {layout.size}, not a fixed 8 bytes", facts={"size": list(layout.size)})
    if layout.size == ("fixed", 8):
        bits = cstruct.bit_positions_le64(layout)
        pti = repo.method("os_log_event", "OsLogEvent", "parse_trace_identifier")
        r2 = interp.run(mod, pti, self_cls=ci)
        tid_param = param(pti.args.args[1].arg)
        parsed = T("call", (T("attr", (T("global", (f"{MOD}.firehose_tracepoint_id",)), "parse")),
                            (T("call", (T("global", ("construct.Int64ul.build",)), (tid_param,), ())),), ()))
        obj = r2.return_term()
        # R13 the registries are looked up only for namespaces they list: the word's namespace byte takes every defined value,
        # and two of them (loss, unknown) have no type table
        from .. import guards as _g
        n_reg_reads = 0
        for p_ in r2.pops:
            if p_.kind == "sub" and p_.base.op == "global" and p_.base.a[0].startswith("pykdebugparser.") \
                    and p_.base.a[0].rsplit(".", 1)[1] in ("tracepoint_types", "tracepoint_flags"):
                n_reg_reads += 1
                why = _g.member_guarded(p_, r2) or ("enclosing try/except KeyError" if _g.in_try(p_, {"KeyError", "LookupError", "Exception", "BaseException"}) else None)
                if why is None:
                    a_ = _g.assumptions(p_.pc)
                    if render.assume_lookup(a_, T("cmp", ("in", p_.key, p_.base))) is True:
                        why = "membership tested on the path"
                if why is None:
                    # membership tested in a table that has the registry's own keys: `{ns: ... for ns, e in <registry>.items()}`
                    short_ = p_.base.a[0].rsplit(".", 1)[1]
                    for gname_, gnode_ in mod.constants.items():
                        if isinstance(gnode_, ast.DictComp) and len(gnode_.generators) == 1 and not gnode_.generators[0].ifs:
                            it_ = gnode_.generators[0].iter
                            src_ = it_.func.value if isinstance(it_, ast.Call) and isinstance(it_.func, ast.Attribute) and it_.func.attr in ("items", "keys") else it_
                            tg_ = gnode_.generators[0].target
                            first_ = tg_.elts[0] if isinstance(tg_, ast.Tuple) and tg_.elts else tg_
                            if isinstance(src_, ast.Name) and src_.id == short_ and isinstance(first_, ast.Name) \
                                    and isinstance(gnode_.key, ast.Name) and gnode_.key.id == first_.id:
                                derived_ = T("global", (f"{mod.name}.{gname_}",))
                                if render.assume_lookup(a_, T("cmp", ("in", p_.key, derived_))) is True:
                                    why = f"membership tested in {gname_}, which has the registry's keys"
                run.ob("R13", MOD, "OsLogEvent.parse_trace_identifier", f"{p_.base.a[0].rsplit('.', 1)[1]}[namespace] only for listed namespaces (line {p_.lineno})",
                       why is not None, "" if why is not None else
                       f"parse_trace_identifier reads {p_.base.a[0].rsplit('.', 1)[1]}[{sym.pretty(p_.key)[:40]}] without having established that "
                       f"the namespace is a key of that table (and catches no KeyError): an identifier of a namespace without a table - "
                       f"loss, unknown - raises, and no further log record is yielded", line=p_.lineno,
                       witness="a log record whose trace identifier has namespace byte 7 (loss)")
        run.floor("R13", "registry lookups in parse_trace_identifier", n_reg_reads, 1)
        okp = obj.op == "new" and obj.a[0].endswith("TraceIdentifier") and sym.contains(obj, parsed)
        run.ob("R4", MOD, "OsLogEvent.parse_trace_identifier", "parses the little-endian 64-bit encoding", okp,
               "parse_trace_identifier no longer parses firehose_tracepoint_id from Int64ul.build(word)",
               line=pti.lineno)
        if okp:
            for fname, fv in obj.a[1]:
                want = FIREHOSE_BITS.get(fname)
                if want is None:
                    run.note(f"TraceIdentifier.{fname} is not in the firehose reference table")
                    continue
                # layout leaves read by this field (value dependence only)
                from ..decoders import strip_conditions
                leaves = set()
                def _member(t):
                    # a parsed Container gives its fields as attributes and as items: flags.has_x and flags['has_x']
                    if t.op == "attr":
                        return t.a[1]
                    if t.op == "sub" and t.a[1].op == "const" and isinstance(t.a[1].a[0], str):
                        return t.a[1].a[0]
                    return None
                for x in sym.walk(_drop_selectors(strip_conditions(fv))):
                    if _member(x) is not None:
                        path = []
                        cur = x
                        while _member(cur) is not None and cur != parsed:
                            path.append(_member(cur))
                            cur = cur.a[0]
                        if cur == parsed and path:
                            leaves.add(".".join(reversed(path)))
                # a member looked up in a table built from the registry (`{m.value: m for m in E}`) instead of through the class:
                # iteration lists the named (for a Flag: the single-bit) members only, the class also accepts their combinations
                dropped = _drop_selectors(strip_conditions(fv))
                partial = [x for x in sym.walk(dropped) if x.op == "sub" and x.a[0] == T("global", ("<registry-selected table>",))]
                has_class_call = any(x.op == "call" and x.a[0] == T("global", ("<registry-selected class>",)) for x in sym.walk(dropped))
                lone_get = [x for x in sym.walk(dropped) if x.op == "call" and x.a[0] == T("global", ("<registry-selected table>.get",))
                            and len(x.a[1]) == 1] if not has_class_call else []
                if partial or lone_get:
                    run.ob("R4", MOD, "OsLogEvent.parse_trace_identifier", f"TraceIdentifier.{fname}: every defined value has a member", False,
                           f"TraceIdentifier.{fname} is looked up in a table derived from the registry "
                           f"({sym.pretty((partial or lone_get)[0])[:60]}) with no way through the enum class itself: values the class "
                           f"accepts but the table does not list (a combination of Flag members, value 0) raise KeyError or give None",
                           line=pti.lineno, witness="a signpost identifier whose type byte is 0x81 (interval_begin | scope_process)")
                # keep only maximal paths
                leaves = {p for p in leaves if not any(q != p and q.startswith(p + ".") for q in leaves)}
                got = sorted(bits.get(p) for p in leaves if p in bits)
                ok = len(leaves) == 1 and got == [want]
                run.ob("R4", MOD, "OsLogEvent.parse_trace_identifier", f"TraceIdentifier.{fname} bits", ok,
                       "" if ok else f"TraceIdentifier.{fname} should be bits {want[0]}..{want[1]} of the identifier but "
                                     f"reads layout field(s) {sorted(leaves)} = bits {got}",
                       facts={"layout_fields": sorted(leaves), "bits": got, "expected": list(want)}, line=pti.lineno)

    # ------------------------------------------------------------------ R5 registries applied to a byte
    n_reg = 0
    for regname in ("tracepoint_types", "tracepoint_flags"):
        node = mod.constants.get(regname)
        if not isinstance(node, ast.Dict):
            raise AnalysisError(f"anchor vanished: os_log_event.{regname} dict literal")
        for k, v in zip(node.keys, node.values):
            dn = repo.dotted(mod, v)
            found = repo.lookup(dn) if dn else None
            if not found or found[0] != "class" or not found[2].enum_kind:
                raise AnalysisError(f"{regname}[{ast.unparse(k)}] is not an enum class")
            ec = found[2]
            vals = [x for _, x in ec.members if isinstance(x, int)]
            single = [x for x in vals if x and x & (x - 1) == 0]
            # a bit set: every member is a distinct non-zero single bit (no zero member, no multi-bit value) and >= 3 of them
            bitset = len(vals) >= 3 and len(single) == len(vals) and len(set(vals)) == len(vals)
            ok = (not bitset) or ec.enum_kind in ("Flag", "IntFlag")
            n_reg += 1
            run.ob("R5", MOD, regname, f"{ast.unparse(k).split('.')[-1]} -> {ec.name}", ok,
                   "" if ok else f"{ec.name} is a plain {ec.enum_kind} whose members {sorted(vals)} are single bits, yet "
                                 f"it is applied to a whole flags byte through {regname}: value 0 and every combination "
                                 f"raise ValueError",
                   facts={"kind": ec.enum_kind, "values": sorted(vals)}, line=v.lineno,
                   witness=f"trace identifier with namespace {ast.unparse(k).split('.')[-1]} and flags byte 0")
    run.floor("R5", "registry entries", n_reg, 6)


def _partial_factory(mod, name: str, depth: int = 0):
    """`name = partial(field, default_factory=F)` (or a partial of such a name, the later keyword winning): 'F'; else None."""
    node = mod.constants.get(name)
    if depth > 4 or not (isinstance(node, ast.Call) and isinstance(node.func, (ast.Name, ast.Attribute)) and node.args):
        return None
    fn_ = node.func.id if isinstance(node.func, ast.Name) else node.func.attr
    if fn_ != "partial":
        return None
    base = node.args[0]
    base_name = base.id if isinstance(base, ast.Name) else base.attr if isinstance(base, ast.Attribute) else None
    for k in node.keywords:
        if k.arg == "default_factory" and isinstance(k.value, ast.Name):
            if base_name == "field" or _partial_factory(mod, base_name, depth + 1) is not None:
                return k.value.id
    if base_name and base_name != "field" and not node.keywords:
        return _partial_factory(mod, base_name, depth + 1)
    return None


def _drop_selectors(t: T) -> T:
    """registry[selector](value) -> value: the class chosen by a registry lookup is a selector, not part of the value."""
    def go(x):
        if isinstance(x, T):
            if x.op == "call" and x.a[0].op in ("sub", "call", "ite") and any(y.op == "global" for y in sym.walk(x.a[0])):
                # the callee is itself computed from a registry (table[ns] / table.get(ns) / a conditional of those)
                return T("call", (T("global", ("<registry-selected class>",)), go(x.a[1]), go(x.a[2])))
            if x.op == "call" and x.a[0].op == "attr" and x.a[0].a[1] == "get" and x.a[0].a[0].op in ("sub", "call") \
                    and any(y.op == "global" for y in sym.walk(x.a[0].a[0])):
                # registry[ns].get(value): a table chosen by the selector, looked up by the value
                return T("call", (T("global", ("<registry-selected table>.get",)), go(x.a[1]), go(x.a[2])))
            if x.op == "sub" and x.a[0].op == "sub" and any(y.op == "global" for y in sym.walk(x.a[0])):
                return T("sub", (T("global", ("<registry-selected table>",)), go(x.a[1])))
            return T(x.op, go(x.a))
        if isinstance(x, tuple):
            return tuple(go(e) for e in x)
        return x
    return go(t)


def _contiguous(vals) -> bool:
    s = sorted(set(vals))
    return len(s) >= 3 and s == list(range(s[0], s[0] + len(s)))
