"""C17 - every registered decoder is reachable; X and X_nocancel decode alike.

Pure table analysis plus one symbolic comparison per twin pair.
"""
from __future__ import annotations

import ast

from .. import decoders, registry, render, sym
from ..model import Repo
from ..report import Run

EXPLANATION = (
    "Static table analysis of the seven decoder registries (dict literals resolved through functools.partial) against "
    "the bundled trace.codes read as data. R1: every registered name occurs in the code table and every id carrying "
    "it has its two qualifier bits clear (the dispatcher looks names up by event id = debug id with the low bits "
    "cleared, so an id with low bits set is unreachable). R2: no name is claimed twice (across families or inside one "
    "dict literal, where the earlier entry would be silently shadowed). R3: for every X_nocancel key, X is registered, "
    "both resolve to the same function and the variant binds nothing but no_cancel=True. R4: the symbolic rendering of "
    "the handler with no_cancel=True equals the rendering with no_cancel=False except for the literal '_nocancel' "
    "inserted directly after the call name (templates compared segment by segment for every alternative)."
)

M = "pykdebugparser.trace_handlers"


def _flat_text_variants(segs):
    out = []
    for choices, flat in render.variants(segs):
        out.append((tuple(sorted(((sym.pretty(c), v) for c, v in choices))), sym.canon(flat)))
    return out


def check(repo: Repo, run: Run) -> None:
    from .c09 import window_obligations
    window_obligations(repo, run, ("K9",), "a registered decoder is then not the one applied to the records carrying its name "
                                            "(base call and _nocancel twin can be decoded by different logic, or one of them not at all)")
    D = decoders.Decoders(repo)
    reg = D.reg
    codes = repo.trace_codes_lines()
    by_name = {}
    for cid, name, ln in codes:
        by_name.setdefault(name, []).append((cid, ln))
    run.analysed.update({"registry_families": list(reg.keys()), "registry_keys": sum(len(v) for v in reg.values()),
                         "code_table_lines": len(codes)})
    run.floor("R1", "registry keys", sum(len(v) for v in reg.values()), 440)
    run.floor("R1", "code table lines", len(codes), 2900)

    # ---- R1 reachability through the code table
    for fam, entries in reg.items():
        for e in entries:
            ids = by_name.get(e.key, [])
            bad = [hex(i) for i, _ in ids if i & 0x3]
            ok = bool(ids) and not bad
            what = ""
            if not ids:
                what = f"decoder registered under {e.key!r} but no line of trace.codes carries that name: unreachable"
            elif bad:
                what = f"code table id(s) {bad} for {e.key!r} have qualifier bits set; event ids never do: unreachable"
            run.ob("R1", e.module.name, "handlers", e.key, ok, what,
                   facts={"ids": [hex(i) for i, _ in ids][:4], "handler": e.func_name}, line=e.lineno)

    # ---- R2 no name claimed twice
    owner = {}
    for fam, entries in reg.items():
        for e in entries:
            prev = owner.get(e.key)
            ok = prev is None
            run.ob("R2", e.module.name, "handlers", e.key, ok,
                   "" if ok else f"{e.key!r} is registered twice ({prev.module.name} line {prev.lineno} and "
                                 f"{e.module.name} line {e.lineno}); only the last one is ever dispatched",
                   nontrivial=False, line=e.lineno)
            owner.setdefault(e.key, e)

    # ---- R2 the family tables stay what their modules registered: nothing outside a family's module writes into its table
    # (a merge that uses one family's table as the accumulator makes that family claim every other family's names)
    interp = sym.Interp(repo)
    fam_tables = {f"pykdebugparser.trace_handlers.{fam}.handlers" for fam in reg} | \
        {f"{m_.name}.handlers" for m_ in repo.modules.values() if ".trace_handlers." in m_.name and "handlers" in m_.constants}
    n_units = 0
    for mod in repo.modules.values():
        units = [(None, f) for f in mod.functions.values()]
        for ci in mod.classes.values():
            units.extend((ci, m) for m in ci.methods.values())
        for ci, fn in units:
            if not any(isinstance(x, (ast.Name, ast.Attribute)) and (getattr(x, "id", None) or getattr(x, "attr", "")).endswith("handlers")
                       or isinstance(x, ast.Name) and x.id in mod.imports for x in ast.walk(fn)):
                continue
            n_units += 1
            try:
                rec = interp.run(mod, fn, self_cls=ci)
            except Exception:
                continue
            for e_ in rec.effects:
                # (the object written: by the path it was reached through, or - `self.handlers = bsd_handlers` first - by what
                # that path held)
                roots = [sym.root_of(x_) for x_ in (e_.path, e_.base) if x_ is not None]
                root = next((r_ for r_ in roots if r_.op == "global" and r_.a[0] in fam_tables), None)
                if root is not None and e_.kind in ("mut-call", "sub-store", "del-sub") \
                        and not mod.name.startswith(root.a[0].rsplit(".", 1)[0]):
                    qn = f"{ci.name}.{fn.name}" if ci else fn.name
                    run.ob("R2", mod.name, qn, f"family table {root.a[0].split('.')[-2]}.handlers is not written", False,
                           f"{qn} changes {root.a[0]} ({e_.kind} {e_.key if not isinstance(e_.key, sym.T) else sym.pretty(e_.key)[:30]}, "
                           f"line {e_.lineno}): after it has run that family claims names of other families as well, and every parser "
                           f"shares one table", line=e_.lineno,
                           witness="build a TracesParser, then look at the family tables / replace a decoder through one parser")
    run.ob("R2", "pykdebugparser", "<package>", "family tables are written only by their own modules (units examined)", True,
           facts={"units": n_units}, nontrivial=False)

    # ---- R3 twins
    eff = registry.effective(reg)
    twins = [e for e in eff.values() if e.key.endswith("_nocancel")]
    run.floor("R3", "X_nocancel registry keys", len(twins), 25)
    for e in twins:
        base_key = e.key[: -len("_nocancel")]
        base = eff.get(base_key)
        kw = {k: ast.unparse(v) for k, v in e.bound_kw}
        if base is None:
            has_code = base_key in by_name
            run.ob("R3", e.module.name, "handlers", base_key, False,
                   f"{e.key!r} is decoded (handler {e.func_name}) but the base call {base_key!r} has no registry entry"
                   + (" although the code table names it" if has_code else ""),
                   facts={"twin": e.key, "handler": e.func_name, "base_in_code_table": has_code}, line=e.lineno)
            continue
        if e.opaque or base.opaque:
            # the registry values are computed (a closure from a factory, a helper such as nocancel(handle_x)): that the twin
            # is "the same logic with no_cancel set" is then decided on what the two entries render (R4), not on their spelling
            run.ob("R3", e.module.name, "handlers", base_key, True, facts={"twin": e.key, "decided_by": "R4 (computed registry value)"},
                   nontrivial=False, line=e.lineno)
            continue
        same_fn = base.func is e.func
        run.ob("R3", e.module.name, "handlers", base_key, same_fn,
               "" if same_fn else f"{e.key!r} -> {e.func_name} but {base_key!r} -> {base.func_name}: not the same logic",
               facts={"twin": e.key, "handler": e.func_name, "base_handler": base.func_name}, line=e.lineno)
        only_nc = kw == {"no_cancel": "True"} and not e.bound_pos
        run.ob("R3", e.module.name, "handlers", e.key, only_nc,
               "" if only_nc else f"{e.key!r} binds {kw or ast.unparse(ast.Tuple(list(e.bound_pos), ast.Load()))} "
                                  f"instead of exactly no_cancel=True",
               facts={"bound": kw}, line=e.lineno)
        base_plain = not base.bound_kw and not base.bound_pos
        run.ob("R3", e.module.name, "handlers", base_key + "<-plain", base_plain,
               "" if base_plain else f"base entry {base_key!r} binds arguments ({base.value_src})",
               nontrivial=False, line=base.lineno)

    # ---- R4 renderings identical except for the suffix
    n_r4 = 0
    underivable = []
    for e in twins:
        base_key = e.key[: -len("_nocancel")]
        base = eff.get(base_key)
        d_t = D.decode(e)
        # the base rendering: same function with no_cancel at its default when the base entry is missing
        if base is not None:
            d_f = D.decode(base)
        else:
            import copy
            fake = copy.copy(e)
            fake.key = base_key
            fake.bound_kw = ()
            fake.family = e.family + "#synthetic-base"
            d_f = D.decode(fake)
        scope = e.func_name
        if d_t.segs is None or d_f.segs is None:
            # not a verdict about the property: the analysis cannot see what this pair renders (reported after the other rules)
            underivable.append(f"{e.key} ({scope}): rendering could not be derived: {(d_t.problems + d_f.problems)[:2]}")
            continue
        vt = _flat_text_variants(d_t.segs)
        vf = _flat_text_variants(d_f.segs)
        ok = len(vt) == len(vf)
        detail = ""
        if ok:
            for (ct, ft), (cf, ff) in zip(vt, vf):
                if ct != cf:
                    ok, detail = False, f"alternatives differ: {ct} vs {cf}"
                    break
                sh_t, sh_f = render.parse_call(ft), render.parse_call(ff)
                if sh_t is None or sh_f is None:
                    ok, detail = False, "rendering is not call-shaped"
                    break
                if sh_t.name != sh_f.name + "_nocancel":
                    ok, detail = False, f"call name {sh_t.name!r} vs base {sh_f.name!r}: suffix is not exactly '_nocancel'"
                    break
                if sh_t.positions != sh_f.positions or sh_t.tail != sh_f.tail:
                    ok, detail = False, (f"text after the call name differs: {render.text_of(ft)!r} vs "
                                         f"{render.text_of(ff)!r}")
                    break
        else:
            detail = f"{len(vt)} vs {len(vf)} rendering alternatives"
        n_r4 += 1
        run.ob("R4", e.module.name, scope, e.key, ok,
               "" if ok else f"{e.key} and {base_key} do not render alike: {detail}",
               facts={"nocancel": render.text_of(d_t.segs)[:200], "base": render.text_of(d_f.segs)[:200]},
               line=e.func.lineno)
    if underivable:
        from ..model import AnalysisError
        raise AnalysisError(f"C17/R4: {len(underivable)} twin rendering(s) not derivable, first: {underivable[0]}")
    run.floor("R4", "twin renderings compared", n_r4, 25)
