"""C18 - output is a function of the dump, not of the host operating system."""
from __future__ import annotations

import ast

from ..model import ModuleInfo, Repo
from ..report import Run

EXPLANATION = (
    "Forbidden-source rule over the resolved program: in every module that decodes or formats (trace_handlers/*, "
    "traces_parser, callstacks_parser, pykdebugparser, os_log_event, kd_buf_parser, kevent, trace_codes) every Name / "
    "Attribute expression that resolves - through the module's imports and aliases - to one of the running interpreter's "
    "platform tables (errno.*, signal.*, socket constants and enums, os.strerror/os.name/os.uname, sys.platform/"
    "sys.byteorder, platform.*, locale.*) is reported with the function that contains it. Type annotations are not uses. "
    "Findings are keyed by (module, function, API): a new use elsewhere is a new violation. An embedded fixture must be "
    "flagged on every run."
)

HOST_PREFIXES = ("errno.", "signal.", "socket.", "platform.", "locale.", "resource.", "termios.", "fcntl.", "stat.", "select.",
                 "mmap.", "pwd.", "grp.", "tty.", "posix.", "nt.")
HOST_EXACT = {"os.strerror", "os.name", "os.uname", "os.sep", "os.linesep", "sys.platform", "sys.byteorder",
              "os.errno", "errno", "signal", "socket", "platform", "locale"}
# host independent helpers of those modules (pure functions of their argument)
PURE = {"socket.inet_ntoa", "socket.inet_ntop", "socket.inet_aton", "socket.inet_pton", "socket.ntohs", "socket.ntohl",
        "socket.htons", "socket.htonl", "stat.S_IMODE", "stat.S_IFMT"}

SCOPE_MODULES = ("trace_handlers.", "traces_parser", "callstacks_parser", "pykdebugparser", "os_log_event",
                 "kd_buf_parser", "kevent", "trace_codes", "__main__")


def _os_constant(dn: str) -> bool:
    """os.SEEK_HOLE, os.O_CREAT, os.EX_OK, time.timezone ...: numeric constants / settings of the host platform."""
    mod, _, attr = dn.partition(".")
    if mod == "os" and attr and "." not in attr and attr.upper() == attr and attr[0].isalpha():
        return True
    if dn in ("time.timezone", "time.altzone", "time.tzname", "time.daylight", "os.environ", "os.getuid", "os.getpid",
              "os.cpu_count", "sys.maxsize", "sys.getfilesystemencoding", "sys.getdefaultencoding"):
        return True
    return False


def _annotation_nodes(tree) -> set:
    skip = set()
    for n in ast.walk(tree):
        if isinstance(n, ast.AnnAssign):
            for x in ast.walk(n.annotation):
                skip.add(id(x))
        elif isinstance(n, (ast.FunctionDef, ast.AsyncFunctionDef)):
            if n.returns is not None:
                for x in ast.walk(n.returns):
                    skip.add(id(x))
            for a in n.args.args + n.args.kwonlyargs + n.args.posonlyargs + [n.args.vararg, n.args.kwarg]:
                if a is not None and a.annotation is not None:
                    for x in ast.walk(a.annotation):
                        skip.add(id(x))
        elif isinstance(n, (ast.Import, ast.ImportFrom)):
            skip.add(id(n))
    return skip


def scan_module(repo: Repo, mod: ModuleInfo):
    """Yield (scope, api, lineno) for every use of a host table in the module."""
    skip = _annotation_nodes(mod.tree)

    def visit(node, scope, inside_attr=False):
        for child in ast.iter_child_nodes(node):
            if id(child) in skip or isinstance(child, (ast.Import, ast.ImportFrom)):
                continue
            sc = scope
            if isinstance(child, (ast.FunctionDef, ast.AsyncFunctionDef)):
                sc = f"{scope}.{child.name}" if scope != "<module>" else child.name
            elif isinstance(child, ast.ClassDef):
                sc = f"{scope}.{child.name}" if scope != "<module>" else child.name
            if isinstance(child, (ast.Attribute, ast.Name)) and isinstance(child.ctx, ast.Load):
                dn = repo.dotted(mod, child)
                if dn in PURE:
                    continue
                # local names shadowing: a bare Name that is not an import/alias resolves to None or module-local
                if dn and not dn.startswith("pykdebugparser.") and dn not in PURE and \
                        (dn in HOST_EXACT or dn.startswith(HOST_PREFIXES) or _os_constant(dn)):
                    if isinstance(child, ast.Name) and child.id not in mod.imports:
                        pass
                    else:
                        yield (sc, dn, child.lineno)
                        continue        # do not descend into the chain again
            yield from visit(child, sc)

    yield from visit(mod.tree, "<module>")


def check(repo: Repo, run: Run) -> None:
    n_units = 0
    total = 0
    for mod in repo.modules.values():
        short = mod.name[len("pykdebugparser."):] if mod.name.startswith("pykdebugparser.") else mod.name
        if not short.startswith(SCOPE_MODULES):
            continue
        n_units += len(mod.functions) + sum(len(c.methods) for c in mod.classes.values())
        uses = {}
        for scope, api, ln in scan_module(repo, mod):
            uses.setdefault((scope, api), []).append(ln)
        for (scope, api), lines in sorted(uses.items()):
            total += 1
            run.ob("R1", mod.name, scope, api, False,
                   f"{scope} takes {api} from the running interpreter's platform tables (lines {lines[:6]}): the names shown "
                   f"are the host's, not Darwin's",
                   facts={"lines": lines}, line=lines[0],
                   witness={"errno.errorcode": "errno 35 renders EDEADLOCK on Linux, EAGAIN on Darwin",
                            "socket.SOL_SOCKET": "SOL_SOCKET is 1 on Linux, 0xffff on Darwin: level 0xffff is not recognised",
                            "signal.Signals": "signal 10 is SIGUSR1 on Linux, SIGBUS on Darwin",
                            "socket.AddressFamily": "family 30 is AF_INET6 on Darwin, AF_TIPC on Linux",
                            "socket.SocketKind": "socket types 1..5 coincide but the enum is the host's"}.get(api))
        # a module with no uses contributes one discharged obligation per module
        run.ob("R1", mod.name, "<module>", "scanned", True, facts={"uses": len(uses)}, nontrivial=False)
    run.analysed.update({"functions_scanned": n_units, "host_table_uses": total})
    run.floor("R1", "functions and methods scanned", n_units, 850)
    _canary(repo, run)


CANARY = '''
import errno as e
from signal import Signals as S
import socket

def render(x):
    y: socket.AddressFamily = x
    return e.errorcode.get(x), S(x).name, socket.inet_ntoa(b'1234')
'''


def _canary(repo: Repo, run: Run) -> None:
    tree = ast.parse(CANARY)
    mod = ModuleInfo("pykdebugparser.__canary18__", "<canary>", CANARY, tree)
    repo._index_module(mod)
    got = {(s, a) for s, a, _ in scan_module(repo, mod)}
    run.canary("R1", "aliased errno.errorcode and signal.Signals are flagged; annotation and inet_ntoa are not",
               got == {("render", "errno.errorcode.get"), ("render", "signal.Signals")})
