"""C18 - output is a function of the dump, not of the host operating system."""
from __future__ import annotations

import ast

from .. import consteval
from ..model import ModuleInfo, Repo
from ..report import Run

EXPLANATION = (
    "Forbidden-source rule over the resolved program: in every module that decodes or formats (trace_handlers/*, "
    "traces_parser, callstacks_parser, pykdebugparser, os_log_event, kd_buf_parser, kevent, trace_codes) every Name / "
    "Attribute expression that resolves - through the module's imports and aliases - to one of the running interpreter's "
    "platform tables (errno.*, signal.*, socket constants and enums, os.strerror/os.name/os.uname, sys.platform/"
    "sys.byteorder, platform.*, locale.*) is reported with the function that contains it. Type annotations are not uses. "
    "Each use is attributed to the registry decoders that can reach it (reference graph over functions, result classes, "
    "their methods and module constants); a finding is (decoder, host table), so moving a use into a helper changes "
    "nothing while a decoder that newly depends on a host table is a new violation. Uses no decoder reaches are keyed by "
    "their function. An embedded fixture must be "
    "flagged on every run."
)

HOST_PREFIXES = ("errno.", "signal.", "socket.", "platform.", "locale.", "resource.", "termios.", "fcntl.", "stat.", "select.",
                 "mmap.", "pwd.", "grp.", "tty.", "posix.", "nt.")
HOST_EXACT = {"os.strerror", "os.name", "os.uname", "os.sep", "os.linesep", "sys.platform", "sys.byteorder",
              "os.errno", "errno", "signal", "socket", "platform", "locale",
              # text <-> bytes through the host's file-system / locale encoding and error handler
              "os.fsdecode", "os.fsencode", "sys.getfilesystemencoding", "sys.getfilesystemencodeerrors",
              "locale.getpreferredencoding", "locale.getencoding", "os.device_encoding", "os.path.sep", "os.pathsep",
              "os.getcwd", "os.path.expanduser", "time.localtime", "time.strftime", "time.tzname",
              # C types whose width is the host's data model (long is 32 bits on 64-bit Windows, 64 on LP64 hosts)
              "ctypes.c_long", "ctypes.c_ulong", "ctypes.c_size_t", "ctypes.c_ssize_t", "ctypes.c_void_p", "ctypes.c_wchar",
              "ctypes.c_longdouble", "ctypes.c_time_t", "sys.maxunicode", "sys.int_info", "sys.float_info"}
# host independent helpers of those modules (pure functions of their argument)
PURE = {"socket.inet_ntoa", "socket.inet_ntop", "socket.inet_aton", "socket.inet_pton", "socket.ntohs", "socket.ntohl",
        "socket.htons", "socket.htonl", "stat.S_IMODE", "stat.S_IFMT"}

MODULE_FLOOR = 10
SCOPE_MODULES = ("trace_handlers.", "traces_parser", "callstacks_parser", "pykdebugparser", "os_log_event",
                 "kd_buf_parser", "kevent", "trace_codes", "__main__")


def _os_constant(dn: str) -> bool:
    """os.SEEK_HOLE, os.O_CREAT, os.EX_OK, time.timezone ...: numeric constants / settings of the host platform."""
    mod, _, attr = dn.partition(".")
    if mod == "os" and attr and "." not in attr and attr.upper() == attr and attr[0].isalpha():
        return True
    if dn in ("time.timezone", "time.altzone", "time.tzname", "time.daylight", "os.environ", "os.getuid", "os.getpid",
              "os.cpu_count", "sys.maxsize", "sys.getfilesystemencoding", "sys.getdefaultencoding"):
        return True
    return False


def _table(api: str) -> str:
    """The host table an expression reads: `errno.errorcode.get` and `errno.errorcode` are the same table."""
    parts = api.split(".")
    return ".".join(parts[:2])


def _annotation_nodes(tree) -> set:
    skip = set()
    for n in ast.walk(tree):
        if isinstance(n, ast.AnnAssign):
            for x in ast.walk(n.annotation):
                skip.add(id(x))
        elif isinstance(n, (ast.FunctionDef, ast.AsyncFunctionDef)):
            if n.returns is not None:
                for x in ast.walk(n.returns):
                    skip.add(id(x))
            for a in n.args.args + n.args.kwonlyargs + n.args.posonlyargs + [n.args.vararg, n.args.kwarg]:
                if a is not None and a.annotation is not None:
                    for x in ast.walk(a.annotation):
                        skip.add(id(x))
        elif isinstance(n, (ast.Import, ast.ImportFrom)):
            skip.add(id(n))
    return skip


DIAG: dict = {}


def scan_module(repo: Repo, mod: ModuleInfo):
    """Yield (scope, api, lineno) for every use of a host table in the module."""
    if mod.name not in DIAG:
        from .. import shared as _shared
        DIAG[mod.name] = set().union(*[_shared.diagnostic_slots(repo, ci) for ci in mod.classes.values() if not ci.enum_kind] or [set()])
    skip = _annotation_nodes(mod.tree)

    def visit(node, scope, inside_attr=False):
        for child in ast.iter_child_nodes(node):
            if id(child) in skip or isinstance(child, (ast.Import, ast.ImportFrom)):
                continue
            sc = scope
            if scope == "<module>" and isinstance(child, (ast.Assign, ast.AnnAssign)):
                tg = child.targets[0] if isinstance(child, ast.Assign) else child.target
                if isinstance(tg, ast.Name):
                    sc = f"={tg.id}"            # the value of a module constant
            elif scope == "<module>" and isinstance(child, (ast.For, ast.While, ast.If, ast.With, ast.Try, ast.Expr, ast.AugAssign)):
                # module-level code that fills a module-level table (`for code, name in errno.errorcode.items():
                # TABLE[code] = ...`, `TABLE.update(...)`): what it reads is part of that table's value
                filled = set()
                for x in ast.walk(child):
                    if isinstance(x, ast.Subscript) and isinstance(x.ctx, ast.Store) and isinstance(x.value, ast.Name) \
                            and x.value.id in mod.constants:
                        filled.add(x.value.id)
                    if isinstance(x, ast.Call) and isinstance(x.func, ast.Attribute) and isinstance(x.func.value, ast.Name) \
                            and x.func.value.id in mod.constants and x.func.attr in ("update", "append", "extend", "add", "setdefault",
                                                                                     "insert"):
                        filled.add(x.func.value.id)
                    if isinstance(x, ast.AugAssign) and isinstance(x.target, ast.Name) and x.target.id in mod.constants:
                        filled.add(x.target.id)
                if len(filled) == 1:
                    sc = f"={filled.pop()}"
            if isinstance(child, ast.Assign) and len(child.targets) == 1 and isinstance(child.targets[0], ast.Attribute) \
                    and isinstance(child.targets[0].value, ast.Name) and child.targets[0].value.id == "self" \
                    and child.targets[0].attr in DIAG.get(mod.name, ()):
                continue        # the value of a bookkeeping attribute nobody reads (shared.diagnostic_slots): not output
            if isinstance(child, (ast.FunctionDef, ast.AsyncFunctionDef)):
                sc = f"{scope}.{child.name}" if scope != "<module>" else child.name
            elif isinstance(child, ast.ClassDef):
                sc = f"{scope}.{child.name}" if scope != "<module>" else child.name
            if isinstance(child, ast.Call) and isinstance(child.func, ast.Name) and child.func.id == "getattr" \
                    and len(child.args) >= 2 and isinstance(child.args[0], ast.Name) and child.args[0].id in mod.imports:
                # getattr(socket, 'SOL_SOCKET') / getattr(socket, name) with name running over the constant keys of a module
                # table: the same host table as socket.SOL_SOCKET
                base = repo.dotted(mod, child.args[0])
                names = _constant_names(mod, node_root, child.args[1])
                if base and names and (base in HOST_EXACT or (base + ".").startswith(HOST_PREFIXES)):
                    for nm in names:
                        yield (sc, f"{base}.{nm}", child.lineno)
                    for extra in child.args[2:]:
                        yield from visit(extra, sc)
                    continue
            if isinstance(child, ast.Call) and child.args:
                # struct formats in native mode ('4Q', '@l', '=I'): byte order (and for '@' sizes and alignment) are the host's
                fdn = repo.dotted(mod, child.func)
                if fdn in ("struct.unpack", "struct.unpack_from", "struct.pack", "struct.pack_into", "struct.calcsize",
                           "struct.iter_unpack", "struct.Struct"):
                    fmt = consteval.evaluate(repo, mod, child.args[0])
                    if isinstance(fmt, bytes):
                        fmt = fmt.decode("latin-1")
                    if isinstance(fmt, str) and fmt.strip() and fmt.lstrip()[0] not in "<>!" and any(ch.isalpha() and ch not in "xcbB?s p" for ch in fmt):
                        yield (sc, "struct native byte order", child.lineno)
            if isinstance(child, (ast.Attribute, ast.Name)) and isinstance(child.ctx, ast.Load):
                dn = repo.dotted(mod, child)
                if dn in PURE:
                    continue
                # local names shadowing: a bare Name that is not an import/alias resolves to None or module-local
                if dn and not dn.startswith("pykdebugparser.") and dn not in PURE and \
                        (dn in HOST_EXACT or dn.startswith(HOST_PREFIXES) or _os_constant(dn)):
                    if isinstance(child, ast.Name) and child.id not in mod.imports:
                        pass
                    else:
                        yield (sc, dn, child.lineno)
                        continue        # do not descend into the chain again
            yield from visit(child, sc)

    node_root = mod.tree
    yield from visit(mod.tree, "<module>")


def _constant_names(mod: ModuleInfo, tree, arg):
    """The constant strings an attribute-name argument can be: a literal, or a loop / comprehension variable running over the
    keys (or `.items()`) of a module-level dict / tuple of string constants."""
    if isinstance(arg, ast.Constant) and isinstance(arg.value, str):
        return [arg.value]
    if not isinstance(arg, ast.Name):
        return None
    for n in ast.walk(tree):
        tgt = it = None
        if isinstance(n, ast.For):
            tgt, it = n.target, n.iter
        elif isinstance(n, ast.comprehension):
            tgt, it = n.target, n.iter
        if tgt is None:
            continue
        first = tgt.elts[0] if isinstance(tgt, ast.Tuple) and tgt.elts else tgt
        if not (isinstance(first, ast.Name) and first.id == arg.id):
            continue
        src = it
        if isinstance(src, ast.Call) and isinstance(src.func, ast.Attribute) and src.func.attr in ("items", "keys") and not src.args:
            src = src.func.value
        if isinstance(src, ast.Name) and src.id in mod.constants:
            c = mod.constants[src.id]
            if isinstance(c, ast.Dict) and c.keys and all(isinstance(k, ast.Constant) and isinstance(k.value, str) for k in c.keys):
                return [k.value for k in c.keys]
            if isinstance(c, (ast.Tuple, ast.List)) and c.elts and all(isinstance(k, ast.Constant) and isinstance(k.value, str)
                                                                       for k in c.elts):
                return [k.value for k in c.elts]
    return None


def _unit_of(mod: ModuleInfo, scope: str) -> str:
    """Graph node of the function / method / class / module constant a use is written in."""
    if scope.startswith("="):
        return f"{mod.name}:{scope[1:]}"
    parts = scope.split(".")
    if parts[0] in mod.classes:
        return f"{mod.name}:{'.'.join(parts[:2])}" if len(parts) > 1 and parts[1] in mod.classes[parts[0]].methods \
            else f"{mod.name}:{parts[0]}"
    return f"{mod.name}:{parts[0]}"


ATTRS_USED: dict = {}       # node -> attribute names written in it
CLASS_METHODS: dict = {}    # class node -> {ordinary method name: node}


def reference_graph(repo: Repo):
    """node -> nodes it mentions.  Nodes: `mod:function`, `mod:Class` (-> its methods), `mod:Class.method`, `mod:CONSTANT`."""
    g = {}

    def refs(mod, node):
        out = set()
        for n in ast.walk(node):
            if isinstance(n, (ast.Name, ast.Attribute)) and isinstance(getattr(n, "ctx", None), ast.Load):
                dn = repo.dotted(mod, n)
                while dn and dn.startswith("pykdebugparser."):
                    f = repo.lookup(dn)
                    if f:
                        kind, m2, obj = f
                        nm = obj.name if kind in ("func", "class") else dn.rsplit(".", 1)[1]
                        out.add(f"{m2.name}:{nm}")
                        break
                    dn = dn.rpartition(".")[0]
        return out

    for mod in repo.modules.values():
        for name, fn in mod.functions.items():
            g[f"{mod.name}:{name}"] = refs(mod, fn)
            ATTRS_USED[f"{mod.name}:{name}"] = {n.attr for n in ast.walk(fn) if isinstance(n, ast.Attribute)}
        for cname, ci in mod.classes.items():
            # a class reaches its special methods (run implicitly: construction, str(), comparison ...); an ordinary method is
            # reached when some reached code also mentions its name as an attribute (decoder_reach)
            members = {f"{mod.name}:{cname}.{m}" for m in ci.methods if m.startswith("__") and m.endswith("__")}
            CLASS_METHODS[f"{mod.name}:{cname}"] = {m: f"{mod.name}:{cname}.{m}" for m in ci.methods
                                                    if not (m.startswith("__") and m.endswith("__"))}
            for m, fn_ in ci.methods.items():
                ATTRS_USED[f"{mod.name}:{cname}.{m}"] = {n.attr for n in ast.walk(fn_) if isinstance(n, ast.Attribute)}
            body_refs = set()
            for st in ci.node.body:
                if not isinstance(st, (ast.FunctionDef, ast.AsyncFunctionDef)):
                    body_refs |= refs(mod, st)
            for b in ci.node.bases:
                body_refs |= refs(mod, b)
            g[f"{mod.name}:{cname}"] = members | body_refs
            for m, fn in ci.methods.items():
                g[f"{mod.name}:{cname}.{m}"] = refs(mod, fn)
        for cname, node in mod.constants.items():
            if cname == "handlers":
                continue            # the registry itself mentions every decoder
            special = _factory_row_refs(repo, mod, node, refs)
            g.setdefault(f"{mod.name}:{cname}", refs(mod, node) if special is None else special)
    return g


def _factory_row_refs(repo: Repo, mod: ModuleInfo, node, refs):
    """`NAME = factory('key')` where the factory reads `TABLE[key]` from a module-level dict literal: NAME mentions what the
    factory mentions and what that one row mentions - not every row of the table (which names every result class)."""
    if not (isinstance(node, ast.Call) and node.args and not node.keywords
            and all(isinstance(a, ast.Constant) for a in node.args)):
        return None
    dn = repo.dotted(mod, node.func)
    found = repo.lookup(dn) if dn and dn.startswith("pykdebugparser.") else None
    if not found or found[0] != "func":
        return None
    fmod, fn = found[1], found[2]
    params = [a.arg for a in fn.args.args]
    if len(node.args) > len(params) or fn.args.vararg or fn.args.kwarg:
        return None
    bound = {p_: a.value for p_, a in zip(params, node.args)}
    stored = {n.id for n in ast.walk(fn) if isinstance(n, ast.Name) and isinstance(n.ctx, ast.Store)}
    rows = {}           # table name -> row node
    for n in ast.walk(fn):
        if isinstance(n, ast.Subscript) and isinstance(n.ctx, ast.Load) and isinstance(n.value, ast.Name) \
                and isinstance(n.slice, ast.Name) and n.slice.id in bound and n.slice.id not in stored:
            tdn = repo.dotted(fmod, n.value)
            t = repo.lookup(tdn) if tdn else None
            if t and t[0] == "const" and isinstance(t[2], ast.Dict) and all(isinstance(k, ast.Constant) for k in t[2].keys):
                hit = [v for k, v in zip(t[2].keys, t[2].values) if k.value == bound[n.slice.id]]
                if hit:
                    rows[n.value.id] = (t[1], hit[-1])
    if not rows:
        return None
    # the table must be used by the factory only through these subscripts
    for name in rows:
        uses = [n for n in ast.walk(fn) if isinstance(n, ast.Name) and n.id == name]
        subs = [n for n in ast.walk(fn) if isinstance(n, ast.Subscript) and isinstance(n.value, ast.Name) and n.value.id == name
                and isinstance(n.slice, ast.Name) and n.slice.id in bound]
        if len(uses) != len(subs):
            return None
    out = set()
    table_nodes = set()
    for name, (tmod, row) in rows.items():
        out |= refs(tmod, row)
        t = repo.lookup(repo.dotted(fmod, ast.Name(id=name, ctx=ast.Load())))
        table_nodes.add(f"{t[1].name}:{name}")
    out |= {r for r in refs(fmod, fn) if r not in table_nodes}
    return out


def decoder_reach(repo: Repo):
    """registry key -> every node its decoder can mention, directly or through helpers, result classes and their methods."""
    from .. import consteval, registry
    g = reference_graph(repo)
    out = {}
    for fam, entries in registry.load_all(repo).items():
        for e in entries:
            start = {f"{e.module.name}:{e.func_name}"}
            for x in list(e.bound_pos) + [v for _, v in e.bound_kw]:
                for n in ast.walk(x):
                    if isinstance(n, (ast.Name, ast.Attribute)):
                        dn = repo.dotted(repo.module(f"trace_handlers.{fam}"), n)
                        f = repo.lookup(dn) if dn else None
                        if f and f[0] in ("func", "class"):
                            start.add(f"{f[1].name}:{f[2].name}")
            seen = set()
            todo = list(start)
            while todo:
                while todo:
                    cur = todo.pop()
                    if cur in seen:
                        continue
                    seen.add(cur)
                    todo.extend(g.get(cur, ()))
                # ordinary methods of the reached classes whose name some reached code uses as an attribute (`x.describe(...)`)
                used = set()
                for nd in seen:
                    used |= ATTRS_USED.get(nd, set())
                for nd in list(seen):
                    for m, mnode in CLASS_METHODS.get(nd, {}).items():
                        if m in used and mnode not in seen:
                            todo.append(mnode)
            out.setdefault(e.key, set()).update(seen)
            FAMILY_OF[e.key] = f"pykdebugparser.trace_handlers.{fam}"
    return out, g


FAMILY_OF: dict = {}        # registry key -> the family module that registers it (the identity of a finding does not depend
#                             on which file of the family the helper that reads the host table lives in)


WITNESS = {"struct native byte order": "on a big-endian host (s390x) every multi-byte field of the little-endian dump reads byte-swapped",
           "ctypes.c_long": "a 64-bit word of 5 GiB reads 1073741824 where C long has 32 bits (64-bit Windows)",
           "ctypes.c_ulong": "a 64-bit word is cut to 32 bits where C long has 32 bits (64-bit Windows)",
           "errno.errorcode": "errno 35 renders EDEADLOCK on Linux, EAGAIN on Darwin",
           "socket.SOL_SOCKET": "SOL_SOCKET is 1 on Linux, 0xffff on Darwin: level 0xffff is not recognised",
           "signal.Signals": "signal 10 is SIGUSR1 on Linux, SIGBUS on Darwin",
           "socket.AddressFamily": "family 30 is AF_INET6 on Darwin, AF_TIPC on Linux",
           "socket.SocketKind": "socket types 1..5 coincide but the enum is the host's"}


def check(repo: Repo, run: Run) -> None:
    n_units = 0
    n_mods = 0
    total = 0
    reach, graph = decoder_reach(repo)
    run.floor("R1", "registry decoders whose reachable code is known", len(reach), 400)
    by_node = {}
    for key, nodes in reach.items():
        for nd in nodes:
            by_node.setdefault(nd, set()).add(key)
    for mod in repo.modules.values():
        short = mod.name[len("pykdebugparser."):] if mod.name.startswith("pykdebugparser.") else mod.name
        if not short.startswith(SCOPE_MODULES):
            continue
        n_mods += 1
        n_units += len(mod.functions) + sum(len(c.methods) for c in mod.classes.values())
        # (instance, table) -> where.  An instance is a decoder (registry key) whose output can depend on the table, or
        # "@<function>" for code that no decoder reaches (the facade, the dispatcher, the command line).
        uses = {}
        n_sites = 0
        for scope, api, ln in scan_module(repo, mod):
            n_sites += 1
            node = _unit_of(mod, scope)
            insts = by_node.get(node)
            if not insts and scope.startswith("="):
                # a module constant no decoder reaches: it matters only through the other code that mentions it
                insts = {"@" + u.split(":", 1)[1] for u, outs in graph.items() if node in outs}
                if not insts:
                    continue
            insts = insts or {"@" + scope}
            for inst in insts:
                uses.setdefault((inst, _table(api)), []).append((scope.lstrip("="), ln))
        for (inst, api), sites in sorted(uses.items()):
            total += 1
            scopes = sorted({sc for sc, _ in sites})
            lines = sorted({ln for _, ln in sites})
            who = f"the output of decoder {inst!r}" if not inst.startswith("@") else f"{inst[1:]}"
            run.ob("R1", FAMILY_OF.get(inst, mod.name), inst, api, False,
                   f"{who} depends on {api}, a table of the running interpreter's platform (read in {', '.join(scopes[:4])}, "
                   f"lines {lines[:4]}): the names shown are the host's, not Darwin's",
                   facts={"lines": lines, "functions": scopes}, line=lines[0], witness=WITNESS.get(api))
        # a module with no uses contributes one discharged obligation per module
        run.ob("R1", mod.name, "<module>", "scanned", True, facts={"use_sites": n_sites, "dependent_outputs": len(uses)},
               nontrivial=False)
    run.analysed.update({"functions_scanned": n_units, "host_dependent_outputs": total, "registry_decoders": len(reach)})
    run.analysed["modules_scanned"] = n_mods
    run.floor("R1", "modules scanned", n_mods, MODULE_FLOOR)
    check_host_timezone(repo, run)
    _canary(repo, run)


TZ_METHODS = {"astimezone": 0, "fromtimestamp": 1}      # method -> position of the time-zone argument


def _may_be_none(t) -> bool:
    """Is None one of the values the term is built to take (a literal None, or None on a branch of a conditional)?"""
    from ..sym import const
    if t == const(None):
        return True
    if t.op == "ite":
        return _may_be_none(t.a[1]) or _may_be_none(t.a[2])
    if t.op == "bool":
        return any(_may_be_none(x) for x in t.a[1])
    if t.op == "widen":
        return any(_may_be_none(x) for x in t.a[2] if x.op != "widen")
    return False


def _starts_as_none(interp, ci, attr: str) -> bool:
    init = ci.methods.get("__init__")
    if init is None:
        return False
    from ..sym import const
    rec = interp.run(ci.module, init, self_cls=ci)
    vals = [e.value for e in rec.effects if e.kind == "attr-store" and e.key == attr]
    return bool(vals) and any(v == const(None) for v in vals)


def _established_not_none(pc, tz) -> bool:
    from ..sym import const, T
    from .. import render, guards
    a_ = guards.assumptions(pc)
    if render.assume_lookup(a_, T("cmp", ("is", tz, const(None)))) is False or render.assume_lookup(a_, tz) is True:
        return True
    for c, pol in pc:
        atom, apol = render.norm_bool(c)
        eff = pol if apol else not pol
        if atom == tz and eff:
            return True
        if atom.op == "call" and atom.a[0] == T("builtin", ("all",)) and len(atom.a[1]) == 1 and eff \
                and atom.a[1][0].op in ("tuple", "list") and tz in atom.a[1][0].a[0]:
            return True             # all((..., tz)) holds: tz is truthy
        if atom.op == "cmp" and atom.a[0] == "is" and {atom.a[1], atom.a[2]} == {tz, const(None)} and not eff:
            return True
        if atom.op == "cmp" and atom.a[0] == "in" and atom.a[1] == const(None) and atom.a[2].op in ("tuple", "list", "set") \
                and tz in atom.a[2].a[0] and not eff:
            return True
        if atom.op == "cmp" and atom.a[0] == "==" and {atom.a[1], atom.a[2]} == {tz, const(None)} and not eff:
            return True
    return False


def check_host_timezone(repo: Repo, run: Run) -> None:
    """R3: a datetime is converted with the time zone the expression is given; with no zone, or with None, datetime uses the
    zone of the machine the tool runs on.  Every `.astimezone(...)` / `datetime.fromtimestamp(...)` in the package is looked
    at after interpretation of its function (helpers inlined): the zone argument must not be absent nor possibly None."""
    from .. import sym
    interp = sym.Interp(repo)
    n = 0
    for mod in repo.modules.values():
        short = mod.name[len("pykdebugparser."):] if mod.name.startswith("pykdebugparser.") else mod.name
        if not short.startswith(SCOPE_MODULES):
            continue
        units = [(None, f) for f in mod.functions.values()]
        for ci in mod.classes.values():
            units.extend((ci, m) for m in ci.methods.values() if repo.fn_home.get(id(m)) is mod)
        for ci, fn in units:
            if not any(isinstance(x, ast.Attribute) and x.attr in TZ_METHODS for x in ast.walk(fn)):
                continue
            rec = interp.run(mod, fn, self_cls=ci)
            qn = f"{ci.name}.{fn.name}" if ci else fn.name
            for c in rec.calls:
                f = c.func
                meth = f.a[1] if f.op == "attr" else (f.a[0].rsplit(".", 1)[-1] if f.op == "global" else None)
                if meth not in TZ_METHODS or not c.where.endswith(fn.name):
                    continue
                if f.op == "global" and f.a[0] != "datetime.datetime.fromtimestamp":
                    continue
                pos = TZ_METHODS[meth]
                kw = dict(c.kwargs)
                tz = c.args[pos] if len(c.args) > pos else kw.get("tz")
                n += 1
                ok = tz is not None and not _may_be_none(tz)
                if ok and tz.op == "attr" and tz.a[0] == sym.param("self") and ci is not None and _starts_as_none(interp, ci, tz.a[1]):
                    # a setting of the object that is None until the caller supplies it: the conversion must sit on a path that
                    # has established it is not None (`if None in (..., self.timezone): return ...` / `if self.timezone is None`)
                    ok = _established_not_none(c.pc, tz)
                run.ob("R3", mod.name, qn, f"{meth}: explicit time zone", ok,
                       "" if ok else
                       f"{meth}() at line {c.lineno} is " + ("called without a time zone" if tz is None else
                       f"given a time zone that is None on some path ({sym.pretty(tz)[:80]})") +
                       ": datetime then converts to the local zone of the machine the tool runs on, so the printed time "
                       "depends on the host, not only on the dump", line=c.lineno,
                       witness="the same dump formatted with TZ=UTC and with TZ=Asia/Tokyo")
    run.analysed["timezone_conversions"] = n
    run.floor("R3", "datetime conversions with a time-zone argument", n, 1)


CANARY = '''
import errno as e
from signal import Signals as S
import socket

def render(x):
    y: socket.AddressFamily = x
    return e.errorcode.get(x), S(x).name, socket.inet_ntoa(b'1234')
'''


def _canary(repo: Repo, run: Run) -> None:
    tree = ast.parse(CANARY)
    mod = ModuleInfo("pykdebugparser.__canary18__", "<canary>", CANARY, tree)
    repo._index_module(mod)
    got = {(s, _table(a)) for s, a, _ in scan_module(repo, mod)}
    run.canary("R1", "aliased errno.errorcode and signal.Signals are flagged; annotation and inet_ntoa are not",
               got == {("render", "errno.errorcode"), ("render", "signal.Signals")})
