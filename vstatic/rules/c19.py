"""C19 - code-table text maps every 'hex-id name' line; a supplied table is honoured."""
from __future__ import annotations

import ast

from .. import sym
from ..model import AnalysisError, Repo
from ..report import Run
from ..sym import T, const, param

EXPLANATION = (
    "R1: from_trace_codes_text is interpreted symbolically and brought to the normal form 'for every element of "
    "text.splitlines(), in order: tokens = line.split() (whitespace split, no separator, no limit); table[int(tokens[0], 16)] "
    "= tokens[1]' - dict comprehension, map/lambda and explicit loop forms are recognised; an unconditional store per line "
    "gives 'last occurrence wins' and 'nothing else' by dict semantics. R2: every call of default_trace_codes() in the "
    "package is guarded by `<table parameter> is None` and its result is only the value chosen for an absent table; the "
    "chosen table is what reaches TracesParser / the formatter; TracesParser stores the table it is given and nothing else "
    "ever rebinds parser.trace_codes; trace requests forward the caller's table. R3: the event formatter shows bare "
    "hex(eventid) exactly on the not-in-table branch, parse_event_list and feed test membership before indexing and return "
    "None (no trace) for an absent id, and the decoder is selected by the *name* the table gives: "
    "handlers[trace_codes[first.eventid]](parser, events)."
)

SELF = param("self")
TC = "pykdebugparser.trace_codes"


def _line_source(it: T):
    """Return (lines source term, element transformation as function elem->term) for the iteration."""
    # map(lambda l: f(l), X)
    if it.op == "call" and it.a[0] == T("builtin", ("map",)) and len(it.a[1]) == 2:
        fn, inner = it.a[1]
        if fn.op == "lambda" and len(fn.a) > 1:
            body = fn.a[1]
            src, f = _line_source(inner)
            bound = [x for x in sym.walk(body) if x.op == "bound"]
            b = bound[0] if bound else None
            return src, (lambda e, body=body, b=b, f=f: sym.subst(body, {b: f(e)}) if b is not None else body)
    if it.op == "comp" and it.a[0] in ("list", "gen") and len(it.a[2]) == 1 and not it.a[2][0][2]:
        elemvar, inner, _ = it.a[2][0]
        src, f = _line_source(inner)
        elt = it.a[1]
        return src, (lambda e, elt=elt, elemvar=elemvar, f=f: sym.subst(elt, {elemvar: f(e)}))
    return it, (lambda e: e)


LINE = T("bound", ("line",))


def analyse_table_parser(repo: Repo, run: Run, interp) -> None:
    mod = repo.module("trace_codes")
    fn = repo.function("trace_codes", "from_trace_codes_text")
    pname = fn.args.args[0].arg
    rec = interp.run(mod, fn, {pname: param("text")})
    if rec.notes:
        raise AnalysisError(f"from_trace_codes_text: unsupported construct {rec.notes[0]}")
    ret = rec.return_term()
    key = val = None
    conds = ()
    src = None
    # dict(<pairs>) builds the table from (key, name) pairs in the order they are produced - the same as the comprehension -
    # provided nothing reorders the pairs in between: `dict(sorted(pairs))` orders the lines of a repeated id by name
    reorder = None
    if ret.op == "call" and ret.a[0] == T("builtin", ("dict",)) and len(ret.a[1]) == 1 and not ret.a[2]:
        inner = ret.a[1][0]
        while inner.op == "call" and inner.a[0].op == "builtin" and inner.a[0].a[0] in ("list", "tuple", "iter") \
                and len(inner.a[1]) == 1 and not inner.a[2]:
            inner = inner.a[1][0]
        if inner.op == "call" and inner.a[0].op == "builtin" and inner.a[0].a[0] in ("sorted", "reversed", "set", "frozenset") \
                and len(inner.a[1]) == 1:
            how = inner.a[0].a[0]
            kw = dict(inner.a[2])
            keyf = kw.get("key")
            by_first = keyf is not None and (
                (keyf.op == "lambda" and len(keyf.a) > 1 and keyf.a[1].op == "sub" and keyf.a[1].a[1] == const(0)
                 and keyf.a[1].a[0].op == "bound")
                or (keyf.op == "call" and keyf.a[0] == T("global", ("operator.itemgetter",)) and keyf.a[1] == (const(0),)))
            if not (how == "sorted" and by_first):          # a stable sort on the id alone keeps the lines of one id in order
                reorder = f"{how}(...)" + ("" if keyf is None else " with a key that is not the id alone")
            inner = inner.a[1][0]
            while inner.op == "call" and inner.a[0].op == "builtin" and inner.a[0].a[0] in ("list", "tuple", "iter") \
                    and len(inner.a[1]) == 1 and not inner.a[2]:
                inner = inner.a[1][0]
        if inner.op == "comp" and inner.a[0] in ("list", "gen") and len(inner.a[2]) == 1 and inner.a[1].op == "tuple" \
                and len(inner.a[1].a[0]) == 2:
            ret = T("comp", ("dict", T("tuple", ((inner.a[1].a[0][0], inner.a[1].a[0][1]),)), inner.a[2]))
    if ret.op == "comp" and ret.a[0] == "dict" and len(ret.a[2]) == 1:
        run.ob("R1", TC, "from_trace_codes_text", "pairs reach the table in line order", reorder is None,
               "" if reorder is None else
               f"the (id, name) pairs go through {reorder} before the table is built: for an id listed on several lines the "
               f"entry kept is the last in that order, not the one on the last line", line=fn.lineno,
               witness="'0x1 zzz\\n0x1 aaa' must map 1 to 'aaa'")
        elemvar, it, conds = ret.a[2][0]
        src, f = _line_source(it)
        kv = ret.a[1]
        tok = f(LINE)
        key = sym.subst(kv.a[0][0], {elemvar: tok})
        val = sym.subst(kv.a[0][1], {elemvar: tok})
        conds = tuple(sym.subst(c, {elemvar: tok}) for c in conds)
        in_order = True
    else:
        # explicit loop: one unconditional item store into the returned dict inside a for over the lines
        stores = [e for e in rec.effects if e.kind == "sub-store"]
        if len(stores) != 1 or not stores[0].loops:
            raise AnalysisError("from_trace_codes_text: neither a dict comprehension nor a single-store loop")
        e = stores[0]
        lr = rec.loops[e.loops[-1]]
        if lr.kind != "for" or lr.iter is None:
            raise AnalysisError("from_trace_codes_text: store is not inside a for loop over the lines")
        src, f = _line_source(lr.iter)
        tok_map = {lr.target: f(LINE)}
        key = sym.subst(e.key, tok_map)
        val = sym.subst(e.value, tok_map)
        conds = tuple(sym.subst(c if v else T("not", (c,)), tok_map) for c, v in e.pc)
        ok_ret = sym.root_of(ret) == sym.root_of(e.path or e.base) or ret.op in ("widen", "mut", "dict")
        run.ob("R1", TC, "from_trace_codes_text", "returns the filled table", ok_ret,
               "the function does not return the dict it fills", nontrivial=False)
    ok_src = src == T("call", (T("attr", (param("text"), "splitlines")), (), ()))
    run.ob("R1", TC, "from_trace_codes_text", "iterates text.splitlines() in order", ok_src,
           "" if ok_src else f"lines are taken from {sym.pretty(src)[:80]} instead of text.splitlines(): a trailing newline, "
                             f"\\r\\n endings or reordering change the mapping", facts={"source": sym.pretty(src)[:120]},
           line=fn.lineno)
    run.ob("R1", TC, "from_trace_codes_text", "every line is stored (no filter)", not conds,
           "" if not conds else f"lines are stored only when {[sym.pretty(c)[:60] for c in conds]}: the mapping is not "
                                f"'exactly the pairs' / last occurrence no longer wins", line=fn.lineno)
    tokens = T("call", (T("attr", (LINE, "split")), (), ()))
    want_key = T("call", (T("builtin", ("int",)), (T("sub", (tokens, const(0))), const(16)), ()))
    want_val = T("sub", (tokens, const(1)))
    run.ob("R1", TC, "from_trace_codes_text", "key = int(tokens[0], 16)", key == want_key,
           "" if key == want_key else f"the key is {sym.pretty(key)[:100]}; the property requires int(line.split()[0], 16) "
                                      f"(first whitespace token, base 16, with or without 0x)",
           facts={"key": sym.pretty(key)[:120]}, line=fn.lineno,
           witness="'40c0548 BSC_stat64' (no 0x prefix) or a line with a trailing comment")
    run.ob("R1", TC, "from_trace_codes_text", "value = tokens[1]", val == want_val,
           "" if val == want_val else f"the value is {sym.pretty(val)[:100]}; the property requires the second whitespace "
                                      f"token (the name, without trailing comments)",
           facts={"value": sym.pretty(val)[:120]}, line=fn.lineno,
           witness="'0x80010068 ASPCORE_PUSH_PAGES \\t#Params: flow' must map to 'ASPCORE_PUSH_PAGES'")
    # the file readers go through the text parser
    for name in ("from_trace_codes_file", "default_trace_codes"):
        f2 = repo.function("trace_codes", name)
        r2 = interp.run(mod, f2)
        calls = [c for c in r2.calls if c.func == T("func", (f"{TC}.from_trace_codes_text",))]
        rets = [r for r in r2.returns if r.kind == "return"]
        reads_file = any(c.func.op == "attr" and c.func.a[1] == "read" for c in r2.calls)
        ok = len(calls) >= 1 and len(rets) == 1 and reads_file and any(
            c.result is not None and (rets[0].value == c.result) for c in calls) and all(
            any(x.op == "call" and x.a[0].op == "attr" and x.a[0].a[1] == "read" for x in sym.walk(c.args[0])) for c in calls if c.args)
        # inlined: the return is the comprehension over <file>.read()
        run.ob("R1", TC, name, "reads the file through from_trace_codes_text", ok,
               f"{name} no longer returns from_trace_codes_text(<file contents>)", nontrivial=False, line=f2.lineno)


def analyse_indirection(repo: Repo, run: Run, interp) -> None:
    default = T("func", (f"{TC}.default_trace_codes",))
    n_sites = 0
    helpers = []
    for mod in repo.modules.values():
        units = [(None, f) for f in mod.functions.values()]
        for ci in mod.classes.values():
            units.extend((ci, m) for m in ci.methods.values())
        for ci, fnode in units:
            src_has = any(isinstance(n, ast.Name) and n.id in ("default_trace_codes", "from_trace_codes_file")
                          or isinstance(n, ast.Attribute) and n.attr in ("default_trace_codes", "from_trace_codes_file")
                          for n in ast.walk(fnode))
            if not src_has or mod.name == TC:
                continue
            rec = interp.run(mod, fnode, self_cls=ci)
            qn = f"{ci.name}.{fnode.name}" if ci else fnode.name
            params = {a.arg for a in fnode.args.args + fnode.args.kwonlyargs}
            for c in rec.calls:
                if c.func != default or c.where.split(".")[-1] != fnode.name:
                    continue
                n_sites += 1
                guard = None
                for cond, pol in c.pc:
                    if cond.op == "cmp" and cond.a[0] == "is" and cond.a[2] == const(None) and pol \
                            and cond.a[1].op == "param" and cond.a[1].a[0] in params:
                        guard = cond.a[1]
                    if cond.op == "cmp" and cond.a[0] == "is not" and cond.a[2] == const(None) and not pol \
                            and cond.a[1].op == "param" and cond.a[1].a[0] in params:
                        guard = cond.a[1]
                run.ob("R2", mod.name, qn, "default table only when none was supplied", guard is not None,
                       "" if guard is not None else
                       f"{qn} calls default_trace_codes() without the guard `<table parameter> is None`: the bundled table "
                       f"is used in place of / in addition to the caller's", line=c.lineno,
                       facts={"guard": sym.pretty(guard) if guard is not None else None})
                if guard is None:
                    continue
                # the chosen table = ite(guard is None, default(), guard); find where it flows
                dres = c.result if c.result is not None else T("call", (default, (), ()))
                forms = [T("ite", (T("cmp", ("is", guard, const(None))), dres, guard)),
                         T("ite", (T("cmp", ("is not", guard, const(None))), guard, dres)),
                         T("ite", (T("not", (T("cmp", ("is", guard, const(None))),)), guard, dres))]
                MARK = T("chosen-table", ())
                marks = {f_: MARK for f_ in forms}
                dcall = dres
                leaked = []
                whole = rec.return_term() in forms      # `if t is None: return default()` / `return t` helper form
                for r_ in rec.returns:
                    if whole and r_.kind == "return":
                        continue
                    if r_.value not in forms and sym.contains(sym.subst(r_.value, marks), dcall):
                        leaked.append(f"return value line {r_.lineno}")
                for ef in rec.effects:
                    if ef.value is not None and sym.contains(sym.subst(ef.value, marks), dcall):
                        leaked.append(f"{ef.kind} line {ef.lineno}")
                consumers = [cc for cc in rec.calls if any(a in forms for a in cc.args) or any(v in forms for _, v in cc.kwargs)]
                returns_chosen = any(r_.kind == "return" and r_.value in forms for r_ in rec.returns) or whole
                okflow = (bool(consumers) or returns_chosen) and not leaked
                run.ob("R2", mod.name, qn, "the chosen table is passed on unchanged", okflow,
                       "" if okflow else f"{qn}: the bundled table reaches a consumer other than through "
                                         f"`default if {sym.pretty(guard)} is None else {sym.pretty(guard)}` ({leaked[:2]})"
                                         if leaked else f"{qn}: the chosen table is not handed to any consumer",
                       facts={"consumers": sorted({sym.pretty(cc.func)[:60] for cc in consumers})}, line=c.lineno)
                if okflow and not consumers and returns_chosen:
                    helpers.append((mod, ci, fnode, guard.a[0]))
    # a helper that only makes the choice: each of its callers hands it the caller's own table and passes the result on
    for hmod, hci, hfn, gparam in helpers:
        hparams = [a.arg for a in hfn.args.args if a.arg != "self"]
        gpos = hparams.index(gparam) if gparam in hparams else None
        for mod in repo.modules.values():
            units = [(None, f) for f in mod.functions.values()]
            for ci in mod.classes.values():
                units.extend((ci, m) for m in ci.methods.values())
            for ci, fnode in units:
                if fnode is hfn or not any(isinstance(n, (ast.Name, ast.Attribute)) and getattr(n, "id", getattr(n, "attr", None)) == hfn.name
                                           for n in ast.walk(fnode)):
                    continue
                rec = interp.run(mod, fnode, self_cls=ci)
                qn = f"{ci.name}.{fnode.name}" if ci else fnode.name
                params = {a.arg for a in fnode.args.args + fnode.args.kwonlyargs}
                for c in rec.calls:
                    tail = c.func.a[1] if c.func.op == "attr" else (c.func.a[0].split(".")[-1] if c.func.op == "func" else None)
                    if tail != hfn.name or c.where.split(".")[-1] != fnode.name:
                        continue
                    n_sites += 1
                    given = dict(c.kwargs).get(gparam)
                    if given is None and gpos is not None and gpos < len(c.args):
                        given = c.args[gpos]
                    okg = given is not None and given.op == "param" and given.a[0] in params
                    used = c.result is not None and (
                        any(any(a == c.result for a in cc.args) or any(v == c.result for _, v in cc.kwargs) for cc in rec.calls)
                        or rec.return_term() == c.result)
                    run.ob("R2", mod.name, qn, f"{hfn.name}: the caller's own table is the one chosen from", okg and used,
                           "" if okg and used else
                           f"{qn} calls {hfn.name}({sym.pretty(given)[:40] if given is not None else ''}) "
                           + ("with something other than its own table parameter" if not okg else
                              "and does not hand the chosen table to any consumer"), line=c.lineno)
    run.floor("R2", "default_trace_codes() call sites outside trace_codes.py", n_sites, 2)

    # consumers: TracesParser stores its first argument, nobody else rebinds .trace_codes
    tp = repo.cls("traces_parser", "TracesParser")
    init = repo.method("traces_parser", "TracesParser", "__init__")
    rec = interp.run(tp.module, init, self_cls=tp)
    first = init.args.args[1].arg
    st = [e for e in rec.effects if e.kind == "attr-store" and e.key == "trace_codes"]
    # (types.MappingProxyType(table) is a read-only live view of the same table: every lookup answers as the table does)
    view = T("call", (T("global", ("types.MappingProxyType",)), (param(first),), ()))
    ok = len(st) == 1 and st[0].value in (param(first), view) and not st[0].pc
    run.ob("R2", tp.module.name, "TracesParser.__init__", "stores the table it is given", ok,
           "" if ok else "TracesParser.__init__ does not store its first argument as self.trace_codes", line=init.lineno)
    from .. import decoders
    D = decoders.Decoders(repo)
    n = 0
    bad = []
    for e in D.entries():
        d = D.decode(e)
        n += 1
        for ef in d.rec.effects:
            if ef.kind == "attr-store" and ef.key == "trace_codes":
                bad.append((e, ef))
    for ci_m in ("feed", "feed_generator", "parse_event_list", "parse_vnode", "parse_vnodes", "_feed_start_event",
                 "_feed_end_event", "_feed_single_event"):
        if ci_m in tp.methods:
            r = interp.run(tp.module, tp.methods[ci_m], self_cls=tp)
            for ef in r.effects:
                if ef.kind == "attr-store" and ef.key == "trace_codes":
                    bad.append((ci_m, ef))
    run.ob("R2", tp.module.name, "TracesParser + handlers", "trace_codes never rebound", not bad,
           f"parser.trace_codes is rebound by {[getattr(b[0], 'func_name', b[0]) for b in bad]}", facts={"handlers": n})
    # facade forwards the caller's table
    pk = repo.cls("pykdebugparser", "PyKdebugParser")
    for m, callee in (("formatted_traces", "traces"), ("callstacks", "traces"), ("formatted_callstacks", "callstacks")):
        fnode = repo.method("pykdebugparser", "PyKdebugParser", m)
        cfn = repo.method("pykdebugparser", "PyKdebugParser", callee)
        cparams = [a.arg for a in cfn.args.args if a.arg != "self"]
        params = [a.arg for a in fnode.args.args if a.arg != "self"]
        # the table parameter is the one after the stream (second free parameter) in both signatures
        if len(params) < 2 or len(cparams) < 2:
            run.ob("R2", pk.module.name, f"PyKdebugParser.{m}", "forwards the caller's table", False,
                   f"{m} / {callee} no longer take (stream, table)", line=fnode.lineno)
            continue
        rec_m = interp.run(pk.module, fnode, self_cls=pk)
        okf = False
        for c in rec_m.calls:
            if c.func == T("attr", (SELF, callee)) and c.where.split(".")[-1] == m:
                given = dict(c.kwargs).get(cparams[1])
                if given is None and len(c.args) >= 2:
                    given = c.args[1]
                okf = given == param(params[1])
        run.ob("R2", pk.module.name, f"PyKdebugParser.{m}", "forwards the caller's table", okf,
               f"{m} does not pass its table argument ({params[1]}) on to {callee}()", nontrivial=False, line=fnode.lineno)


def _dispatch_shape(value: T, evs: T) -> bool:
    tc = T("attr", (SELF, "trace_codes"))
    H = T("attr", (SELF, "handlers"))
    first_id = T("attr", (T("sub", (evs, const(0))), "eventid"))
    names = [T("sub", (tc, first_id))] + [T("call", (T("attr", (tc, "get")), (first_id,) + d, ())) for d in ((), (const(None),))]
    names += [x for x in sym.walk(value) if x.op == "call" and x.a[0] == T("attr", (tc, "get")) and len(x.a[1]) == 2
              and x.a[1][0] == first_id and x.a[1][1].op == "global" and x.a[1][1].a[0].startswith("pykdebugparser.")]
    for name in names:
        for h in [T("sub", (H, name))] + [T("call", (T("attr", (H, "get")), (name,) + d, ())) for d in ((), (const(None),))]:
            if value == T("call", (h, (SELF, evs), ())):
                return True
    return False


def analyse_absent(repo: Repo, run: Run, interp) -> None:
    deferred = None
    try:
        _absent_in_listing(repo, run, interp)
    except AnalysisError as ex:
        deferred = ex
    _absent_in_dispatch(repo, run, interp)
    if deferred is not None:
        raise deferred


def _absent_in_listing(repo: Repo, run: Run, interp) -> None:
    pk = repo.cls("pykdebugparser", "PyKdebugParser")
    from .. import pipeline
    fk = repo.method("pykdebugparser", "PyKdebugParser", pipeline.line_builder(repo, interp, "formatted_kevents", "_format_kevent"))
    rec = interp.run(pk.module, fk, self_cls=pk)
    ev, table = param(fk.args.args[1].arg), param(fk.args.args[2].arg)
    import ast as _ast
    gen_calls = [x for x in sym.walk(rec.return_term()) if x.op == "call" and x.a[0].op == "attr" and x.a[0].a[0] == param("self")
                 and x.a[0].a[1] in pk.methods and any(isinstance(y, (_ast.Yield, _ast.YieldFrom)) for y in _ast.walk(pk.methods[x.a[0].a[1]]))]
    if gen_calls:
        raise AnalysisError(f"the line builder joins the columns produced by the generator {gen_calls[0].a[0].a[1]}(): how an id "
                            f"absent from the table is shown is not decided")
    kept = [e_ for e_ in rec.effects if e_.kind in ("sub-store", "mut-call") and e_.func.endswith(fk.name)
            and sym.root_of(e_.path if e_.path is not None else e_.base) != table]
    if kept:
        # the columns are kept in a table the builder fills itself (a cache handed in, an attribute): whether what comes back
        # from it is the column of THIS table is not read off the return term
        raise AnalysisError(f"the line builder keeps columns in {sym.pretty(kept[0].path if kept[0].path is not None else kept[0].base)[:50]} "
                            f"(line {kept[0].lineno}): how an id absent from the table is shown is not decided")
    eid = T("attr", (ev, "eventid"))
    cond = T("cmp", ("in", eid, table))
    hexid = T("call", (T("builtin", ("hex",)), (eid,), ()))
    found = None
    for x in sym.walk(rec.return_term()):
        if x.op == "ite" and x.a[0] == cond:
            found = x
            break
        if x.op == "ite" and x.a[0] == T("cmp", ("not in", eid, table)):
            found = T("ite", (cond, x.a[2], x.a[1]))
            break
        # name = table.get(id) ... `if name is None` / `is not None`: the names of the table are strings, so "no name" is
        # "id not in the table"
        gets = [T("call", (T("attr", (table, "get")), (eid,) + d, ())) for d in ((), (const(None),))]
        if x.op == "ite" and x.a[0].op == "cmp" and x.a[0].a[0] in ("is", "is not") and x.a[0].a[2] == const(None) \
                and x.a[0].a[1] in gets:
            found = T("ite", (cond, x.a[2], x.a[1])) if x.a[0].a[0] == "is" else T("ite", (cond, x.a[1], x.a[2]))
            break
    # on the branch where the id is in the table, table.get(id, <anything>) is table[id]
    ok = found is not None and found.a[2] == hexid and any(
        x == T("sub", (table, eid)) or (x.op == "call" and x.a[0] == T("attr", (table, "get")) and x.a[1][:1] == (eid,))
        for x in sym.walk(found.a[1]))
    run.ob("R3", pk.module.name, "PyKdebugParser._format_kevent", "absent id shown as bare hex", ok,
           "" if ok else ("the name column is not `table[id] ...` when the id is in the supplied table and exactly hex(id) "
                          "otherwise" + (f": else-branch is {sym.pretty(found.a[2])[:60]}" if found is not None else "")),
           facts={"name_term": sym.pretty(found)[:200] if found is not None else None}, line=fk.lineno)


def _absent_in_dispatch(repo: Repo, run: Run, interp) -> None:
    tp = repo.cls("traces_parser", "TracesParser")
    pel = repo.method("traces_parser", "TracesParser", "parse_event_list")
    r = interp.run(tp.module, pel, self_cls=tp)
    SELF = param("self")
    evs = param(pel.args.args[1].arg)
    first_id = T("attr", (T("sub", (evs, const(0))), "eventid"))
    tc = T("attr", (SELF, "trace_codes"))
    name = T("sub", (tc, first_id))
    want_call = T("call", (T("sub", (T("attr", (SELF, "handlers")), name)), (SELF, evs), ()))
    from .. import normal
    rets = normal.split_returns([x for x in r.returns if x.kind == "return"])
    nonnull = [x for x in rets if x.value != const(None)]
    from .c04 import dispatch_ok
    full_ok = len(nonnull) == 1 and dispatch_ok(nonnull[0].value, nonnull[0].pc, evs)
    # shape: handlers[<name of events[0].eventid in the table>](self, events) in one of the accepted spellings
    ok = len(nonnull) == 1 and (full_ok or _dispatch_shape(nonnull[0].value, evs))
    run.ob("R3", tp.module.name, "TracesParser.parse_event_list", "decoder selected by the table's name", ok,
           "" if ok else "parse_event_list does not return handlers[trace_codes[first.eventid]](self, events): "
                         + ", ".join(sym.pretty(x.value)[:80] for x in nonnull), line=pel.lineno,
           facts={"return": sym.pretty(nonnull[0].value)[:160] if nonnull else None})
    if ok:
        run.ob("R3", tp.module.name, "TracesParser.parse_event_list", "absent id / undecoded name -> no trace", full_ok,
               "the decoder call is not guarded by both `id in trace_codes` and `name in handlers`; an id absent from the "
               "supplied table raises or is decoded", line=pel.lineno)
        others_none = all(x.value == const(None) for x in rets if x is not nonnull[0])
        run.ob("R3", tp.module.name, "TracesParser.parse_event_list", "other paths return None", others_none,
               "a path of parse_event_list returns something other than None without consulting the table",
               nontrivial=False)
    feed = repo.method("traces_parser", "TracesParser", "feed")
    rf = interp.run(tp.module, feed, self_cls=tp)
    evp = param(feed.args.args[1].arg)
    eid2 = T("attr", (evp, "eventid"))
    for p_ in rf.pops:
        if p_.kind == "sub" and p_.base == tc and p_.func.endswith(".feed"):      # feed's own lookups, not its callees'
            from ..render import norm_bool
            pcs = {norm_bool(c)[0]: (norm_bool(c)[1] == v) for c, v in p_.pc}
            okm = p_.key == eid2 and pcs.get(T("cmp", ("in", eid2, tc))) is True
            run.ob("R3", tp.module.name, "TracesParser.feed", "membership tested before indexing the table", okm,
                   "feed indexes trace_codes without first testing that the event id is in the supplied table",
                   line=p_.lineno)


def lookups_by_name(repo: Repo, run: Run) -> None:
    """Nested lookup records are recognised by the NAME the supplied table gives their id (C08/R1) - not by an id fixed in
    the code or computed once from the table: with a table that lists a name under several ids (or under another id than
    the bundled one) every such record must still be decoded."""
    if getattr(run, "is_probe", False):
        return          # (a check run for its own obligations does not take over in turn)
    from . import c08
    probe = Run("C08", run.tier, run.repo_root)
    probe.is_probe = True
    try:
        c08.check(repo, probe)
    except AnalysisError:
        pass            # the floor below fails if the selection obligation was not reached
    n = 0
    for o in probe.obligations:
        if o["rule"] == "R1" and "records named VFS_LOOKUP" in o["construct"]:
            n += 1
            run.ob("R0", o["module"], o["scope"], f"records found through the supplied table (C08/R1): {o['construct']}", o["ok"],
                   (o.get("what", "") + " - a supplied table that gives the name to a different or a further id is not honoured")
                   if not o["ok"] else "", nontrivial=False)
    run.floor("R0", "name-based selection obligations taken over from C08", n, 1)
    # the composite decoders (sampler, launch, page fault) pick the nested records of their window by the name the
    # supplied table gives each id (C20/R2, R3): a record whose id the table does not list, or lists under another name,
    # must not be decoded as one of them
    from . import c20
    probe = Run("C20", run.tier, run.repo_root)
    probe.is_probe = True
    try:
        c20.check(repo, probe)
    except AnalysisError:
        pass
    m = 0
    for o in probe.obligations:
        if (o["rule"] in ("R2", "R3") and " record" in o["construct"]) or \
                (o["rule"] == "R1" and "from the first nested real-fault record" in o["construct"]):
            # (R1: the page-fault decoder has its nested record decoded by parse_event_list, i.e. through the supplied table)
            m += 1
            run.ob("R0", o["module"], o["scope"], f"nested records found through the supplied table (C20/{o['rule']}): {o['construct']}",
                   o["ok"], (o.get("what", "") + " - a record whose id the supplied table does not list under that name is then "
                             "decoded as if it were") if not o["ok"] else "", nontrivial=False)
    run.floor("R0", "name-based selection obligations taken over from C20", m, 3)


def domain_by_name(repo: Repo, run: Run) -> None:
    """R0 (from C04/K6): which pairing domain a record goes to is decided by the NAME the supplied table gives its id (is it a
    trace-family name?), never by the id's class byte or another property of the number - under a table that lists a TRACE_*
    name at another id the record must still be paired apart from the ordinary calls."""
    if getattr(run, "is_probe", False):
        return          # (a check run for its own obligations does not take over in turn)
    from . import c04
    probe = Run("C04", run.tier, run.repo_root)
    probe.is_probe = True
    try:
        c04.check(repo, probe)
    except AnalysisError as ex:
        run.floor_failures.append(f"C19/R0: the domain selection taken from C04 is not decided: {str(ex)[:200]}")
        return
    m = 0
    for o in probe.obligations:
        if o["rule"] == "K6" and o["construct"] == "domain selection":
            m += 1
            run.ob("R0", o["module"], o["scope"], "pairing domain chosen by the table's name for the id (C04/K6)", o["ok"],
                   (o.get("what", "") + " - under a supplied table that lists a trace-family name at an id of another class the "
                    "record is paired with the ordinary calls and picks up their records") if not o["ok"] else "",
                   nontrivial=False)
    run.floor("R0", "domain-selection obligations taken over from C04", m, 1)


def check(repo: Repo, run: Run) -> None:
    interp = sym.Interp(repo)
    # the four groups of rules are independent: one that cannot find its anchors does not stop the others (its analysis
    # error is raised after they have been judged)
    deferred = None
    for part in (lambda: lookups_by_name(repo, run), lambda: domain_by_name(repo, run),
                 lambda: analyse_table_parser(repo, run, interp),
                 lambda: analyse_indirection(repo, run, interp), lambda: analyse_absent(repo, run, interp)):
        try:
            part()
        except AnalysisError as ex:
            deferred = deferred or ex
    if deferred is not None:
        raise deferred
