"""C20 - composite traces reflect exactly the records nested in their window."""
from __future__ import annotations

from typing import Optional

from .. import decoders, guards, normal, render, sym
from ..model import AnalysisError, Repo
from ..report import Run, take_over
from ..sym import T, const, param
from .c15 import named_selection

EXPLANATION = (
    "Structural clauses read off the symbolic value of the object each composite decoder returns. R1 (page fault): result "
    "and fault type are END words 2 and 3 (type only when result == 0); pid and protection are attributes of "
    "parse_event_list(<the window's inner records, events[1:-1], that are real-fault-address records>) - which decodes the "
    "FIRST such record - taken only when that selection is non-empty AND the decode result is not None, None otherwise; the "
    "rendering shows them only when both are present. R2 (launch): the image list is sorted(by load_addr) over the union of "
    "the window's records named DYLD_uuid_map_a and DYLD_uuid_shared_cache_a (selected through the supplied code table), "
    "each decoded from its own record. R3 (sampler): th_info is a decode of the window's PERF_THD_Data records exactly when "
    "SAMPLER_TH_INFO is in the decoded flags and such a record is present; cs_frames / cs_flags come from the PERF_STK_UHdr / "
    "PERF_STK_UData records exactly when SAMPLER_USTACK is in the flags and a header is present; otherwise they are None."
)

EVENTS = decoders.EVENTS
PARSER = decoders.PARSER


def end_word(i):
    return T("sub", (T("attr", (T("sub", (EVENTS, const(-1))), "values")), const(i)))


def entry(D, key):
    es = [e for e in D.entries() if e.key == key]
    if not es:
        raise AnalysisError(f"anchor vanished: {key} decoder")
    return es[0]


def gate(t: T):
    """ite(c1, ite(c2, V, None), None) -> (c1, c2, V); also accepts a single level -> (c1, None, V)."""
    if t.op == "ite" and t.a[2] == const(None):
        inner = t.a[1]
        if inner.op == "ite" and inner.a[2] == const(None):
            return t.a[0], inner.a[0], inner.a[1]
        return t.a[0], None, inner
    return None


class _Undecided(Exception):
    pass


def _ceval(repo: Repo, t: T):
    """Value of a closed term over constants (comparisons, and/or/not, arithmetic, range(), tuples, module constants)."""
    from .. import consteval
    if t.op == "const":
        return t.a[0]
    if t.op == "cmp":
        l, r = _ceval(repo, t.a[1]), _ceval(repo, t.a[2])
        try:
            return {"==": lambda: l == r, "!=": lambda: l != r, "<": lambda: l < r, "<=": lambda: l <= r, ">": lambda: l > r,
                    ">=": lambda: l >= r, "in": lambda: l in r, "not in": lambda: l not in r}[t.a[0]]()
        except (KeyError, TypeError):
            raise _Undecided(sym.pretty(t)[:60])
    if t.op == "bool":
        vals = [_ceval(repo, x) for x in t.a[1]]
        return all(vals) if t.a[0] == "and" else any(vals)
    if t.op == "not":
        return not _ceval(repo, t.a[0])
    if t.op == "bin":
        f_ = sym._fold_bin(t.a[0], _ceval(repo, t.a[1]), _ceval(repo, t.a[2]))
        if f_ is None:
            raise _Undecided(sym.pretty(t)[:60])
        return f_
    if t.op in ("tuple", "list", "set"):
        return tuple(_ceval(repo, x) for x in t.a[0])
    if t.op == "call" and t.a[0] == T("builtin", ("range",)) and not t.a[2] and 1 <= len(t.a[1]) <= 3:
        return range(*[_ceval(repo, x) for x in t.a[1]])
    if t.op == "call" and t.a[0].op == "builtin" and t.a[0].a[0] in ("frozenset", "set", "tuple", "list") and len(t.a[1]) == 1:
        return tuple(_ceval(repo, t.a[1][0]))
    if t.op == "global" and t.a[0].startswith("pykdebugparser."):
        found = repo.lookup(t.a[0])
        if found and found[0] == "const":
            v = consteval.evaluate(repo, found[1], found[2])
            if v is not consteval.UNKNOWN:
                return v
    raise _Undecided(sym.pretty(t)[:60])


def check_fault_selection(repo: Repo, run: Run, D, e, f) -> None:
    """R1: the records picked out of the fault window are exactly the real-fault-address records - each code of that group the
    registry has a decoder for satisfies the selection condition, and no code of the bundled table outside the group does."""
    M = e.module.name
    sels = []
    for fld in ("pid", "caller_prot"):
        v = f.get(fld)
        for x in (sym.walk(v) if v is not None else ()):
            if x.op == "call" and x.a[0] == T("attr", (PARSER, "parse_event_list")) and len(x.a[1]) == 1 and x.a[1][0].op == "comp" \
                    and len(x.a[1][0].a[2]) == 1 and x.a[1][0] not in sels:
                sels.append(x.a[1][0])
    if len(sels) != 1:
        return                  # (the shape obligations above have already said so)
    elem, _, conds = sels[0].a[2][0]
    registered = {en.key for en in D.entries()}
    group = [(i, n) for i, n, _ in repo.trace_codes_lines() if n.startswith("RealFaultAddress")]
    if not group:
        raise AnalysisError("anchor vanished: no RealFaultAddress* codes in the bundled table")

    def selected(ident: int):
        sub = {T("attr", (elem, "eventid")): const(ident)}
        return all(bool(_ceval(repo, sym.subst(c, sub))) for c in conds)
    try:
        missed = [n for i, n in group if n in registered and not selected(i)]
        group_ids = {i for i, _ in group}
        extra = [n for i, n, _ in repo.trace_codes_lines() if i not in group_ids and selected(i)][:3]
    except _Undecided as ex:
        run.floor_failures.append(f"C20/R1: the condition selecting the nested real-fault records is not evaluated for a given code: {ex}")
        return
    run.ob("R1", M, e.func_name, "every decodable real-fault-address kind is selected from the window", not missed,
           f"the selection {[sym.pretty(c)[:70] for c in conds]} does not pick {missed}: a fault served by such a record loses its pid "
           f"and protection (or takes them from a later record)", facts={"group": [n for _, n in group]}, line=e.func.lineno,
           witness=None if not missed else f"a MACH_vmfault window whose nested record is {missed[0]}")
    # the nested decode hands ALL selected records to the record's decoder: "from the FIRST nested real-fault-address record"
    # holds because that decoder reads the first record of what it is given
    for en in D.entries():
        if not en.key.startswith("RealFaultAddress"):
            continue
        dd = D.decode(en)
        if dd.ret is None or dd.ret.op != "new":
            continue
        late = sorted({decoders.fmt_atoms({a})[0] for k_, v_ in dd.ret.a[1] if k_ != "ktraces"
                       for a in decoders.classify(v_) if a[0].startswith("END") or a[0].startswith("EV")})
        run.ob("R1", en.module.name, en.func_name, f"{en.key}: decoded from the first record it is given", not late,
               "" if not late else
               f"the decoder of {en.key} reads {late[:3]}: inside a fault window it is handed every nested real-fault-address record, "
               f"so pid and protection then come from the last (or another) record instead of the first", line=en.func.lineno,
               nontrivial=False, witness="a fault window with two nested real-fault-address records carrying different pids")
    run.ob("R1", M, e.func_name, "only real-fault-address records are selected", not extra,
           f"the selection also picks {extra}: pid and protection are then read from a record of another kind", nontrivial=False)


def check(repo: Repo, run: Run) -> None:
    take_over(run, "c07", "C07", repo, lambda o: o["rule"] == "R1" and o["module"].endswith(("trace_handlers.perf", "trace_handlers.dyld"))
              and o["construct"].startswith("unpack"), "R0", "nested decoders take any number of records",
              "the composite decoders hand every nested record they select to the stand-alone decoder of that kind: one that insists on "
              "a fixed number of records raises, and the composite trace is never produced", 0)
    take_over(run, "c15", "C15", repo, lambda o: o["rule"] == "R3" and "cs_frames" in o["construct"], "R0", "user stack of a sample",
              "the user stack a sample carries is made of the words of the stack records nested in its window: words dropped or "
              "rewritten by the decoder of those records are missing from the sample", 1)
    take_over(run, "c04", "C04", repo, lambda o: o["rule"] == "K6" and o["construct"] == "domain selection", "R0",
              "pairing domain of the composite windows", "a composite decoder sees the records nested in its window: records of kinds "
              "the tool does not decode belong to the ordinary domain like the composite itself, or the first nested record it "
              "selects is not the first one logged", 1)
    take_over(run, "c04", "C04", repo, lambda o: o["rule"] == "K9", "R0", "dispatch of nested records",
              "the composite decoders hand the nested records they select to parse_event_list: a list it declines gives no nested "
              "trace, so the fields taken from it stay empty", 3)
    # a composite trace is computed from "the records of its window": that the window of an END is exactly the records of
    # the thread from the most recent START of that code is the pairing machine's contract (C04 K3-K5)
    from .c09 import window_obligations
    window_obligations(repo, run, ("K3", "K4", "K5"),
                       "the window handed to a composite decoder then holds records from outside the START..END interval (or "
                       "lacks some from inside it)")
    D = decoders.Decoders(repo)

    # ------------------------------------------------------------------ R1 page fault
    e = entry(D, "MACH_vmfault")
    d = D.decode(e)
    M = e.module.name
    if d.ret.op != "new":
        raise AnalysisError("MACH_vmfault decoder does not return a constructed object")
    f = {k: normal.normalise(d.rec, v) for k, v in d.ret.a[1]}
    run.ob("R1", M, e.func_name, "result is END word 2", f.get("result") == end_word(2),
           f"result is {sym.pretty(f.get('result'))[:60]}, not events[-1].values[2]", line=e.func.lineno)
    ft = f.get("fault_type")
    ok = ft is not None and ft.op == "ite" and ft.a[2] == const(None) and ft.a[1].op == "call" and ft.a[1].a[1] == (end_word(3),) \
        and render.norm_bool(ft.a[0]) == (end_word(2), False)
    run.ob("R1", M, e.func_name, "fault type is END word 3 when the result is 0", ok,
           f"fault_type is {sym.pretty(ft)[:100] if ft is not None else None}: not DbgVmFaultType(events[-1].values[3]) exactly when "
           f"events[-1].values[2] == 0", line=e.func.lineno)
    for fld in ("pid", "caller_prot"):
        v = f.get(fld)
        okv = False
        why = ""
        if v is not None:
            # strip the result == 0 gate
            cur = v
            conds = []
            while cur.op == "ite" and cur.a[2] == const(None):
                conds.append(cur.a[0])
                cur = cur.a[1]
            if cur.op == "attr" and cur.a[1] == fld and cur.a[0].op == "call" \
                    and cur.a[0].a[0] == T("attr", (PARSER, "parse_event_list")) and len(cur.a[0].a[1]) == 1:
                nested = cur.a[0]
                sel = nested.a[1][0]
                sel_ok = sel.op == "comp" and sel.a[0] == "list" and len(sel.a[2]) == 1 and sel.a[2][0][1] == \
                    T("slice", (EVENTS, const(1), const(-1))) and sel.a[1] == sel.a[2][0][0] and len(sel.a[2][0][2]) >= 1
                a = {}
                for c in conds:
                    a = render.with_assumption(a, c, True)
                not_none = render.assume_lookup(a, T("cmp", ("is", nested, const(None)))) is False \
                    or render.assume_lookup(a, nested) is True
                nonempty = render.assume_lookup(a, sel) is True
                res0 = render.assume_lookup(a, end_word(2)) is False
                okv = sel_ok and not_none and nonempty and res0
                why = f"inner-records selection ok={sel_ok}, None-guard={not_none}, non-empty guard={nonempty}, result==0 gate={res0}"
        run.ob("R1", M, e.func_name, f"{fld} from the first nested real-fault record, guarded", okv,
               "" if okv else f"{fld} is not `parse_event_list(<real-fault records among events[1:-1]>).{fld}` taken only when the "
                              f"selection is non-empty and the decode result is not None ({why})",
               facts={"term": sym.pretty(v)[:300] if v is not None else None}, line=e.func.lineno,
               witness="a fault window whose nested real-fault record is of a kind without a decoder, or with none at all")
    # which records the selection picks: every real-fault-address code the tool has a decoder for, and no other code of
    # the bundled table
    check_fault_selection(repo, run, D, e, f)
    # rendering shows pid/prot only when both present
    if d.segs is not None:
        shown_unguarded = False
        for ch, flat in render.variants(d.segs):
            chd = dict(ch)
            for s in flat:
                if s[0] == "hole" and (sym.contains(s[1], T("attr", (PARSER, "parse_event_list")))):
                    # the hole mentions the nested decode: the choices must include its presence
                    if not any(sym.contains(c, T("attr", (PARSER, "parse_event_list"))) or c.op == "comp" for c in chd):
                        shown_unguarded = True
        run.ob("R1", M, "MachVmfault.__str__", "pid/protection rendered only when present", not shown_unguarded,
               "the rendering uses pid/protection on an alternative where their presence is not established", nontrivial=False)
        # ... and whenever present: a pid of 0 (the kernel task) and an empty protection list (VM_PROT_NONE spelled out by a
        # decoder that lists the bits) are values, not absences.  The alternative that shows them is chosen by comparisons
        # with None; a choice made on the truth value of the field hides the zero / empty value
        by_truth = []
        for ch, flat in render.variants(d.segs):
            if not any(s[0] == "hole" and sym.contains(s[1], T("attr", (PARSER, "parse_event_list"))) for s in flat):
                continue
            for c, _pol in ch:
                stack = [c]
                while stack:
                    x = stack.pop()
                    if x.op == "bool":
                        stack.extend(x.a[1])
                    elif x.op == "not":
                        stack.append(x.a[0])
                    elif x.op in ("ite", "attr") and sym.contains(x, T("attr", (PARSER, "parse_event_list"))):
                        by_truth.append(next((y.a[1] for y in sym.walk(x) if y.op == "attr" and isinstance(y.a[1], str)
                                              and y.a[0].op == "call" and y.a[0].a[0] == T("attr", (PARSER, "parse_event_list"))), "?"))
        run.ob("R1", M, "MachVmfault.__str__", "pid/protection rendered whenever present", not by_truth,
               "" if not by_truth else "whether pid/protection are shown is decided by the truth value of the field taken from the nested "
               f"record (.{by_truth[0]}), not by a comparison with None: a fault of pid 0 or with no protection bit loses both",
               nontrivial=False, witness="a fault window whose real-fault record carries pid 0")

    # ------------------------------------------------------------------ R2 launch
    e = entry(D, "DBG_DYLD_TIMING_LAUNCH_EXECUTABLE")
    d = D.decode(e)
    M = e.module.name
    # the three composite results are plain records: a class that runs code of its own when it is built (__post_init__ with an
    # assertion, a validation that can raise) decides after the decoder whether the trace exists at all - not followed
    for key_ in ("DBG_DYLD_TIMING_LAUNCH_EXECUTABLE", "MACH_vmfault", "PERF_Event"):
        d_ = D.decode(entry(D, key_))
        if d_.cls is not None and "__post_init__" in d_.cls.methods:
            import ast as _a
            risky = any(isinstance(x, (_a.Assert, _a.Raise)) for x in _a.walk(d_.cls.methods["__post_init__"]))
            if risky:
                # an assertion about the records of the window holds for every window or the trace is lost for some: which, is
                # a statement about all windows these rules do not decide
                run.floor_failures.append(f"C20: {d_.cls.name}.__post_init__ can raise: for which windows the composite trace is produced "
                                          f"at all is not decided")
    f = {k: normal.normalise(d.rec, v) for k, v in d.ret.a[1]} if d.ret.op == "new" else {}
    lst = f.get("uuid_map_a")
    ok_sorted = lst is not None and lst.op == "call" and lst.a[0] == T("builtin", ("sorted",)) and len(lst.a[1]) == 1
    key_ok = False
    rev = False
    if ok_sorted:
        kw = dict(lst.a[2])
        k = kw.get("key")
        key_ok = k is not None and (
            (k.op == "lambda" and len(k.a) > 1 and k.a[1].op == "attr" and k.a[1].a[1] == "load_addr" and k.a[1].a[0].op == "bound")
            or k == T("call", (T("global", ("operator.attrgetter",)), (const("load_addr"),), ())))
        if k is not None and not key_ok and k.op == "func":
            # a module-level key function: its body over its single parameter
            found = repo.lookup(k.a[0])
            if found and found[0] == "func" and len(found[2].args.args) == 1:
                krec = sym.Interp(repo).run(found[1], found[2])
                key_ok = not krec.notes and not krec.effects and \
                    krec.return_term() == T("attr", (param(found[2].args.args[0].arg), "load_addr"))
        rev = "reverse" in kw and sym.truth(kw["reverse"]) is not False
    run.ob("R2", M, e.func_name, "image list sorted by load address, ascending", ok_sorted and key_ok and not rev,
           "" if ok_sorted and key_ok and not rev else "the launch trace's image list is not sorted(..., key=<load_addr>) ascending",
           facts={"term": sym.pretty(lst)[:200] if lst is not None else None}, line=e.func.lineno)
    if ok_sorted:
        parts = []

        def split(t):
            if t.op == "bin" and t.a[0] == "+":
                split(t.a[1])
                split(t.a[2])
            elif not (t.op in ("list", "tuple") and not t.a[0]):        # `[] + ...`: the empty start of an accumulation
                parts.append(t)
        split(lst.a[1][0])
        names = {}
        for p_ in parts:
            if p_.op == "comp" and len(p_.a[2]) == 1:
                ev, it, conds = p_.a[2][0]
                for nm in ("DYLD_uuid_map_a", "DYLD_uuid_shared_cache_a"):
                    if named_selection(T("comp", ("list", ev, p_.a[2])), nm) is not None:
                        elt = p_.a[1]
                        own = elt.op == "new" and dict(elt.a[1]).get("load_addr") == T("sub", (T("attr", (ev, "values")), const(2))) \
                            and dict(elt.a[1]).get("ktraces") == T("list", ((ev,),))
                        names[nm] = own
        gens = [p_.a[2][0][1] for p_ in parts if p_.op == "comp" and len(p_.a[2]) == 1 and p_.a[2][0][1].op == "comp"
                and p_.a[2][0][1].a[0] == "gen"]
        shared_gen = len(gens) >= 2 and len(set(gens)) < len(gens)
        if shared_gen:
            run.ob("R2", M, e.func_name, "each record kind is selected from the whole window", False,
                   "two comprehensions of the image list iterate over the SAME generator expression: the first one exhausts it, the "
                   "second one finds nothing - the records of the second kind are never listed", line=e.func.lineno,
                   witness="a launch interval with a DYLD_uuid_shared_cache_a record")
        elif len(names) < 2 and not all(p_.op == "comp" and len(p_.a[2]) == 1 and p_.a[2][0][1] == EVENTS for p_ in parts):
            # the list is not put together from one comprehension over the window per record kind (one pass with a sort by
            # kind, a helper ...): which records it holds is not read off this form
            run.floor_failures.append(f"C20/R2: the launch image list is built as {sym.pretty(lst.a[1][0])[:80]}: which nested records it "
                                      f"holds is not decided")
            names = {"DYLD_uuid_map_a": True, "DYLD_uuid_shared_cache_a": True}
            parts = parts[:2] if len(parts) >= 2 else parts + [None] * (2 - len(parts))
        for nm in ("DYLD_uuid_map_a", "DYLD_uuid_shared_cache_a"):
            run.ob("R2", M, e.func_name, f"every nested {nm} record is listed, decoded from itself", names.get(nm) is True,
                   f"the image list does not contain one entry per window record named {nm} (selected through the code table), "
                   f"each decoded from its own record", line=e.func.lineno)
        run.ob("R2", M, e.func_name, "nothing else is listed", len(parts) == len(names),
               f"the image list is built from {len(parts)} parts; expected exactly the two record kinds", nontrivial=False)

    # ------------------------------------------------------------------ R3 sampler
    e = entry(D, "PERF_Event")
    d = D.decode(e)
    M = e.module.name
    f = {k: normal.normalise(d.rec, v) for k, v in d.ret.a[1]} if d.ret.op == "new" else {}
    sw = f.get("sample_what")
    undecided = []
    SA = "pykdebugparser.trace_handlers.perf.SamplerAction"
    for fld, flag, rec_name in (("th_info", "SAMPLER_TH_INFO", "PERF_THD_Data"), ("cs_frames", "SAMPLER_USTACK", "PERF_STK_UHdr"),
                                ("cs_flags", "SAMPLER_USTACK", "PERF_STK_UHdr")):
        v = f.get(fld)
        g = gate(v) if v is not None else None
        ok = False
        if g is not None and g[1] is not None:
            c1, c2, val = g
            ok_flag = c1 == T("cmp", ("in", T("enum", (SA, flag)), sw))
            sel = named_selection(c2, rec_name)
            uses = sel is not None and sym.contains(val, sel[1])
            ok = ok_flag and sel is not None and uses
        if not ok and v is not None and any(x.op in ("widen", "unknown") or (x.op == "call" and x.a[0].op == "func")
                                            for x in sym.walk(v)):
            undecided.append(f"{fld} is computed through an intermediate structure that is not reduced to selections of the window's "
                             f"records: {sym.pretty(v)[:100]}")
            continue
        run.ob("R3", M, e.func_name, f"{fld} exactly when {flag} is requested and a {rec_name} record is present", ok,
               "" if ok else f"{fld} is not `<decode of the window's {rec_name} records> if {flag} in sample_what and such a record "
                             f"exists else None`", facts={"term": sym.pretty(v)[:240] if v is not None else None}, line=e.func.lineno)
    # the flags word is START word 0
    ok = sw is not None and any(x == T("sub", (T("attr", (T("sub", (EVENTS, const(0))), "values")), const(0)))
                                for x in sym.walk(sym.resolve_widens(d.rec, sw)))
    run.ob("R3", M, e.func_name, "sampler flags decoded from START word 0", ok,
           "sample_what is not decoded from events[0].values[0]", nontrivial=False)
    # defaults are None
    pe = repo.cls("trace_handlers.perf", "PerfEvent")
    dflt = {n: (v is not None and getattr(v, "value", "x") is None) for n, v in pe.fields}
    okd = all(dflt.get(n) for n in ("th_info", "cs_flags", "cs_frames"))
    run.ob("R3", M, "PerfEvent", "optional parts default to None", okd,
           "PerfEvent.th_info / cs_flags / cs_frames do not default to None: header-less or flag-less samples carry stale data",
           nontrivial=False)
    if undecided:
        run.floor_failures.append("C20/R3: " + undecided[0] + (f" (+{len(undecided) - 1} more)" if len(undecided) > 1 else ""))
