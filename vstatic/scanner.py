"""Deciding a byte scanner: does ``seek_until(reader, tag)`` stop right after the FIRST occurrence of ``tag``?

The function is interpreted symbolically once (``sym``); what is decided is read off the terms, not off the syntax:

* its state variables (the loop-carried variables of its single ``while`` loop), their initial values and their value
  after one iteration, all as terms over the previous state, the byte read in this iteration and the tag;
* the exits of the loop (``return`` / ``break`` / loop test turning false / ``raise``) with the conditions under which
  they are taken, split into exits taken before this iteration's read and exits taken after it;
* the reads: at most one priming ``read(len(tag))`` before the loop and exactly one ``read(1)`` per iteration.

Two decision procedures:

1. *Sliding window* (term-level theorem).  If the state is one bytes variable ``w`` with ``w0 = read(len(tag))``,
   ``w' = w[1:] + read(1)``, the scanner stops exactly when ``w == tag`` and raises on an empty read, then ``w`` is always
   the last ``len(tag)`` bytes consumed, so the scanner stops after the first occurrence.  (Spelling - ``while w != tag``
   or ``while True: if w == tag: return``, variable names, helper variables - does not matter.)

2. *Finite automaton equivalence* (exhaustive).  Otherwise the extracted transition function is evaluated concretely for
   each tag that the package really passes, and the product of the scanner's configurations with the reference
   Knuth-Morris-Pratt automaton of the tag is explored breadth-first over the alphabet {bytes of the tag} + {one other
   byte}.  The scanner must accept exactly when the reference automaton reaches its final state, must not raise on a
   non-empty read, and must raise (not loop, not return) on an empty read.  A disagreement comes with the shortest
   witness stream.  The reduction of the alphabet is sound because the extracted terms are checked to use the byte only
   in (in)equality tests against tag bytes, concatenation, slicing and indexing.

Anything outside these two families is *undecided* (the caller fails closed with exit 2).
"""
from __future__ import annotations

from collections import deque
from dataclasses import dataclass, field
from typing import Dict, List, Optional, Tuple

from . import sym
from .model import AnalysisError
from .sym import T, const


class Undecided(Exception):
    pass


@dataclass
class Machine:
    lid: int
    reader: T
    tag: T
    read1: T                       # the term of this iteration's read(1)
    prime: Optional[T]             # the term of the priming read before the loop (or None)
    state: List[str]
    invar: Dict[str, T]            # name -> term standing for the variable at the start of an iteration
    init: Dict[str, T]
    step: Dict[str, T]
    test: Optional[T]
    pre_exits: List[Tuple[str, tuple, Optional[T]]] = field(default_factory=list)    # (kind, pc, raised)
    post_exits: List[Tuple[str, tuple, Optional[T]]] = field(default_factory=list)
    read_pc: tuple = ()


def extract(interp: sym.Interp, mod, fn) -> Tuple[Machine, "sym.Record"]:
    if len(fn.args.args) != 2:
        raise Undecided("scanner does not take (reader, tag)")
    reader, tag = sym.param(fn.args.args[0].arg), sym.param(fn.args.args[1].arg)
    rec = interp.run(mod, fn)
    if rec.notes:
        raise Undecided(f"unsupported constructs: {rec.notes[:2]}")
    loops = [lr for lr in rec.loops.values() if lr.kind in ("while", "for")]
    if len(loops) != 1 or loops[0].kind != "while" or loops[0].parent is not None:
        raise Undecided(f"{len(loops)} loops; one top-level while loop is expected")
    lp = loops[0]
    RD = T("attr", (reader, "read"))
    stream_calls = [c for c in rec.calls if c.func.op == "attr" and c.func.a[0] == reader]
    other = [c for c in stream_calls if c.func != RD]
    if other:
        raise Undecided(f"other stream operations: {[c.func.a[1] for c in other]}")
    in_loop = [c for c in stream_calls if lp.id in c.loops]
    before = [c for c in stream_calls if lp.id not in c.loops and c.seq < lp.body_seq[0]]
    after = [c for c in stream_calls if lp.id not in c.loops and c.seq > lp.body_seq[1]]
    if after:
        raise Undecided("the stream is read again after the loop")
    if len(in_loop) != 1 or in_loop[0].args != (const(1),) or in_loop[0].kwargs:
        raise Undecided(f"{len(in_loop)} reads per iteration (exactly one read(1) is expected)")
    if len(before) > 1:
        raise Undecided("several reads before the loop")
    read1 = T("call", (RD, (const(1),), ()))
    prime = T("call", (RD, before[0].args, before[0].kwargs)) if before else None
    if prime is not None and prime == read1:
        raise Undecided("the priming read cannot be told from the per-iteration read")
    m = Machine(lp.id, reader, tag, read1, prime, [], {}, {}, {}, lp.test)
    for name, w in lp.carried.items():
        vals = w.a[2]
        if len(vals) == 0:
            continue                    # assigned only on a path that leaves the function (e.g. the error message)
        if len(vals) == 2:
            ini, stp = vals
        elif len(vals) == 1:
            # either never changed in the loop, or assigned in the loop only (a per-iteration temporary)
            ini, stp = vals[0], vals[0]
            if sym.contains(vals[0], read1):
                continue                # temporary holding (something computed from) this iteration's byte
        else:
            raise Undecided(f"state variable {name} has {len(vals)} merged values")
        m.state.append(name)
        m.init[name] = ini
        m.invar[name] = T("widen", (name, lp.id, (ini,)))
        m.step[name] = stp
    for kind, pc, seq, lineno in lp.exits:
        raised = None
        if kind == "raise":
            rs = [r for r in rec.returns if r.kind == "raise" and r.lineno == lineno]
            raised = rs[0].value if rs else None
        if kind == "continue":
            raise Undecided("continue inside the scanner loop")
        (m.post_exits if any(sym.contains(c, read1) for c, _ in pc) else m.pre_exits).append((kind, tuple(pc), raised))
    m.read_pc = tuple(in_loop[0].pc)
    return m, rec


# ------------------------------------------------------------------ 1. the sliding-window theorem
def _is_eq(c: T, a: T, b: T) -> Optional[bool]:
    """True if c <=> (a == b), False if c <=> (a != b), None otherwise."""
    pol = True
    while c.op == "not":
        c, pol = c.a[0], not pol
    if c.op == "cmp" and c.a[0] in ("==", "!=") and {c.a[1], c.a[2]} == {a, b}:
        return pol if c.a[0] == "==" else not pol
    return None


def _is_empty_read(c: T, p: bool, read1: T) -> bool:
    pol = p
    while c.op == "not":
        c, pol = c.a[0], not pol
    if c == read1:
        return not pol
    if c.op == "cmp" and c.a[0] in ("==", "!=") and read1 in (c.a[1], c.a[2]) and const(b"") in (c.a[1], c.a[2]):
        return pol if c.a[0] == "==" else not pol
    if c.op == "cmp" and c.a[0] in ("==", "!=", "<") and c.a[1] == T("call", (T("builtin", ("len",)), (read1,), ())):
        if c.a[0] == "<" and c.a[2] == const(1):
            return pol
        if c.a[2] == const(0):
            return pol if c.a[0] == "==" else not pol
    return False


def sliding_window(m: Machine) -> Optional[str]:
    """None if the machine is the exact sliding window; otherwise the reason it is not."""
    if len(m.state) != 1:
        return f"state variables {m.state}"
    w = m.state[0]
    W = m.invar[w]
    ln = T("call", (T("builtin", ("len",)), (m.tag,), ()))
    if m.prime is None or m.init[w] != m.prime or m.prime.a[1] != (ln,):
        return "the window does not start as read(len(tag))"
    if m.step[w] != T("bin", ("+", T("slice", (W, const(1), sym.NONE)), m.read1)):
        return "the window is not advanced as window[1:] + read(1)"
    # acceptance: loop test `W != tag`, or `while True` with a pre-read return/break under `W == tag`
    tv = sym.truth(m.test) if m.test is not None else None
    accept_by_test = m.test is not None and _is_eq(m.test, W, m.tag) is False
    def own(pc):
        return [(c, p) for c, p in pc if not (m.test is not None and c == m.test)]
    accept_exits = [e for e in m.pre_exits if e[0] in ("return", "break")]
    if accept_by_test:
        if accept_exits:
            return "extra exits besides the loop test"
    elif tv is True:
        if len(accept_exits) != 1:
            return "no single `window == tag` exit"
        cs = own(accept_exits[0][1])
        if len(cs) != 1 or _is_eq(cs[0][0], W, m.tag) is not cs[0][1]:
            return "the exit condition is not `window == tag`"
    else:
        return "the loop is not left exactly when window == tag"
    if [e for e in m.pre_exits if e[0] == "raise"]:
        return "raises before reading"
    # the read happens on every iteration that does not accept
    for c, p in own(m.read_pc):
        if not (_is_eq(c, W, m.tag) is (not p)):
            return "the per-iteration read is conditional"
    # after the read: only `raise` on an empty read
    for kind, pc, raised in m.post_exits:
        cs = [(c, p) for c, p in own(pc) if sym.contains(c, m.read1)]
        if kind != "raise" or len(cs) != 1 or not _is_empty_read(cs[0][0], cs[0][1], m.read1):
            return "an exit after the read other than raise-on-empty-read"
    if not m.post_exits:
        return "an empty read does not end the scan"
    return None


def rotated_sliding_window(m: Machine, rec, first_window_tested: bool = True) -> Optional[str]:
    """The same scanner with the acceptance test moved behind the step:

        w = read(len(tag)); if w == tag: return
        loop: b = read(1); if b is empty: raise (or break to an unconditional raise); w = w[1:] + b; if w == tag: return

    It performs the same reads and stops at the same point as the sliding window.  None if the machine has this shape."""
    if len(m.state) != 1:
        return f"state variables {m.state}"
    w = m.state[0]
    W = m.invar[w]
    ln = T("call", (T("builtin", ("len",)), (m.tag,), ()))
    if m.prime is None or m.init[w] != m.prime or m.prime.a[1] != (ln,):
        return "the window does not start as read(len(tag))"
    lp = rec.loops[m.lid]
    step = T("bin", ("+", T("slice", (W, const(1), sym.NONE)), m.read1))
    stp = m.step[w]
    if stp.op == "ite" and _is_empty_read(stp.a[0], True, m.read1) and stp.a[1] == W:
        stp = stp.a[2]          # the value joined in from the break on an empty read
    if stp != step:
        return "the window is not advanced as window[1:] + read(1)"
    if m.test is not None and sym.truth(m.test) is not True:
        return "the loop has a test"
    base = [(c, p) for c, p in m.read_pc]
    early = [r for r in rec.returns if r.kind == "return" and not r.loops and r.seq < lp.body_seq[0]]
    if first_window_tested:
        if len(base) != 1 or _is_eq(base[0][0], m.prime, m.tag) is not (not base[0][1]):
            return "the loop is not entered exactly when the first window differs from the tag"
        if len(early) != 1 or len(early[0].pc) != 1 or _is_eq(early[0].pc[0][0], m.prime, m.tag) is not early[0].pc[0][1]:
            return "no return before the loop when the first window is the tag"
    elif base or early:
        return "conditions before the loop"
    if m.pre_exits:
        return "exits before the per-iteration read"

    def own(pc):
        return [(c, p) for c, p in pc if (c, p) not in base]
    empties, accepts = [], []
    for kind, pc, raised in m.post_exits:
        cs = own(pc)
        if len(cs) == 1 and _is_empty_read(cs[0][0], cs[0][1], m.read1) and kind in ("raise", "break"):
            empties.append(kind)
        elif len(cs) == 2 and kind == "return" and _is_empty_read(cs[0][0], not cs[0][1], m.read1) \
                and _is_eq(cs[1][0], step, m.tag) is cs[1][1]:
            accepts.append(kind)
        else:
            return "an exit other than raise-on-empty-read / return-on-match"
    if len(empties) != 1 or len(accepts) != 1:
        return "not exactly one end-of-stream exit and one match exit"
    if empties[0] == "break":
        later = [r for r in rec.returns if not r.loops and r.seq > lp.body_seq[1]]
        if len(later) != 1 or later[0].kind != "raise" or own(later[0].pc):
            return "leaving the loop at the end of the stream does not raise unconditionally"
    return None


# ------------------------------------------------------------------ 2. automaton equivalence
class _Crash(Exception):
    pass


_BYTES_METHODS = {"startswith", "endswith", "find", "rfind", "index", "count"}


def ceval(t: T, env: Dict[T, object]):
    if t in env:
        return env[t]
    op, a = t.op, t.a
    if op == "const":
        return a[0]
    if op == "not":
        return not ceval(a[0], env)
    if op == "bool":
        if a[0] == "and":
            v = True
            for x in a[1]:
                v = ceval(x, env)
                if not v:
                    return v
            return v
        v = False
        for x in a[1]:
            v = ceval(x, env)
            if v:
                return v
        return v
    if op == "ite":
        return ceval(a[1], env) if ceval(a[0], env) else ceval(a[2], env)
    if op == "cmp":
        l, r = ceval(a[1], env), ceval(a[2], env)
        try:
            return {"==": lambda: l == r, "!=": lambda: l != r, "<": lambda: l < r, "<=": lambda: l <= r, ">": lambda: l > r,
                    ">=": lambda: l >= r, "in": lambda: l in r, "not in": lambda: l not in r, "is": lambda: l is r,
                    "is not": lambda: l is not r}[a[0]]()
        except (TypeError, KeyError) as ex:
            raise _Crash(f"{type(ex).__name__} in {sym.pretty(t)[:60]}")
    if op == "bin":
        l, r = ceval(a[1], env), ceval(a[2], env)
        try:
            return {"+": lambda: l + r, "-": lambda: l - r, "*": lambda: l * r, "//": lambda: l // r, "%": lambda: l % r,
                    "&": lambda: l & r, "|": lambda: l | r, "^": lambda: l ^ r, "<<": lambda: l << r, ">>": lambda: l >> r}[a[0]]()
        except KeyError:
            raise Undecided(f"operator {a[0]}")
        except (TypeError, ZeroDivisionError, ValueError) as ex:
            raise _Crash(f"{type(ex).__name__} in {sym.pretty(t)[:60]}")
    if op == "un":
        v = ceval(a[1], env)
        return {"-": lambda: -v, "+": lambda: +v, "~": lambda: ~v}[a[0]]()
    if op == "sub":
        b, i = ceval(a[0], env), ceval(a[1], env)
        try:
            return b[i]
        except (IndexError, KeyError, TypeError) as ex:
            raise _Crash(f"{type(ex).__name__} in {sym.pretty(t)[:60]}")
    if op == "slice":
        b = ceval(a[0], env)
        lo, hi = ceval(a[1], env), ceval(a[2], env)
        st_ = ceval(a[3], env) if len(a) > 3 else None
        try:
            return b[lo:hi:st_]
        except TypeError as ex:
            raise _Crash(f"{type(ex).__name__} in {sym.pretty(t)[:60]}")
    if op in ("tuple", "list"):
        vals = [ceval(x, env) for x in a[0]]
        return tuple(vals) if op == "tuple" else vals
    if op == "call":
        f, args, kw = a
        if kw:
            raise Undecided(f"keyword call {sym.pretty(t)[:60]}")
        vals = [ceval(x, env) for x in args]
        if f.op == "builtin" and f.a[0] in ("len", "int", "bool", "bytes", "min", "max", "abs", "ord"):
            try:
                return {"len": len, "int": int, "bool": bool, "bytes": bytes, "min": min, "max": max, "abs": abs,
                        "ord": ord}[f.a[0]](*vals)
            except (TypeError, ValueError) as ex:
                raise _Crash(f"{type(ex).__name__} in {sym.pretty(t)[:60]}")
        if f.op == "attr" and f.a[1] in _BYTES_METHODS:
            recv = ceval(f.a[0], env)
            if isinstance(recv, (bytes, bytearray)):
                try:
                    return getattr(bytes(recv), f.a[1])(*vals)
                except (TypeError, ValueError) as ex:
                    raise _Crash(f"{type(ex).__name__} in {sym.pretty(t)[:60]}")
        raise Undecided(f"call {sym.pretty(t)[:60]}")
    raise Undecided(f"term {sym.pretty(t)[:60]}")


def _byte_uses_ok(m: Machine) -> bool:
    """The byte read is only compared for (in)equality, concatenated, sliced, indexed or tested for emptiness."""
    terms = list(m.step.values()) + [c for _, pc, _ in m.pre_exits + m.post_exits for c, _ in pc] + ([m.test] if m.test is not None else [])
    byte_like = {m.read1, T("sub", (m.read1, const(0)))}
    for root in terms:
        for x in sym.walk(root):
            kids = list(sym.children(x))
            if not any(k in byte_like for k in kids):
                continue
            if x.op == "cmp" and x.a[0] in ("==", "!=", "is", "is not"):
                continue
            if x.op == "bin" and x.a[0] == "+":
                continue                                   # concatenation
            if x.op in ("not", "bool", "ite", "slice", "tuple"):
                continue
            if x.op == "sub" and x.a[0] == m.read1:
                continue
            if x.op == "call" and x.a[0] == T("builtin", ("len",)):
                continue
            return False
    return True


def kmp_automaton(tag: bytes, alphabet: List[int]):
    n = len(tag)
    fail = [0] * (n + 1)
    k = 0
    for i in range(1, n):
        while k and tag[i] != tag[k]:
            k = fail[k]
        if tag[i] == tag[k]:
            k += 1
        fail[i + 1] = k
    delta = {}
    for j in range(n + 1):
        for b in alphabet:
            k = j if j < n else fail[j]
            while k and (k == n or tag[k] != b):
                k = fail[k]
            if k < n and tag[k] == b:
                k += 1
            delta[(j, b)] = k
    return delta


@dataclass
class Verdict:
    ok: bool
    how: str
    witness: Optional[str] = None
    what: str = ""
    explored: int = 0


def _freeze(v):
    if isinstance(v, list):
        return ("list",) + tuple(_freeze(x) for x in v)
    if isinstance(v, bytearray):
        return bytes(v)
    return v


def equivalent(m: Machine, tag: bytes, limit: int = 400_000) -> Verdict:
    n = len(tag)
    if n == 0:
        raise Undecided("empty tag")
    if not _byte_uses_ok(m):
        raise Undecided("the byte read is used in arithmetic: the reduced alphabet is not justified")
    other = next(b for b in range(256) if b not in tag)
    alphabet = sorted(set(tag)) + [other]
    delta = kmp_automaton(tag, alphabet)
    base_env = {m.tag: tag}
    names = m.state

    def env_of(state, byte):
        env = dict(base_env)
        for nm, v in zip(names, state):
            env[m.invar[nm]] = v
        if byte is not None:
            env[m.read1] = byte
        return env

    def fires(exits, env):
        for kind, pc, raised in exits:
            if all(bool(ceval(c, env)) == p for c, p in pc):
                return kind, raised
        return None

    def hexs(bs):
        return bytes(bs).hex(" ")

    # initial configurations
    start: List[Tuple[tuple, int, bytes]] = []
    if m.prime is None:
        env = dict(base_env)
        start.append((tuple(ceval(m.init[nm], env) for nm in names), 0, b""))
    else:
        k = ceval(m.prime.a[1][0], dict(base_env))
        if not isinstance(k, int) or k < 0 or k > 24:
            raise Undecided(f"priming read of {k!r} bytes")
        if len(alphabet) ** k > limit:
            raise Undecided(f"{len(alphabet)}^{k} initial windows: too many to enumerate")
        import itertools
        for ln_ in range(k + 1):
            for p in itertools.product(alphabet, repeat=ln_):
                env = dict(base_env)
                env[m.prime] = bytes(p)
                j = 0
                for b in p:
                    j = delta[(j, b)]
                st0 = tuple(ceval(m.init[nm], env) for nm in names)
                # a short priming read means the stream has ended: only EOF can follow
                start.append((st0, j if ln_ == k else -1 - ln_, bytes(p)))
    seen = set()
    q = deque()
    for st0, j, path in start:
        key = (_freeze(st0), j)
        if key not in seen:
            seen.add(key)
            q.append((st0, j, path))
    explored = 0
    try:
        while q:
            state, j, path = q.popleft()
            explored += 1
            if explored > limit:
                raise Undecided(f"more than {limit} configurations")
            short = j < 0                        # the stream ended inside the priming read
            jj = 0 if short else j
            env = env_of(state, None)
            test_true = True if m.test is None else bool(ceval(m.test, env))
            pre = ("test", None) if not test_true else fires(m.pre_exits, env)
            if pre is not None and pre[0] == "raise":
                return Verdict(False, "automaton", hexs(path), "raises before reading any further byte", explored)
            if pre is not None:
                if short or jj != n:
                    return Verdict(False, "automaton", hexs(path),
                                   f"stops after {len(path)} bytes although the tag {tag!r} has not just been read", explored)
                continue
            if not short and jj == n:
                return Verdict(False, "automaton", hexs(path),
                               f"does not stop after the first occurrence of {tag!r} (ending at byte {len(path)}): it reads on",
                               explored)
            # end of stream
            env = env_of(state, b"")
            post = fires(m.post_exits, env)
            if post is None or post[0] != "raise":
                return Verdict(False, "automaton", hexs(path) + " <end of stream>",
                               "does not raise at the end of a stream without the tag"
                               + (" (returns as if the tag had been found)" if post is not None else " (keeps looping)"), explored)
            if short:
                continue
            for b in alphabet:
                env = env_of(state, bytes([b]))
                post = fires(m.post_exits, env)
                nj = delta[(jj, b)]
                npath = path + bytes([b])
                if post is not None:
                    if post[0] == "raise":
                        return Verdict(False, "automaton", hexs(npath), "raises although the stream has not ended", explored)
                    if nj != n:
                        return Verdict(False, "automaton", hexs(npath),
                                       f"stops after {len(npath)} bytes although the tag {tag!r} has not just been read", explored)
                    continue
                nstate = tuple(ceval(m.step[nm], env) for nm in names)
                key = (_freeze(nstate), nj)
                if key not in seen:
                    seen.add(key)
                    q.append((nstate, nj, npath))
    except _Crash as ex:
        return Verdict(False, "automaton", hexs(path), f"crashes: {ex}", explored)
    return Verdict(True, "automaton", None, "", explored)


def decide(interp: sym.Interp, mod, fn, tags: Dict[str, bytes]) -> Dict[str, Verdict]:
    """name -> Verdict for every tag; raises Undecided when the scanner is outside both families."""
    m, rec = extract(interp, mod, fn)
    why = sliding_window(m)
    if why is None:
        return {nm: Verdict(True, "sliding-window theorem") for nm in tags}
    if rotated_sliding_window(m, rec) is None:
        return {nm: Verdict(True, "sliding-window theorem (acceptance tested after each step)") for nm in tags}
    if rotated_sliding_window(m, rec, first_window_tested=False) is None:
        # the same scanner without the test of the first window: a tag that starts right at the scan position is skipped
        return {nm: Verdict(False, "sliding-window theorem (acceptance tested after each step)", tag.hex(),
                            "never compares the first len(tag) bytes with the tag: an occurrence right at the scan position is "
                            "passed over") for nm, tag in tags.items()}
    out = {}
    for nm, tag in tags.items():
        try:
            out[nm] = equivalent(m, tag)
        except Undecided as ex:
            raise Undecided(f"not the sliding window ({why}); automaton check for {nm}: {ex}")
    return out
