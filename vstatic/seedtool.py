"""Confirm an independently produced breaking change and record which checks catch it.

    /venv/bin/python -m vstatic.seedtool confirm <name> <dir with patch.diff, demo_test.py, meta.json>
    /venv/bin/python -m vstatic.seedtool rerun            # re-run the checks against every kept change

`confirm` works in a scratch git worktree of /repo outside /repo and /verif (removed afterwards):
  1. the patch applies to /repo's HEAD,
  2. the repository's whole test suite still passes with it,
  3. the demonstration fails with it and passes without it,
  4. every check's quick command is run against the patched tree (VSTATIC_OUT redirected, /repo itself untouched);
then the change is stored under /verif/seeded/<name>/ with the outcome in meta.json.
"""
from __future__ import annotations

import json
import os
import shutil
import subprocess
import sys
import tempfile

VERIF = os.path.dirname(os.path.dirname(os.path.abspath(__file__)))
REPO = "/repo"
PY = "/venv/bin/python"
PROPS = [f"C{i:02d}" for i in range(1, 21)]


def sh(cmd, cwd=None, env=None, timeout=900):
    p = subprocess.run(cmd, cwd=cwd, env=env, capture_output=True, text=True, timeout=timeout)
    return p.returncode, (p.stdout + p.stderr)


def run_checks(tree: str, out_dir: str, props=PROPS):
    res = {}
    env = dict(os.environ, VSTATIC_OUT=out_dir, PYTHONDONTWRITEBYTECODE="1")
    for p in props:
        rc, out = sh([PY, "-m", "vstatic", "check", p, "--tier", "quick", "--repo", tree], cwd=VERIF, env=env)
        fails = [ln.strip()[:300] for ln in out.splitlines() if ln.strip().startswith("FAIL ")]
        errs = [ln.strip()[:300] for ln in out.splitlines() if "ANALYSIS-ERROR" in ln]
        res[p] = {"exit": rc, "fails": fails[:4], "errors": errs[:2]}
    return res


def confirm(name: str, src: str) -> int:
    patch = os.path.join(src, "patch.diff")
    demo = os.path.join(src, "demo_test.py")
    meta_p = os.path.join(src, "meta.json")
    for f in (patch, demo):
        if not os.path.isfile(f):
            print(f"missing {f}")
            return 2
    meta = json.load(open(meta_p)) if os.path.isfile(meta_p) else {}
    tmp = tempfile.mkdtemp(prefix="vstatic-seed-")
    wt = os.path.join(tmp, "wt")
    try:
        rc, out = sh(["git", "-C", REPO, "worktree", "add", "-q", "--detach", wt, "HEAD"])
        if rc:
            print(out)
            return 2
        os.makedirs(os.path.join(wt, "out"), exist_ok=True)
        shutil.copy(demo, os.path.join(wt, "out", "demo_test.py"))
        env = dict(os.environ, PYTHONDONTWRITEBYTECODE="1")
        rc0, out0 = sh([PY, "-m", "pytest", "-q", "-p", "no:cacheprovider", "out/demo_test.py"], cwd=wt, env=env)
        rc, out = sh(["git", "-C", wt, "apply", "--whitespace=nowarn", patch])
        if rc:
            print("patch does not apply to /repo HEAD:\n" + out)
            return 2
        rc1, out1 = sh([PY, "-m", "pytest", "-q", "-p", "no:cacheprovider", "tests"], cwd=wt, env=env)
        rc2, out2 = sh([PY, "-m", "pytest", "-q", "-p", "no:cacheprovider", "out/demo_test.py"], cwd=wt, env=env)
        suite_line = out1.strip().splitlines()[-1] if out1.strip() else ""
        confirmed = rc0 == 0 and rc1 == 0 and rc2 != 0
        print(f"{name}: demo on clean tree rc={rc0}; suite with change rc={rc1} ({suite_line}); demo with change rc={rc2}")
        if not confirmed:
            print("NOT CONFIRMED")
            print(out0[-600:], out1[-600:], out2[-600:])
            return 1
        checks = run_checks(wt, os.path.join(tmp, "out"))
        caught = sorted(p for p, r in checks.items() if r["exit"] == 1)
        errors = sorted(p for p, r in checks.items() if r["exit"] == 2)
        dest = os.path.join(VERIF, "seeded", name)
        os.makedirs(dest, exist_ok=True)
        shutil.copy(patch, os.path.join(dest, "patch.diff"))
        shutil.copy(demo, os.path.join(dest, "demo_test.py"))
        meta.update({
            "name": name,
            "confirmed": {
                "demo_passes_on_unchanged_tree": True, "test_suite_with_change": suite_line, "demo_fails_with_change": True,
                "how": "scratch git worktree of /repo HEAD; git apply patch.diff; pytest tests; pytest demo_test.py",
            },
            "checks_reporting_violation": caught,
            "checks_analysis_error": errors,
            "reports": {p: checks[p]["fails"][:2] for p in caught},
            "error_reports": {p: checks[p]["errors"][:1] for p in errors},
        })
        with open(os.path.join(dest, "meta.json"), "w") as fd:
            json.dump(meta, fd, indent=1)
        target = meta.get("property")
        print(f"  caught by: {caught or 'NONE'}   analysis errors: {errors or 'none'}   (target {target})")
        for p in caught:
            for ln in checks[p]["fails"][:2]:
                print(f"    {p}: {ln[:220]}")
        return 0
    finally:
        sh(["git", "-C", REPO, "worktree", "remove", "--force", wt])
        shutil.rmtree(tmp, ignore_errors=True)


def confirm_neutral(name: str, src: str) -> int:
    """A behaviour-preserving refactoring produced independently: every check must stay silent on it."""
    patch = os.path.join(src, "patch.diff")
    equiv = os.path.join(src, "equiv_test.py")
    meta_p = os.path.join(src, "meta.json")
    if not os.path.isfile(patch):
        print(f"missing {patch}")
        return 2
    meta = json.load(open(meta_p)) if os.path.isfile(meta_p) else {}
    tmp = tempfile.mkdtemp(prefix="vstatic-seed-")
    wt = os.path.join(tmp, "wt")
    try:
        sh(["git", "-C", REPO, "worktree", "add", "-q", "--detach", wt, "HEAD"])
        env = dict(os.environ, PYTHONDONTWRITEBYTECODE="1")
        os.makedirs(os.path.join(wt, "out"), exist_ok=True)
        rc0 = 0
        companions = [f for f in os.listdir(src) if f not in ("patch.diff", "meta.json") and os.path.isfile(os.path.join(src, f))
                      and os.path.getsize(os.path.join(src, f)) < 40_000_000]
        for f in companions:
            shutil.copy(os.path.join(src, f), os.path.join(wt, "out", f))
        if os.path.isfile(equiv):
            rc0, out0 = sh([PY, "-m", "pytest", "-q", "-p", "no:cacheprovider", "out/equiv_test.py"], cwd=wt, env=env)
        rc, out = sh(["git", "-C", wt, "apply", "--whitespace=nowarn", patch])
        if rc:
            print("patch does not apply:\n" + out)
            return 2
        rc1, out1 = sh([PY, "-m", "pytest", "-q", "-p", "no:cacheprovider", "tests"], cwd=wt, env=env)
        rc2 = 0
        if os.path.isfile(equiv):
            rc2, out2 = sh([PY, "-m", "pytest", "-q", "-p", "no:cacheprovider", "out/equiv_test.py"], cwd=wt, env=env)
        if os.path.isfile(os.path.join(src, "demo_test.py")) and meta.get("derived_from"):
            # the repaired twin of a breaking change: the change's own demonstration passes again
            rc3, _ = sh([PY, "-m", "pytest", "-q", "-p", "no:cacheprovider", "out/demo_test.py"], cwd=wt, env=env)
            rc2 = rc2 or rc3
        suite_line = out1.strip().splitlines()[-1] if out1.strip() else ""
        print(f"{name}: equiv tests on clean tree rc={rc0}; suite with refactoring rc={rc1} ({suite_line}); equiv tests with refactoring rc={rc2}")
        if rc0 or rc1 or rc2:
            print("NOT CONFIRMED as behaviour preserving")
            return 1
        checks = run_checks(wt, os.path.join(tmp, "out"))
        alarms = sorted(p for p, r in checks.items() if r["exit"] == 1)
        errors = sorted(p for p, r in checks.items() if r["exit"] == 2)
        dest = os.path.join(VERIF, "seeded", name)
        os.makedirs(dest, exist_ok=True)
        shutil.copy(patch, os.path.join(dest, "patch.diff"))
        for f in companions:
            if os.path.getsize(os.path.join(src, f)) > 1_000_000:
                # large recorded-output tables are kept compressed (gunzip next to equiv_test.py to re-run it)
                import gzip
                with open(os.path.join(src, f), "rb") as fi, gzip.open(os.path.join(dest, f + ".gz"), "wb", 9) as fo:
                    shutil.copyfileobj(fi, fo)
            else:
                shutil.copy(os.path.join(src, f), os.path.join(dest, f))
        meta.update({"name": name, "kind": "neutral-refactor",
                     "confirmed": {"test_suite_with_change": suite_line, "equiv_tests_pass_on_both": True},
                     "checks_reporting_violation": alarms, "checks_analysis_error": errors,
                     "reports": {p: checks[p]["fails"][:3] for p in alarms},
                     "error_reports": {p: checks[p]["errors"][:1] for p in errors}})
        json.dump(meta, open(os.path.join(dest, "meta.json"), "w"), indent=1)
        print(f"  false alarms: {alarms or 'none'}   analysis errors: {errors or 'none'}")
        for p in alarms:
            for ln in checks[p]["fails"][:3]:
                print(f"    {p}: {ln[:260]}")
        for p in errors:
            for ln in checks[p]["errors"][:1]:
                print(f"    {p}: {ln[:260]}")
        return 0
    finally:
        sh(["git", "-C", REPO, "worktree", "remove", "--force", wt])
        shutil.rmtree(tmp, ignore_errors=True)


def rerun(only=(), jobs: int = 12) -> int:
    """All 20 checks on every kept change, each in its own scratch copy of HEAD (removed afterwards); meta.json is updated."""
    import concurrent.futures as cf
    root = os.path.join(VERIF, "seeded")
    names = []
    for name in sorted(os.listdir(root)) if os.path.isdir(root) else []:
        if only and not any(name.startswith(o) for o in only):
            continue
        if os.path.isfile(os.path.join(root, name, "patch.diff")):
            names.append(name)
    tmp = tempfile.mkdtemp(prefix="vstatic-seed-")
    base = os.path.join(tmp, "base")
    os.makedirs(base)
    sh(["bash", "-c", f"git -C {REPO} archive HEAD pykdebugparser | tar -x -C {base}"])

    def one(name):
        d = os.path.join(root, name)
        wd = tempfile.mkdtemp(prefix="w-", dir=tmp)
        try:
            sh(["cp", "-r", os.path.join(base, "pykdebugparser"), wd])
            rc, out = sh(["git", "apply", "--whitespace=nowarn", os.path.join(d, "patch.diff")], cwd=wd)
            if rc:
                return name, None
            return name, run_checks(wd, os.path.join(wd, "vout"), PROPS)
        finally:
            shutil.rmtree(wd, ignore_errors=True)

    bad = 0
    try:
        with cf.ThreadPoolExecutor(max_workers=jobs) as ex:
            results = dict(ex.map(one, names))
    finally:
        shutil.rmtree(tmp, ignore_errors=True)
    for name in names:
        checks = results[name]
        d = os.path.join(root, name)
        if checks is None:
            print(f"{name}: patch no longer applies")
            bad += 1
            continue
        meta = json.load(open(os.path.join(d, "meta.json")))
        target = meta.get("property")
        neutral = meta.get("kind") == "neutral-refactor"
        caught = sorted(p for p, r in checks.items() if r["exit"] == 1)
        errors = sorted(p for p, r in checks.items() if r["exit"] == 2)
        meta["checks_reporting_violation"] = caught
        meta["checks_analysis_error"] = errors
        meta["reports"] = {p: checks[p]["fails"][:2] for p in caught}
        meta["error_reports"] = {p: checks[p]["errors"][:1] for p in errors}
        json.dump(meta, open(os.path.join(d, "meta.json"), "w"), indent=1)
        if neutral:
            print(f"{name}: neutral refactoring; false alarms: {caught}; analysis errors: {errors}")
            bad += 1 if caught else 0
        else:
            hit = target in caught
            verdict = "CAUGHT" if hit else ("not decided (recorded)" if meta.get("outside") else "MISSED")
            print(f"{name}: target {target} {verdict}; reporting: {caught}; errors: {errors}")
            bad += 0 if (hit or meta.get("outside")) else 1
    return 1 if bad else 0


def batch(root: str, jobs: int = 4) -> int:
    """Confirm every finished sub-agent result under root/<ID>/out that is not yet kept under /verif/seeded (by ID prefix)."""
    import concurrent.futures as cf
    import re
    kept = {n.split("-")[0] for n in os.listdir(os.path.join(VERIF, "seeded"))}
    todo = []
    for ident in sorted(os.listdir(root)):
        out = os.path.join(root, ident, "out")
        mp = os.path.join(out, "meta.json")
        if not os.path.isfile(mp) or not os.path.isfile(os.path.join(out, "patch.diff")):
            continue
        try:
            meta = json.load(open(mp))
        except Exception:
            continue
        neutral = meta.get("kind") == "neutral-refactor"
        new_id = ("N" + ident[1:]) if neutral else ident
        if new_id in kept:
            continue
        words = re.sub(r"[^a-z0-9]+", "-", " ".join(str(meta.get("scope" if neutral else "summary", "x")).lower().split()[:6])).strip("-")[:44]
        todo.append((f"{new_id}-{words}", out, neutral))

    def one(t):
        name, out, neutral = t
        rc, text = sh([PY, "-m", "vstatic.seedtool", "confirm-neutral" if neutral else "confirm", name, out], cwd=VERIF, timeout=3000)
        return name, rc, text
    with cf.ThreadPoolExecutor(max_workers=jobs) as ex:
        for name, rc, text in ex.map(one, todo):
            print(text.rstrip()[:1500])
    return 0


def table() -> int:
    """Markdown table of the kept changes (for DESIGN.md section 9)."""
    root = os.path.join(VERIF, "seeded")
    rows, neutral = [], []
    for name in sorted(os.listdir(root)):
        mp = os.path.join(root, name, "meta.json")
        if not os.path.isfile(mp):
            continue
        m = json.load(open(mp))
        caught = m.get("checks_reporting_violation", [])
        errs = m.get("checks_analysis_error", [])
        if m.get("kind") == "neutral-refactor":
            neutral.append(f"| {name} | {(m.get('scope') or '')[:110]} | {len(m.get('edits', [])) if isinstance(m.get('edits', []), (list, tuple)) else m.get('edits')} | "
                           f"{', '.join(caught) or 'none'} | {', '.join(errs) or 'none'} |")
            continue
        tgt = m.get("property", "?")
        first = ""
        if tgt in m.get("reports", {}) and m["reports"][tgt]:
            r = m["reports"][tgt][0]
            first = r.split("rule=")[1].split(" ")[0] if "rule=" in r else ""
        verdict = "caught" if tgt in caught else ("exit 2 (undecidable form)" if tgt in errs else
                                                  ("not decided: " + m["outside"] if m.get("outside") else "MISSED"))
        summ = " ".join((m.get("summary") or "").split())[:150]
        rows.append(f"| {name} | {tgt} | {summ} | {verdict}{' by ' + tgt + '/' + first if first else ''} | "
                    f"{', '.join(c for c in caught if c != tgt) or '-'} |")
    print("| change | target | what it does | target check | other checks reporting |\n|---|---|---|---|---|")
    print("\n".join(rows))
    print()
    print("| refactoring | scope | edits | false alarms | analysis errors |\n|---|---|---|---|---|")
    print("\n".join(neutral))
    return 0


def cross(jobs: int = 16, only_neutral=(), only_break=()) -> int:
    """Every kept breaking change on top of every kept refactoring (where both patches still apply): the bug is then hidden
    in a differently written tree.  Where the change's own demonstration still fails (the bug is still there) and the
    repository's tests still pass, the target check must still report it.  Scratch copies live under a temporary directory
    and are removed; nothing is written to /verif/seeded."""
    import concurrent.futures as cf
    root = os.path.join(VERIF, "seeded")
    neutrals, breaks = [], []
    for name in sorted(os.listdir(root)):
        mp = os.path.join(root, name, "meta.json")
        if not os.path.isfile(mp) or not os.path.isfile(os.path.join(root, name, "patch.diff")):
            continue
        m = json.load(open(mp))
        if m.get("kind") == "neutral-refactor":
            if not only_neutral or any(name.startswith(o) for o in only_neutral):
                neutrals.append(name)
        elif m.get("property") and not m.get("outside"):       # (changes recorded as outside their property are not expected)
            if not only_break or any(name.startswith(o) for o in only_break):
                breaks.append((name, m["property"]))
    tmp = tempfile.mkdtemp(prefix="vstatic-cross-")
    base = os.path.join(tmp, "base")
    os.makedirs(base)
    sh(["bash", "-c", f"git -C {REPO} archive HEAD pykdebugparser tests | tar -x -C {base}"])

    def one(job):
        nname, bname, prop = job
        wd = tempfile.mkdtemp(prefix="w-", dir=tmp)
        try:
            sh(["cp", "-r", os.path.join(base, "pykdebugparser"), os.path.join(base, "tests"), wd])
            for pn in (nname, bname):
                rc, out = sh(["git", "apply", "--whitespace=nowarn", os.path.join(root, pn, "patch.diff")], cwd=wd)
                if rc:
                    return (nname, bname, prop, "inapplicable", "")
            env = dict(os.environ, PYTHONDONTWRITEBYTECODE="1", PYTHONPATH=wd)
            os.makedirs(os.path.join(wd, "out"), exist_ok=True)
            shutil.copy(os.path.join(root, bname, "demo_test.py"), os.path.join(wd, "out", "demo_test.py"))
            rc_demo, _ = sh([PY, "-m", "pytest", "-q", "-x", "-p", "no:cacheprovider", "out/demo_test.py"], cwd=wd, env=env)
            if rc_demo == 0:
                return (nname, bname, prop, "bug-not-manifest", "")
            rc_suite, _ = sh([PY, "-m", "pytest", "-q", "-x", "-p", "no:cacheprovider", "tests"], cwd=wd, env=env)
            if rc_suite:
                return (nname, bname, prop, "suite-fails", "")
            res = run_checks(wd, os.path.join(wd, "vout"), [prop])[prop]
            status = {1: "caught", 0: "MISSED", 2: "undecided"}.get(res["exit"], f"exit {res['exit']}")
            return (nname, bname, prop, status, (res["errors"] or res["fails"] or [""])[0][:200])
        finally:
            shutil.rmtree(wd, ignore_errors=True)
    jobs_l = [(n, b, p) for n in neutrals for b, p in breaks]
    tally = {}
    try:
        with cf.ThreadPoolExecutor(max_workers=jobs) as ex:
            for nname, bname, prop, status, detail in ex.map(one, jobs_l):
                tally[status] = tally.get(status, 0) + 1
                if status in ("MISSED", "undecided"):
                    print(f"{status}: {bname} (target {prop}) on top of {nname}: {detail}")
    finally:
        shutil.rmtree(tmp, ignore_errors=True)
    print("cross:", ", ".join(f"{k}={v}" for k, v in sorted(tally.items())))
    return 1 if tally.get("MISSED") else 0


if __name__ == "__main__":
    if len(sys.argv) >= 3 and sys.argv[1] == "batch":
        sys.exit(batch(sys.argv[2]))
    if len(sys.argv) >= 2 and sys.argv[1] == "table":
        sys.exit(table())
    if len(sys.argv) >= 4 and sys.argv[1] == "confirm":
        sys.exit(confirm(sys.argv[2], sys.argv[3]))
    if len(sys.argv) >= 4 and sys.argv[1] == "confirm-neutral":
        sys.exit(confirm_neutral(sys.argv[2], sys.argv[3]))
    if len(sys.argv) >= 2 and sys.argv[1] == "rerun":
        sys.exit(rerun(tuple(sys.argv[2:])))
    if len(sys.argv) >= 2 and sys.argv[1] == "cross":
        ns = tuple(a for a in sys.argv[2:] if a.startswith("N"))
        bs = tuple(a for a in sys.argv[2:] if not a.startswith("N"))
        sys.exit(cross(16, ns, bs))
    print(__doc__)
    sys.exit(2)

