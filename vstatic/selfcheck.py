"""Setup command: imports the engine, runs the embedded canaries of the symbolic interpreter."""
from __future__ import annotations

import ast
import sys

from . import consteval, model, render, sym


CANARY = '''
def f(parser, events, flag=False):
    args = events[0].values
    x = 'A' if flag else ''
    rep = f'name{x}({args[0]}, {hex(args[2])})'
    if events[-1].values[0]:
        rep += f', errno: {events[-1].values[0]}'
    return rep
'''


def main() -> int:
    tree = ast.parse(CANARY)
    fn = tree.body[0]

    class FakeRepo:
        def lookup(self, dotted):
            return None

        def dotted(self, mod, node):
            return None

    mod = model.ModuleInfo("canary", "<canary>", CANARY, tree)
    mod.functions["f"] = fn
    interp = sym.Interp(FakeRepo())
    rec = interp.run(mod, fn, {"parser": sym.param("parser"), "events": sym.param("events")})
    segs = render.flatten(rec.return_term())
    vs = render.variants(segs)
    ok = len(vs) == 4
    shapes = [render.parse_call(flat) for _, flat in vs]
    ok = ok and all(s is not None and len(s.positions) == 2 for s in shapes)
    names = sorted({s.name for s in shapes if s})
    ok = ok and names == ["name", "nameA"]
    if not ok:
        print("ANALYSIS-ERROR selfcheck: symbolic interpreter canary failed", names, len(vs))
        return 2
    print("vstatic selfcheck ok: interpreter, renderer, call-shape parser")
    return 0


if __name__ == "__main__":
    sys.exit(main())
