"""Seeded-fault / neutral-twin self-test of the analyser (thorough tier only).

Each mutant is a small source edit applied to a scratch copy of the package under
analysis (outside /repo and /verif, removed after use).  A *fault* must make the
named rule of the property's check report a violation; a *neutral* twin (a
behaviour-preserving rewrite) must leave the check silent.  Results are recorded
in evidence under ``coverage.selftest``; they never change the verdict about /repo.
"""
from __future__ import annotations

import ast
import concurrent.futures as cf
import importlib
import os
import shutil
import subprocess
import sys
import tempfile
from dataclasses import dataclass
from typing import List, Optional

VERIF = os.path.dirname(os.path.dirname(os.path.dirname(os.path.abspath(__file__))))


@dataclass
class Mutant:
    prop: str
    kind: str                  # fault | neutral
    name: str
    file: str                  # relative to the package directory
    old: str
    new: str
    expect: Optional[str] = None   # rule id that must be named in the report (faults)
    all_occurrences: bool = False
    more: tuple = ()               # further (file, old, new) edits applied together


def F(prop, name, file, old, new, expect=None, all_occurrences=False, more=()):
    return Mutant(prop, "fault", name, file, old, new, expect, all_occurrences, tuple(more))


def N(prop, name, file, old, new, all_occurrences=False, more=()):
    return Mutant(prop, "neutral", name, file, old, new, None, all_occurrences, tuple(more))


def load(prop: str) -> List[Mutant]:
    try:
        mod = importlib.import_module(f"vstatic.selftest.m_{prop.lower()}")
    except ModuleNotFoundError:
        return []
    return list(mod.MUTANTS)


def _run_one(m: Mutant, repo_root: str) -> dict:
    src_pkg = os.path.join(repo_root, "pykdebugparser")
    path = os.path.join(src_pkg, m.file)
    res = {"name": m.name, "kind": m.kind, "file": m.file, "expect": m.expect}
    if not os.path.isfile(path):
        res["status"] = "skipped: file missing"
        return res
    with open(path) as fd:
        text = fd.read()
    n = text.count(m.old)
    if n == 0 or (n > 1 and not m.all_occurrences):
        res["status"] = f"skipped: anchor text occurs {n} times"
        return res
    new_text = text.replace(m.old, m.new)
    try:
        ast.parse(new_text)
    except SyntaxError as e:
        res["status"] = f"skipped: mutant does not compile ({e})"
        return res
    extra_files = {}
    for (f2, old2, new2) in m.more:
        p2 = os.path.join(src_pkg, f2)
        t2 = extra_files.get(f2)
        if t2 is None:
            if f2 == m.file:
                t2 = new_text
            elif os.path.isfile(p2):
                with open(p2) as fd:
                    t2 = fd.read()
            else:
                res["status"] = "skipped: file missing"
                return res
        if t2.count(old2) != 1:
            res["status"] = f"skipped: anchor text of a further edit occurs {t2.count(old2)} times"
            return res
        t2 = t2.replace(old2, new2)
        try:
            ast.parse(t2)
        except SyntaxError as e:
            res["status"] = f"skipped: mutant does not compile ({e})"
            return res
        if f2 == m.file:
            new_text = t2
        else:
            extra_files[f2] = t2
    tmp = tempfile.mkdtemp(prefix="vstatic-mut-")
    try:
        shutil.copytree(src_pkg, os.path.join(tmp, "pykdebugparser"), ignore=shutil.ignore_patterns("__pycache__"))
        with open(os.path.join(tmp, "pykdebugparser", m.file), "w") as fd:
            fd.write(new_text)
        for f2, t2 in extra_files.items():
            with open(os.path.join(tmp, "pykdebugparser", f2), "w") as fd:
                fd.write(t2)
        env = dict(os.environ, VSTATIC_OUT=os.path.join(tmp, "out"), PYTHONDONTWRITEBYTECODE="1")
        p = subprocess.run([sys.executable, "-m", "vstatic", "check", m.prop, "--tier", "quick", "--repo", tmp],
                           cwd=VERIF, env=env, capture_output=True, text=True, timeout=300)
        out = p.stdout + p.stderr
        res["exit"] = p.returncode
        fails = [ln.strip() for ln in out.splitlines() if ln.strip().startswith("FAIL ")]
        res["report"] = fails[:3]
        if m.kind == "fault":
            hit = p.returncode == 1 and (m.expect is None or any(f"rule={m.expect} " in ln for ln in fails))
            res["status"] = "detected" if hit else ("missed" if p.returncode == 0 else
                                                    ("analysis-error" if p.returncode == 2 else "detected-other-rule"))
        else:
            res["status"] = "silent" if p.returncode == 0 else ("false-alarm" if p.returncode == 1 else "analysis-error")
        if res["status"] in ("analysis-error",):
            res["report"] = [ln for ln in out.splitlines() if "ANALYSIS-ERROR" in ln][:2]
    finally:
        shutil.rmtree(tmp, ignore_errors=True)
    return res


def run_for(prop: str, repo_root: str, jobs: int = 16) -> dict:
    muts = load(prop)
    results = []
    if muts:
        with cf.ThreadPoolExecutor(max_workers=jobs) as ex:
            results = list(ex.map(lambda m: _run_one(m, repo_root), muts))
    summary = {
        "seeded": sum(1 for r in results if r["kind"] == "fault" and not r["status"].startswith("skipped")),
        "detected": sum(1 for r in results if r["status"] == "detected"),
        "neutral": sum(1 for r in results if r["kind"] == "neutral" and not r["status"].startswith("skipped")),
        "silent": sum(1 for r in results if r["status"] == "silent"),
        "skipped": sum(1 for r in results if r["status"].startswith("skipped")),
        "missed": [r for r in results if r["status"] in ("missed", "detected-other-rule")],
        "false_alarms": [r for r in results if r["status"] == "false-alarm"],
        "analysis_errors": [r for r in results if r["status"] == "analysis-error"],
        "results": results,
    }
    return summary


def _run_patch(prop: str, name: str, patch: str, neutral: bool, repo_root: str) -> dict:
    """One kept change of a sub-agent (seeded/<name>/patch.diff) applied to a scratch copy of the package."""
    res = {"name": name, "kind": "neutral-refactor" if neutral else "breaking-change"}
    tmp = tempfile.mkdtemp(prefix="vstatic-seed-")
    try:
        shutil.copytree(os.path.join(repo_root, "pykdebugparser"), os.path.join(tmp, "pykdebugparser"),
                        ignore=shutil.ignore_patterns("__pycache__"))
        ap = subprocess.run(["git", "apply", "--whitespace=nowarn", patch], cwd=tmp, capture_output=True, text=True)
        if ap.returncode:
            res["status"] = "skipped: the patch no longer applies to the tree under analysis"
            return res
        env = dict(os.environ, VSTATIC_OUT=os.path.join(tmp, "out"), PYTHONDONTWRITEBYTECODE="1")
        p = subprocess.run([sys.executable, "-m", "vstatic", "check", prop, "--tier", "quick", "--repo", tmp],
                           cwd=VERIF, env=env, capture_output=True, text=True, timeout=600)
        out = p.stdout + p.stderr
        res["exit"] = p.returncode
        res["report"] = [ln.strip()[:240] for ln in out.splitlines() if ln.strip().startswith("FAIL ") or "ANALYSIS-ERROR" in ln][:2]
        if neutral:
            res["status"] = {0: "silent", 1: "false-alarm"}.get(p.returncode, "analysis-error")
        else:
            res["status"] = {1: "detected", 0: "missed"}.get(p.returncode, "analysis-error")
    finally:
        shutil.rmtree(tmp, ignore_errors=True)
    return res


def seeded_for(prop: str, repo_root: str, jobs: int = 16) -> dict:
    """The changes kept under /verif/seeded: the breaking ones that target this property must be reported by its check,
    every behaviour-preserving refactoring must leave it silent."""
    import json
    root = os.path.join(VERIF, "seeded")
    todo = []
    for name in sorted(os.listdir(root)) if os.path.isdir(root) else []:
        mp, pp = os.path.join(root, name, "meta.json"), os.path.join(root, name, "patch.diff")
        if not (os.path.isfile(mp) and os.path.isfile(pp)):
            continue
        meta = json.load(open(mp))
        neutral = meta.get("kind") == "neutral-refactor"
        if neutral or meta.get("property") == prop:
            todo.append((name, pp, neutral))
    results = []
    if todo:
        with cf.ThreadPoolExecutor(max_workers=jobs) as ex:
            results = list(ex.map(lambda t: _run_patch(prop, t[0], t[1], t[2], repo_root), todo))
    return {
        "breaking_changes": sum(1 for r in results if r["kind"] == "breaking-change" and not r["status"].startswith("skipped")),
        "detected": sum(1 for r in results if r["status"] == "detected"),
        "refactorings": sum(1 for r in results if r["kind"] == "neutral-refactor" and not r["status"].startswith("skipped")),
        "silent": sum(1 for r in results if r["status"] == "silent"),
        "skipped": sum(1 for r in results if r["status"].startswith("skipped")),
        "problems": [r for r in results if r["status"] in ("missed", "false-alarm", "analysis-error")],
        "results": results,
    }


def _run_combined(prop: str, bname: str, bpatch: str, nname: str, npatch: str, repo_root: str) -> dict:
    """A kept breaking change applied on top of a kept refactoring: the same slip in a differently written tree."""
    res = {"name": f"{bname} on {nname}"}
    tmp = tempfile.mkdtemp(prefix="vstatic-seed-")
    try:
        shutil.copytree(os.path.join(repo_root, "pykdebugparser"), os.path.join(tmp, "pykdebugparser"),
                        ignore=shutil.ignore_patterns("__pycache__"))
        for pp in (npatch, bpatch):
            ap = subprocess.run(["git", "apply", "--whitespace=nowarn", pp], cwd=tmp, capture_output=True, text=True)
            if ap.returncode:
                res["status"] = "skipped"
                return res
        env = dict(os.environ, VSTATIC_OUT=os.path.join(tmp, "out"), PYTHONDONTWRITEBYTECODE="1")
        p = subprocess.run([sys.executable, "-m", "vstatic", "check", prop, "--tier", "quick", "--repo", tmp],
                           cwd=VERIF, env=env, capture_output=True, text=True, timeout=600)
        res["exit"] = p.returncode
        res["status"] = {1: "detected", 0: "missed"}.get(p.returncode, "analysis-error")
        if p.returncode != 1:
            out = p.stdout + p.stderr
            res["report"] = [ln.strip()[:240] for ln in out.splitlines() if "ANALYSIS-ERROR" in ln][:1]
    finally:
        shutil.rmtree(tmp, ignore_errors=True)
    return res


def combined_for(prop: str, repo_root: str, jobs: int = 16) -> dict:
    """Every kept breaking change that targets the property on top of every kept refactoring (where both patches apply)."""
    import json
    root = os.path.join(VERIF, "seeded")
    br, ne = [], []
    for name in sorted(os.listdir(root)) if os.path.isdir(root) else []:
        mp, pp = os.path.join(root, name, "meta.json"), os.path.join(root, name, "patch.diff")
        if not (os.path.isfile(mp) and os.path.isfile(pp)):
            continue
        meta = json.load(open(mp))
        if meta.get("kind") == "neutral-refactor":
            ne.append((name, pp))
        elif meta.get("property") == prop:
            br.append((name, pp))
    todo = [(b, bp, n, np_) for b, bp in br for n, np_ in ne]
    results = []
    if todo:
        with cf.ThreadPoolExecutor(max_workers=jobs) as ex:
            results = list(ex.map(lambda t: _run_combined(prop, t[0], t[1], t[2], t[3], repo_root), todo))
    ran = [r for r in results if r["status"] != "skipped"]
    return {"combined_trees": len(ran), "detected": sum(1 for r in ran if r["status"] == "detected"),
            "not_applicable_together": len(results) - len(ran),
            "problems": [r for r in ran if r["status"] != "detected"]}


def attach(run, repo) -> None:
    """Hook used by rule modules' ``thorough``: run the property's mutants and record the outcome."""
    s = run_for(run.prop, repo.root)
    run.extra["selftest"] = s
    print(f"  selftest: {s['detected']}/{s['seeded']} seeded faults detected, {s['silent']}/{s['neutral']} neutral twins "
          f"silent, {s['skipped']} skipped")
    for r in s["missed"] + s["false_alarms"] + s["analysis_errors"]:
        print(f"  selftest {r['status']}: {r['name']} {r.get('report')}")
    k = seeded_for(run.prop, repo.root)
    run.extra["independent_changes"] = k
    print(f"  independent changes: {k['detected']}/{k['breaking_changes']} breaking changes targeting {run.prop} detected, "
          f"{k['silent']}/{k['refactorings']} behaviour-preserving refactorings silent, {k['skipped']} skipped")
    for r in k["problems"]:
        print(f"  independent change {r['status']}: {r['name']} {r.get('report')}")
    c = combined_for(run.prop, repo.root)
    run.extra["independent_changes_combined"] = c
    print(f"  breaking changes hidden in refactored trees: {c['detected']}/{c['combined_trees']} detected "
          f"({c['not_applicable_together']} pairs do not apply together)")
    for r in c["problems"]:
        print(f"  combined change {r['status']}: {r['name']} {r.get('report')}")


def main(argv=None) -> int:
    import argparse
    ap = argparse.ArgumentParser()
    ap.add_argument("props", nargs="*")
    ap.add_argument("--repo", default="/repo")
    ns = ap.parse_args(argv)
    props = ns.props or [f"C{i:02d}" for i in range(1, 21)]
    bad = 0
    for p in props:
        s = run_for(p, os.path.abspath(ns.repo))
        if not s["results"]:
            continue
        print(f"{p}: {s['detected']}/{s['seeded']} faults detected, {s['silent']}/{s['neutral']} neutral silent, "
              f"{s['skipped']} skipped")
        for r in s["results"]:
            if r["status"] not in ("detected", "silent"):
                bad += 1
                print(f"   {r['status']:>20}  {r['name']}  {r.get('report')}")
    return 1 if bad else 0


if __name__ == "__main__":
    sys.exit(main())
