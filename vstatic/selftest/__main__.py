import sys
from . import main
sys.exit(main())
