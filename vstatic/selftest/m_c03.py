from . import F, N

K = "kd_buf_parser.py"
MUTANTS = [
    F("C03", "block filler computed as 8 - len % 8 (8 instead of 0 for aligned payloads)", K,
      "    'data' / Select(Aligned(8, Prefixed(Int64ul, GreedyBytes)), Prefixed(Int64ul, GreedyBytes)),\n",
      "    'data' / Prefixed(Int64ul, GreedyBytes),\n    Padding(lambda ctx: 8 - len(ctx.data) % 8),\n", "R8"),
    F("C03", "blocks aligned to 4 bytes", K,
      "Select(Aligned(8, Prefixed(Int64ul, GreedyBytes)), Prefixed(Int64ul, GreedyBytes))",
      "Select(Aligned(4, Prefixed(Int64ul, GreedyBytes)), Prefixed(Int64ul, GreedyBytes))", None),
    F("C03", "signpost name no longer resolved through the string index", "os_log_event.py",
      "            parsed_event['signpost_name'] = log_strings[event.pop('sn')]", "            parsed_event['signpost_name'] = event.pop('sn')", "R10"),
    N("C03", "block filler written as an explicit padding function", K,
      "    'data' / Select(Aligned(8, Prefixed(Int64ul, GreedyBytes)), Prefixed(Int64ul, GreedyBytes)),\n",
      "    'data' / Prefixed(Int64ul, GreedyBytes),\n    Optional(Padding(lambda ctx: -len(ctx.data) % 8)),\n",
      more=[(K, "CString, Prefixed, GreedyBytes, Aligned, Bytes, Select", "CString, Prefixed, GreedyBytes, Aligned, Bytes, Select, Optional")]),
    F("C03", "tag scanner: prefix counter that restarts at 0 or 1 (misses overlapping false starts)", K,
      """    found = reader.read(len(data))
    while found != data:
        byte = reader.read(1)
        if not byte:
            raise EOFError(f'{data!r} was not found before the end of the stream')
        found = found[1:] + byte
""",
      """    matched = 0
    while matched < len(data):
        byte = reader.read(1)
        if not byte:
            raise EOFError(f'{data!r} was not found before the end of the stream')
        if byte[0] == data[matched]:
            matched += 1
        else:
            matched = 1 if byte[0] == data[0] else 0
""", "R7"),
    F("C03", "tag scanner: prefix counter that restarts at 0", K,
      """    found = reader.read(len(data))
    while found != data:
        byte = reader.read(1)
        if not byte:
            raise EOFError(f'{data!r} was not found before the end of the stream')
        found = found[1:] + byte
""",
      """    matched = 0
    while matched != len(data):
        byte = reader.read(1)
        if not byte:
            raise EOFError(f'{data!r} was not found before the end of the stream')
        matched = matched + 1 if byte == data[matched:matched + 1] else 0
""", "R7"),
    N("C03", "tag scanner: while True / return form of the same window", K,
      """    found = reader.read(len(data))
    while found != data:
        byte = reader.read(1)
        if not byte:
            raise EOFError(f'{data!r} was not found before the end of the stream')
        found = found[1:] + byte
""",
      """    window = reader.read(len(data))
    while True:
        if window == data:
            return
        nxt = reader.read(1)
        if nxt == b'':
            raise EOFError(f'{data!r} was not found before the end of the stream')
        window = window[1:] + nxt
"""),
    F("C03", "last record of each chunk dropped", K, "            for _ in range(size // KEVENT_SIZE):", "            for _ in range(size // KEVENT_SIZE - 1):", "R1"),
    F("C03", "only the first chunk is read", K,
      "            if reader.read(len(TRACEV3_MORE_EVENTS)) != TRACEV3_MORE_EVENTS:\n                break", "            reader.read(len(TRACEV3_MORE_EVENTS))\n            break", "R1"),
    F("C03", "MORE_EVENTS test inverted", K,
      "            if reader.read(len(TRACEV3_MORE_EVENTS)) != TRACEV3_MORE_EVENTS:\n                break",
      "            if reader.read(len(TRACEV3_MORE_EVENTS)) == TRACEV3_MORE_EVENTS:\n                break", "R1"),
    F("C03", "a dispatch branch deleted", K,
      "            elif block.tag == TRACEV3_IMAGES:\n                self.images = plistlib.loads(block.data)\n", "", "R3"),
    F("C03", "kernel extensions overwritten by each block", K,
      "                self.kernel_extensions['Binaries'].extend(plistlib.loads(block.data)['Binaries'])",
      "                self.kernel_extensions = plistlib.loads(block.data)", "R4"),
    F("C03", "trace codes overwritten", K, "                self.trace_codes += block.data.decode()", "                self.trace_codes = block.data.decode()", "R4"),
    F("C03", "log events of the last block only", K,
      "                log_events.extend(plistlib.loads(block.data)['Events'])", "                log_events = plistlib.loads(block.data)['Events']", None),
    F("C03", "dyld modules: later blocks replace", K,
      "                if not self.dyld_modules:\n                    self.dyld_modules.update(data)\n                else:\n                    self.dyld_modules['Binaries'].extend(data['Binaries'])",
      "                self.dyld_modules.update(data)", "R4"),
    F("C03", "logs emitted before the events", K,
      "        threadmap = kd_v3_threadmap.parse_stream(reader).threadmap\n        self.set_thread_map(threadmap)\n",
      "        threadmap = kd_v3_threadmap.parse_stream(reader).threadmap\n        self.set_thread_map(threadmap)\n        yield OsLogEvent.from_raw_log_event({}, {})\n", "R2"),
    F("C03", "thread map not installed", K,
      "        threadmap = kd_v3_threadmap.parse_stream(reader).threadmap\n        self.set_thread_map(threadmap)\n",
      "        threadmap = kd_v3_threadmap.parse_stream(reader).threadmap\n", "R2"),
    F("C03", "processes and images sections swapped", K,
      "            elif block.tag == TRACEV3_PROCESSES:\n                self.processes = plistlib.loads(block.data)",
      "            elif block.tag == TRACEV3_PROCESSES:\n                self.images = plistlib.loads(block.data)", "R3"),
    F("C03", "string index not inverted", K,
      "log_strings = {v: k for k, v in plistlib.loads(block.data)['StringIndex'].items()}", "log_strings = dict(plistlib.loads(block.data)['StringIndex'].items())", "R6"),
    F("C03", "table extension keyed the wrong way round", K,
      "                self.threads_pids[log_event.thread_identifier] = log_event.process_identifier",
      "                self.threads_pids[log_event.process_identifier] = log_event.thread_identifier", "R6"),
    F("C03", "table extension without the thread test", K,
      "            if log_event.process and log_event.thread_identifier:", "            if log_event.process:", "R6"),
    F("C03", "sections not reset between parses", K,
      "        self.kernel_extensions = {'Binaries': []}\n        self.dyld_modules = {}\n        self.images = {}",
      "        self.dyld_modules = {}\n        self.images = {}", "R4"),
    F("C03", "records in a chunk decoded from 32-byte reads", K,
      "                buf = reader.read(KEVENT_SIZE)\n                yield from_kd_buf(buf)", "                buf = reader.read(KEVENT_SIZE // 2) + reader.read(KEVENT_SIZE // 2)\n                yield from_kd_buf(buf)", "R1"),
    F("C03", "log records filtered", K,
      "                self.pids_names[log_event.process_identifier] = log_event.process\n            yield log_event",
      "                self.pids_names[log_event.process_identifier] = log_event.process\n                yield log_event", "R6"),
    N("C03", "dispatch via if/continue chain for one tag", K,
      "            elif block.tag == TRACEV3_IMAGES:\n                self.images = plistlib.loads(block.data)",
      "            elif TRACEV3_IMAGES == block.tag:\n                images = plistlib.loads(block.data)\n                self.images = images"),
    N("C03", "trace codes accumulated with explicit +", K, "                self.trace_codes += block.data.decode()", "                self.trace_codes += block.data.decode('utf-8')"),
    N("C03", "seek_until with the match tested after each step, driven by iter(callable, sentinel)", "kd_buf_parser.py",
      "    found = reader.read(len(data))\n    while found != data:\n        byte = reader.read(1)\n        if not byte:\n            raise EOFError(f'{data!r} was not found before the end of the stream')\n        found = found[1:] + byte\n",
      "    from functools import partial\n    window = reader.read(len(data))\n    if window == data:\n        return\n    for byte in iter(partial(reader.read, 1), b''):\n        window = window[1:] + byte\n        if window == data:\n            return\n    raise EOFError(f'{data!r} was not found before the end of the stream')\n"),
    F("C03", "rotated seek_until that forgets to test the first window", "kd_buf_parser.py",
      "    found = reader.read(len(data))\n    while found != data:\n        byte = reader.read(1)\n        if not byte:\n            raise EOFError(f'{data!r} was not found before the end of the stream')\n        found = found[1:] + byte\n",
      "    from functools import partial\n    window = reader.read(len(data))\n    for byte in iter(partial(reader.read, 1), b''):\n        window = window[1:] + byte\n        if window == data:\n            return\n    raise EOFError(f'{data!r} was not found before the end of the stream')\n", None),
    F("C03", "thread-map name read as PaddedString (shared entry layout)", "kd_buf_parser.py",
      "'process' / FixedSized(0x14, CString('utf8')),", "'process' / PaddedString(0x14, 'utf8'),", "R9",
      more=[("kd_buf_parser.py", "from construct import Adapter,", "from construct import PaddedString, Adapter,")]),
    F("C03", "every block's payload is read as a property list before its tag is looked at", "kd_buf_parser.py",
      "        for block in additional_data:\n            if block.tag == TRACEV3_DYLD_MODULES:\n                data = plistlib.loads(block.data)\n",
      "        for block in additional_data:\n            data = plistlib.loads(block.data) if block.data[:6] == b'bplist' or True else None\n            if block.tag == TRACEV3_DYLD_MODULES:\n", "R11"),
    N("C03", "blocks of unknown tags skipped up front, the last branch an else", "kd_buf_parser.py",
      "        for block in additional_data:\n            if block.tag == TRACEV3_DYLD_MODULES:\n",
      "        for block in additional_data:\n            if block.tag not in (TRACEV3_DYLD_MODULES, TRACEV3_TRACE_CODES, TRACEV3_PROCESSES, TRACEV3_KERNEL_EXTENSIONS, TRACEV3_IMAGES, TRACEV3_LOG_EVENTS, TRACEV3_LOG_STRINGS):\n                continue\n            if block.tag == TRACEV3_DYLD_MODULES:\n"),
]
