from . import F, N

TP = "traces_parser.py"
MUTANTS = [
    N("C04", "dispatch table replaced by an equivalent if-chain on the qualifier value", TP,
      """        if event.eventid in self.trace_codes:
            trace_name = self.trace_codes[event.eventid]
            if trace_name in trace_handlers:
                return self.qualifiers_actions[event.func_qualifier](event, self.on_going_traces)

        return self.qualifiers_actions[event.func_qualifier](event, self.on_going_events)
""",
      """        in_trace_family = event.eventid in self.trace_codes and self.trace_codes[event.eventid] in trace_handlers
        state = self.on_going_traces if in_trace_family else self.on_going_events
        qualifier = event.func_qualifier
        if qualifier == 1:
            return self._feed_start_event(event, state)
        if qualifier == 2:
            return self._feed_end_event(event, state)
        return self._feed_single_event(event, state)
""", more=[(TP, """        self.qualifiers_actions = {
            DgbFuncQual.DBG_FUNC_START.value: self._feed_start_event,
            DgbFuncQual.DBG_FUNC_END.value: self._feed_end_event,
            DgbFuncQual.DBG_FUNC_ALL.value: self._feed_single_event,
            DgbFuncQual.DBG_FUNC_NONE.value: self._feed_single_event,
        }
""", "")]),
    F("C04", "qualifier tested as a bit field: ALL runs the START and then the END action", TP,
      """        if event.eventid in self.trace_codes:
            trace_name = self.trace_codes[event.eventid]
            if trace_name in trace_handlers:
                return self.qualifiers_actions[event.func_qualifier](event, self.on_going_traces)

        return self.qualifiers_actions[event.func_qualifier](event, self.on_going_events)
""",
      """        in_trace_family = event.eventid in self.trace_codes and self.trace_codes[event.eventid] in trace_handlers
        state = self.on_going_traces if in_trace_family else self.on_going_events
        qualifier = event.func_qualifier
        if not qualifier:
            return self._feed_single_event(event, state)
        if qualifier & 1:
            self._feed_start_event(event, state)
        if qualifier & 2:
            return self._feed_end_event(event, state)
""", "K7", more=[(TP, """        self.qualifiers_actions = {
            DgbFuncQual.DBG_FUNC_START.value: self._feed_start_event,
            DgbFuncQual.DBG_FUNC_END.value: self._feed_end_event,
            DgbFuncQual.DBG_FUNC_ALL.value: self._feed_single_event,
            DgbFuncQual.DBG_FUNC_NONE.value: self._feed_single_event,
        }
""", "")]),
    F("C04", "windows keyed by code only", TP,
      "        for eventid in state.get(event.tid, {}):\n            state[event.tid][eventid].append(event)",
      "        for eventid in state.get(event.eventid, {}):\n            state[event.eventid][eventid].append(event)", "K1"),
    F("C04", "pop removed", TP, "        events = state[event.tid].pop(event.eventid)\n", "        events = state[event.tid][event.eventid]\n", "K4"),
    F("C04", "reset-on-START only when not open", TP,
      "        state[event.tid][event.eventid] = []\n", "        if event.eventid not in state[event.tid]:\n            state[event.tid][event.eventid] = []\n", "K3"),
    F("C04", "append before the END guard", TP,
      "        if event.tid not in state or event.eventid not in state[event.tid]:\n            # Event end without start.\n            return\n\n        for eventid in state[event.tid]:\n            state[event.tid][eventid].append(event)\n",
      "        for eventid in state.get(event.tid, {}):\n            state[event.tid][eventid].append(event)\n        if event.tid not in state or event.eventid not in state[event.tid]:\n            # Event end without start.\n            return\n", "K4"),
    F("C04", "both domains share one dict", TP, "        self.on_going_traces = {}\n", "        self.on_going_traces = self.on_going_events\n", "K6"),
    F("C04", "NONE mapped to the START action", TP,
      "            DgbFuncQual.DBG_FUNC_NONE.value: self._feed_single_event,", "            DgbFuncQual.DBG_FUNC_NONE.value: self._feed_start_event,", "K7"),
    # (the former mutant here - append to all, then `own = [event]` - turned out to be behaviour-preserving: the old own window
    # it appends to is discarded; C04 now says "another form of the machine" (exit 2) for it, see DESIGN 8.10)
    F("C04", "own window reset after the loop: it no longer begins with its START", TP,
      "        state[event.tid][event.eventid] = []\n        for eventid in state[event.tid]:\n            state[event.tid][eventid].append(event)\n",
      "        for eventid in state[event.tid]:\n            state[event.tid][eventid].append(event)\n        state[event.tid][event.eventid] = []\n", None),
    F("C04", "END appended only to its own window", TP,
      "        for eventid in state[event.tid]:\n            state[event.tid][eventid].append(event)\n\n        events = state[event.tid].pop(event.eventid)",
      "        state[event.tid][event.eventid].append(event)\n\n        events = state[event.tid].pop(event.eventid)", "K4"),
    F("C04", "END pops before appending", TP,
      "        for eventid in state[event.tid]:\n            state[event.tid][eventid].append(event)\n\n        events = state[event.tid].pop(event.eventid)\n",
      "        events = state[event.tid].pop(event.eventid)\n        for eventid in state[event.tid]:\n            state[event.tid][eventid].append(event)\n", "K4"),
    F("C04", "single events skip windows of traces domain", TP,
      "        for eventid in state.get(event.tid, {}):\n            state[event.tid][eventid].append(event)\n        return self.parse_event_list([event])",
      "        for eventid in state.get(event.tid, {}):\n            if eventid != event.eventid:\n                state[event.tid][eventid].append(event)\n        return self.parse_event_list([event])", "K5"),
    F("C04", "domain chosen by class instead of registry", TP,
      "            if trace_name in trace_handlers:", "            if trace_name.startswith('TRACE_'):", "K6"),
    F("C04", "feed_generator yields None results too", TP,
      "            if ret is not None:\n                yield ret", "            yield ret", "K8"),
    F("C04", "feed_generator drops falsy traces", TP, "            if ret is not None:\n", "            if ret:\n", "K8"),
    F("C04", "END returns the whole thread table", TP,
      "        return self.parse_event_list(events)\n\n    def _feed_single_event", "        return self.parse_event_list(events[1:])\n\n    def _feed_single_event", "K4"),
    F("C04", "decoder applied to unknown names falls through", TP,
      "        if trace_name not in self.handlers:\n            return None\n", "", "K9"),
    F("C04", "shared default window object", TP, "            state[event.tid] = {}\n", "            state[event.tid] = self.on_going_events.get(0, {})\n", "K2"),
    N("C04", "setdefault form of START", TP,
      "        if event.tid not in state:\n            # New tid\n            state[event.tid] = {}\n\n        state[event.tid][event.eventid] = []",
      "        state.setdefault(event.tid, {})\n        state[event.tid][event.eventid] = []"),
    N("C04", "END guard as two ifs", TP,
      "        if event.tid not in state or event.eventid not in state[event.tid]:\n            # Event end without start.\n            return\n",
      "        if event.tid not in state:\n            return None\n        if event.eventid not in state[event.tid]:\n            return None\n"),
    N("C04", "local alias for the thread's windows", TP,
      "        for eventid in state[event.tid]:\n            state[event.tid][eventid].append(event)\n\n        events = state[event.tid].pop(event.eventid)",
      "        windows = state[event.tid]\n        for eventid in windows:\n            windows[eventid].append(event)\n\n        events = windows.pop(event.eventid)"),
    N("C04", "END guard through state.get(tid, {})", TP,
      "        if event.tid not in state or event.eventid not in state[event.tid]:\n            # Event end without start.\n            return\n\n        for eventid in state[event.tid]:\n            state[event.tid][eventid].append(event)\n\n        events = state[event.tid].pop(event.eventid)",
      "        pending = state.get(event.tid, {})\n        if event.eventid not in pending:\n            return\n        for window in pending.values():\n            window.append(event)\n        events = pending.pop(event.eventid)"),
    F("C04", "END through state.get(tid, {}) without the open-code guard", TP,
      "        if event.tid not in state or event.eventid not in state[event.tid]:\n            # Event end without start.\n            return\n\n        for eventid in state[event.tid]:\n            state[event.tid][eventid].append(event)\n\n        events = state[event.tid].pop(event.eventid)",
      "        pending = state.get(event.tid, {})\n        for window in pending.values():\n            window.append(event)\n        if event.eventid not in pending:\n            return\n        events = pending.pop(event.eventid)", "K4"),
    N("C04", "feed_generator as yield from a filtered map", TP,
      "        for event in generator:\n            ret = self.feed(event)\n            if ret is not None:\n                yield ret",
      "        yield from (trace for trace in map(self.feed, generator) if trace is not None)"),
    F("C04", "feed_generator as yield from map: None results emitted", TP,
      "        for event in generator:\n            ret = self.feed(event)\n            if ret is not None:\n                yield ret",
      "        yield from map(self.feed, generator)", "K8"),
    N("C04", "parse_event_list through chained .get", TP,
      "        if events[0].eventid not in self.trace_codes:\n            return None\n        trace_name = self.trace_codes[events[0].eventid]\n        if trace_name not in self.handlers:\n            return None\n        return self.handlers[trace_name](self, events)",
      "        handler = self.handlers.get(self.trace_codes.get(events[0].eventid))\n        return None if handler is None else handler(self, events)"),
    F("C04", "a decoder drops the open windows of a terminated thread", "trace_handlers/trace.py",
      "    event.name = parser.tids_names.get(tid, '')\n    return event",
      "    event.name = parser.tids_names.get(tid, '')\n    parser.on_going_events.pop(tid, None)\n    return event", "K10"),
    N("C04", "actions in EAFP style", TP,
      "        if event.tid not in state or event.eventid not in state[event.tid]:\n            # Event end without start.\n            return\n\n        for eventid in state[event.tid]:\n            state[event.tid][eventid].append(event)\n\n        events = state[event.tid].pop(event.eventid)",
      "        try:\n            windows = state[event.tid]\n            events = windows[event.eventid]\n        except KeyError:\n            return None\n        for window in windows.values():\n            window.append(event)\n        del windows[event.eventid]"),
    F("C04", "EAFP END that catches the wrong lookup only", TP,
      "        if event.tid not in state or event.eventid not in state[event.tid]:\n            # Event end without start.\n            return\n\n        for eventid in state[event.tid]:\n            state[event.tid][eventid].append(event)\n\n        events = state[event.tid].pop(event.eventid)",
      "        try:\n            windows = state[event.tid]\n        except KeyError:\n            return None\n        for window in windows.values():\n            window.append(event)\n        events = windows.pop(event.eventid, [])", "K4"),
    F("C04", "a decoder that runs off its end on one path", "trace_handlers/mach.py",
      "            if vm_fault_real is not None:\n                pid = vm_fault_real.pid\n                caller_prot = vm_fault_real.caller_prot\n",
      "            if vm_fault_real is None:\n                return None\n            pid = vm_fault_real.pid\n            caller_prot = vm_fault_real.caller_prot\n", "K11"),
    F("C04", "stand-alone records of undecoded codes return before the append loop", TP,
      "        for eventid in state.get(event.tid, {}):\n            state[event.tid][eventid].append(event)\n        return self.parse_event_list([event])",
      "        if self.trace_codes.get(event.eventid) not in self.handlers:\n            return None\n        for eventid in state.get(event.tid, {}):\n            state[event.tid][eventid].append(event)\n        return self.parse_event_list([event])", "K5"),
    N("C04", "stand-alone records: the append loop under `if event.tid in state`", TP,
      "        for eventid in state.get(event.tid, {}):\n            state[event.tid][eventid].append(event)\n        return self.parse_event_list([event])",
      "        if event.tid in state:\n            for window in state[event.tid].values():\n                window.append(event)\n        return self.parse_event_list([event])"),
    F("C04", "START of an undecoded code is not appended to the enclosing windows", TP,
      "        state[event.tid][event.eventid] = []\n        for eventid in state[event.tid]:\n            state[event.tid][eventid].append(event)",
      "        state[event.tid][event.eventid] = []\n        if event.eventid in self.trace_codes:\n            for eventid in state[event.tid]:\n                state[event.tid][eventid].append(event)\n        else:\n            state[event.tid][event.eventid].append(event)", "K3"),
    F("C04", "string decoder collects only records with a non-zero first word into the trace's record list", "trace_handlers/trace.py",
      "    for event in events:\n        lookup_events.append(event)\n        if event.func_qualifier & DgbFuncQual.DBG_FUNC_START.value:\n            debugid",
      "    for event in events:\n        if event.values[0]:\n            lookup_events.append(event)\n        if event.func_qualifier & DgbFuncQual.DBG_FUNC_START.value:\n            debugid", "K12"),
    F("C04", "a decoder hands on the window without its first record", "trace_handlers/trace.py",
      "    event = TraceStringNewthread(events, events[0]", "    event = TraceStringNewthread(events[1:], events[0]", "K12"),
    N("C04", "string decoder names the collected list differently and appends last", "trace_handlers/trace.py",
      "    for event in events:\n        lookup_events.append(event)\n        if event.func_qualifier & DgbFuncQual.DBG_FUNC_START.value:\n            debugid = event.values[0]\n            str_id = event.values[1]\n            vstr += event.data[16:]\n        else:\n            vstr += event.data\n",
      "    for event in events:\n        if event.func_qualifier & DgbFuncQual.DBG_FUNC_START.value:\n            debugid = event.values[0]\n            str_id = event.values[1]\n            vstr += event.data[16:]\n        else:\n            vstr += event.data\n        lookup_events.append(event)\n"),
    F("C04", "parse_event_list declines long windows", TP,
      "        trace_name = self.trace_codes[events[0].eventid]\n        if trace_name not in self.handlers:\n            return None",
      "        trace_name = self.trace_codes[events[0].eventid]\n        if trace_name not in self.handlers or len(events) > 4096:\n            return None", "K9"),
    N("C04", "parse_event_list keeps the code in a local", TP,
      "        if events[0].eventid not in self.trace_codes:\n            return None\n        trace_name = self.trace_codes[events[0].eventid]",
      "        code = events[0].eventid\n        if code not in self.trace_codes:\n            return None\n        trace_name = self.trace_codes[code]"),
]
