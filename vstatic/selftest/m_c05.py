from . import F, N

TR = "trace_handlers/trace.py"
TP = "traces_parser.py"
B = "trace_handlers/bsd.py"
PF = "trace_handlers/perf.py"
MUTANTS = [
    F("C05", "per-thread tables pre-created with one shared inner dict", "traces_parser.py",
      "        self.on_going_events = {}\n", "        self.on_going_events = dict.fromkeys(threads_pids, {})\n", "R5"),
    F("C05", "data record back in a parser-wide slot", TR,
      "    parser.last_data_exec[events[0].tid] = event\n    return event",
      "    parser.last_data_exec = event\n    return event", None,
      more=[(TR, "    data = parser.last_data_exec.get(events[0].tid)\n", "    data = parser.last_data_exec\n")]),
    F("C05", "per-thread table keyed by pid instead of emitting thread", TR,
      "    parser.last_data_exec[events[0].tid] = event\n", "    parser.last_data_exec[event.pid] = event\n", "R1"),
    F("C05", "new scalar slot written by one decoder and read by another", B,
      "def handle_chdir(parser, events):\n    vnode = parser.parse_vnode(events)\n",
      "def handle_chdir(parser, events):\n    vnode = parser.parse_vnode(events)\n    parser.cwd = vnode.path\n", "R2",
      more=[(B, "def handle_fchdir(parser, events):\n    return BscFchdir(events, events[0].values[0], serialize_result(events[-1]))",
             "def handle_fchdir(parser, events):\n    return BscFchdir(events, getattr(parser, 'cwd', None) or parser.cwd, serialize_result(events[-1]))")]),
    F("C05", "window table keyed by code first", TP,
      "        for eventid in state.get(event.tid, {}):\n            state[event.tid][eventid].append(event)",
      "        for eventid in state.get(event.eventid, {}):\n            state[event.eventid][eventid].append(event)", None),
    F("C05", "module-level cache mutated by a decoder", PF,
      "def handle_thd_cswitch(parser, events):\n    args = events[0].values\n",
      "_seen = []\n\n\ndef handle_thd_cswitch(parser, events):\n    args = events[0].values\n    _seen.append(args[0])\n", "R3"),
    F("C05", "global counter", PF,
      "def handle_thd_cswitch(parser, events):\n    args = events[0].values\n",
      "_count = 0\n\n\ndef handle_thd_cswitch(parser, events):\n    global _count\n    _count += 1\n    args = events[0].values\n", "R3"),
    F("C05", "string record reads the table by pid", TR,
      "    data = parser.last_data_newthread.get(events[0].tid)\n", "    data = parser.last_data_newthread.get(events[0].values[0])\n", None),
    F("C05", "window list shared through a class attribute", TP,
      "        state[event.tid][event.eventid] = []\n", "        state[event.tid][event.eventid] = TracesParser.scratch\n", None),
    N("C05", "setdefault form of START", TP,
      "        if event.tid not in state:\n            # New tid\n            state[event.tid] = {}\n\n        state[event.tid][event.eventid] = []",
      "        state.setdefault(event.tid, {})[event.eventid] = []"),
    N("C05", "local alias of the per-thread table", TR,
      "    parser.last_data_exec[events[0].tid] = event\n", "    slot = parser.last_data_exec\n    slot[events[0].tid] = event\n"),
    N("C05", "writing a by-design global table from a new place", PF,
      "def handle_thd_cswitch(parser, events):\n    args = events[0].values\n",
      "def handle_thd_cswitch(parser, events):\n    args = events[0].values\n    parser.threads_pids[args[0]] = args[1]\n"),
]
